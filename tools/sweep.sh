#!/bin/bash
# seed sweep of the quick tier on the unchanged tree: every line must be OK (false-alarm hunt)
cd "$(dirname "$0")/.."
# in a `vp run --with-repo` snapshot, use the snapshot of /repo so that edits to /repo meanwhile do not disturb the sweep
if [ -n "$VP_RUN_REPO" ]; then export VERIF_REPO="$VP_RUN_REPO"; fi
PYTHONPATH=${VERIF_REPO:-/repo}/src UBERJOB_SRC=${VERIF_REPO:-/repo}/src /venv/bin/python -m harness.setup > /dev/null 2>&1
for s in ${SEEDS:-1 2 3 4 5 6 7 8}; do
  for p in $(python3 -c "import json; print(' '.join(c['property_id'] for c in json.load(open('MANIFEST.json'))['checks']))"); do
    out=$(VERIF_SEED=$s timeout 1200 ./check $p --tier ${TIER:-quick} 2>&1 | grep -v KNOWN-FINDING | tail -2)
    echo "seed=$s $p rc=$? :: $(echo "$out" | tail -1 | cut -c1-160)"
  done
done
