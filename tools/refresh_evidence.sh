#!/bin/bash
# Re-run every registered quick check on the unchanged tree (seed 0) and validate the evidence files against the schema.
cd "$(dirname "$0")/.."
git -C /repo diff --quiet || { echo "/repo has uncommitted changes"; exit 1; }
fail=0
for p in $(python3 -c "import json; print(' '.join(c['property_id'] for c in json.load(open('MANIFEST.json'))['checks']))"); do
  out=$(VERIF_SEED=0 ./check $p 2>&1 | grep -v KNOWN-FINDING | tail -1)
  case "$out" in OK*) ;; *) echo "NOT OK $p: $out"; fail=1;; esac
done
python3-vt - <<'PY'
import json, jsonschema, glob, sys
sch = json.load(open('/root/.vp/EVIDENCE.schema.json'))
man = json.load(open('MANIFEST.json'))
bad = 0
for c in man['checks']:
    f = c['evidence_file']
    try:
        d = json.load(open(f)); jsonschema.validate(d, sch)
        cov = d['coverage']
        assert cov['obligations'] == cov['discharged'] >= 1, (cov['obligations'], cov['discharged'])
        assert d['violations'] == 0
    except Exception as e:
        print('BAD', f, e); bad = 1
jsonschema.validate(man, json.load(open('/root/.vp/MANIFEST.schema.json')))
print('evidence ok' if not bad else 'evidence BAD')
sys.exit(bad)
PY
exit $(( fail || $? ))
