#!/usr/bin/env python3
"""Mutation probe of the checks (a self-test of /verif, not a registered command).

Generates small syntactic mutants of /repo/src/uberjob (comparison / boolean operator swaps, constant tweaks, negated
conditions, deleted statements, swapped call arguments), keeps those that still pass the repository's own test suite, and runs
every `./check Cxx` (quick tier) against each surviving mutant in scratch copies of /repo and /verif (neither is touched).
A mutant on which every check says OK is either equivalent / irrelevant to the 20 properties, or a gap: the list of such
survivors is what this tool is for (triage by hand).

usage: tools/mutate.py [--seed N] [--sample K] [--jobs J] [--files a.py,b.py] [--out DIR]
"""
import argparse
import ast
import json
import os
import random
import shutil
import subprocess
import sys
import time
from concurrent.futures import ThreadPoolExecutor

V = os.path.dirname(os.path.dirname(os.path.abspath(__file__)))
REPO = "/repo"
SRC = os.path.join(REPO, "src", "uberjob")
DEFAULT_FILES = [
    "_transformations/caching.py", "_transformations/pruning.py", "_transformations/__init__.py",
    "_execution/run_physical.py", "_execution/run_function_on_graph.py", "_execution/scheduler.py",
    "_run.py", "_plan.py", "graph.py", "_graph.py", "_registry.py", "_builtins.py", "_errors.py",
    "_util/networkx_util.py", "_util/retry.py", "_util/traceback.py", "_util/__init__.py",
    "stores/_file_store.py", "stores/_text_file_store.py", "stores/_binary_file_store.py", "stores/_json_file_store.py",
    "stores/_pickle_file_store.py", "stores/_touch_file_store.py", "stores/_mounted_store.py", "stores/_path_source.py",
    "stores/_modified_time_source.py", "stores/_literal_source.py",
    "progress/_simple_progress_observer.py", "progress/_composite_progress_observer.py", "progress/__init__.py",
    "progress/_console_progress_observer.py", "progress/_html_progress_observer.py",
]

CMP = {ast.Gt: ast.GtE, ast.GtE: ast.Gt, ast.Lt: ast.LtE, ast.LtE: ast.Lt, ast.Eq: ast.NotEq, ast.NotEq: ast.Eq,
       ast.Is: ast.IsNot, ast.IsNot: ast.Is, ast.In: ast.NotIn, ast.NotIn: ast.In}


def span(node):
    return (node.lineno, node.col_offset, node.end_lineno, node.end_col_offset)


def mutants_of(path):
    src = open(path).read()
    tree = ast.parse(src)
    out = []

    def add(node, new_text, what):
        out.append({"span": span(node), "text": new_text, "what": what})

    # skip docstrings and the licence header
    for node in ast.walk(tree):
        if isinstance(node, ast.Compare) and len(node.ops) == 1 and type(node.ops[0]) in CMP:
            new = ast.Compare(node.left, [CMP[type(node.ops[0])]()], node.comparators)
            add(node, "(" + ast.unparse(new) + ")", "compare " + type(node.ops[0]).__name__ + "->" + CMP[type(node.ops[0])].__name__)
        elif isinstance(node, ast.BoolOp):
            new = ast.BoolOp(ast.Or() if isinstance(node.op, ast.And) else ast.And(), node.values)
            add(node, "(" + ast.unparse(new) + ")", "and<->or")
        elif isinstance(node, ast.UnaryOp) and isinstance(node.op, ast.Not):
            add(node, "(" + ast.unparse(node.operand) + ")", "drop not")
        elif isinstance(node, ast.Constant) and isinstance(node.value, bool):
            add(node, str(not node.value), "flip bool")
        elif isinstance(node, ast.Constant) and isinstance(node.value, int) and not isinstance(node.value, bool):
            add(node, str(node.value + 1), "int +1")
            if node.value > 0:
                add(node, str(node.value - 1), "int -1")
        elif isinstance(node, ast.If):
            add(node.test, "(not (" + ast.unparse(node.test) + "))", "negate if")
        elif isinstance(node, ast.IfExp):
            add(node.test, "(not (" + ast.unparse(node.test) + "))", "negate ifexp")
        elif isinstance(node, ast.Call) and len(node.args) >= 2 and not any(isinstance(a, ast.Starred) for a in node.args[:2]):
            new = ast.Call(node.func, [node.args[1], node.args[0]] + node.args[2:], node.keywords)
            add(node, ast.unparse(new), "swap first two args")
        elif isinstance(node, (ast.Expr, ast.AugAssign)) and not (isinstance(node, ast.Expr) and isinstance(node.value, ast.Constant)):
            add(node, "pass", "delete statement")
        elif isinstance(node, ast.Assign) and len(node.targets) == 1 and isinstance(node.targets[0], (ast.Attribute, ast.Subscript)):
            add(node, "pass", "delete store to attribute/item")
        elif isinstance(node, ast.Return) and node.value is not None and not isinstance(node.value, ast.Constant):
            add(node, "return None", "return None")
        elif isinstance(node, ast.BinOp) and isinstance(node.op, (ast.Add, ast.Sub)):
            new = ast.BinOp(node.left, ast.Sub() if isinstance(node.op, ast.Add) else ast.Add(), node.right)
            add(node, "(" + ast.unparse(new) + ")", "+<->-")
    # block-level operators (round 2 of the probe): one statement list at a time
    def indent_of(stmt):
        return " " * stmt.col_offset

    def block_text(stmts, ind):
        out = []
        for st in stmts:
            for k, line in enumerate(ast.unparse(st).split("\n")):
                out.append((ind if (out or k) else "") + line)
        return "\n".join(out) if out else "pass"

    for node in ast.walk(tree):
        for field in ("body", "orelse", "finalbody"):
            stmts = getattr(node, field, None)
            if not isinstance(stmts, list) or not stmts or not isinstance(stmts[0], ast.stmt):
                continue
            # swap two adjacent simple statements
            for a, b2 in zip(stmts, stmts[1:]):
                if isinstance(a, (ast.Expr, ast.Assign, ast.AugAssign)) and isinstance(b2, (ast.Expr, ast.Assign, ast.AugAssign)) \
                        and not (isinstance(a, ast.Expr) and isinstance(a.value, ast.Constant)):
                    ind = indent_of(a)
                    out.append({"span": (a.lineno, a.col_offset, b2.end_lineno, b2.end_col_offset),
                                "text": block_text([b2, a], ind), "what": "swap adjacent statements"})
        if isinstance(node, ast.With) and node.body:
            ind = indent_of(node)
            out.append({"span": span(node), "text": block_text(node.body, ind), "what": "drop with (keep body)"})
        if isinstance(node, ast.Try):
            ind = indent_of(node)
            if node.finalbody:
                new = ast.Try(node.body, node.handlers, node.orelse, []) if (node.handlers or node.orelse) else None
                txt = block_text([new], ind) if new is not None else block_text(node.body, ind)
                out.append({"span": span(node), "text": txt, "what": "drop finally"})
                new = ast.Try(node.body + node.finalbody, node.handlers, node.orelse, []) if node.handlers else None
                if new is not None:
                    out.append({"span": span(node), "text": block_text([new], ind), "what": "finally -> end of try body"})
            for k, hnd in enumerate(node.handlers):
                if isinstance(hnd.type, ast.Name) and hnd.type.id in ("BaseException", "Exception"):
                    other = "Exception" if hnd.type.id == "BaseException" else "BaseException"
                    add(hnd.type, other, "except %s -> %s" % (hnd.type.id, other))
            if node.orelse:
                new = ast.Try(node.body + node.orelse, node.handlers, [], node.finalbody)
                out.append({"span": span(node), "text": block_text([new], ind), "what": "try-else -> into try body"})
        if isinstance(node, ast.For) and isinstance(node.iter, ast.Call) and isinstance(node.iter.func, ast.Name) \
                and node.iter.func.id == "range" and len(node.iter.args) == 1:
            add(node.iter, "range(%s - 1)" % ast.unparse(node.iter.args[0]), "range(n) -> range(n - 1)")
            add(node.iter, "range(%s + 1)" % ast.unparse(node.iter.args[0]), "range(n) -> range(n + 1)")
        if isinstance(node, ast.Raise) and node.cause is not None:
            new = ast.Raise(node.exc, None)
            add(node, ast.unparse(new), "raise ... from e -> raise ...")
    return src, out


def apply(src, m):
    l1, c1, l2, c2 = m["span"]
    lines = src.split("\n")
    # ast columns are UTF-8 byte offsets; the sources are ASCII outside comments, good enough here
    before = "\n".join(lines[:l1 - 1] + [lines[l1 - 1][:c1]])
    after = "\n".join([lines[l2 - 1][c2:]] + lines[l2:])
    return before + m["text"] + after


def sh(cmd, cwd=None, env=None, timeout=1800):
    """run a shell command in its own process group; on time-out the whole group is killed (a hung test run must not
    outlive the probe)"""
    import signal
    p = subprocess.Popen(cmd, shell=True, cwd=cwd, env=env, stdout=subprocess.PIPE, stderr=subprocess.PIPE, text=True,
                         start_new_session=True)
    try:
        out, err = p.communicate(timeout=timeout)
    except subprocess.TimeoutExpired:
        try:
            os.killpg(p.pid, signal.SIGKILL)
        except ProcessLookupError:
            pass
        p.communicate()

        class R:
            returncode, stdout, stderr = 124, "", "timeout"
        return R()

    class R2:
        returncode, stdout, stderr = p.returncode, out, err
    return R2()


def worker_dirs(out, k):
    w = os.path.join(out, "w%d" % k)
    vr = os.path.join(w, "verif")
    if not os.path.isdir(vr):
        os.makedirs(w, exist_ok=True)
        subprocess.run(["rsync", "-a", "--exclude", ".git", "--exclude", "replays", "--exclude", "seeded", V + "/", vr + "/"], check=True)
    return w, vr


def run_mutant(args, out, k, idx, rel, src, m, props):
    w, vr = worker_dirs(out, k)
    rp = os.path.join(w, "repo")
    shutil.rmtree(rp, ignore_errors=True)
    subprocess.run(["rsync", "-a", "--exclude", ".git", REPO + "/", rp + "/"], check=True)
    target = os.path.join(rp, "src", "uberjob", rel)
    new = apply(src, m)
    try:
        compile(new, target, "exec")
    except SyntaxError:
        return {"id": idx, "file": rel, "what": m["what"], "span": m["span"], "status": "syntax"}
    open(target, "w").write(new)
    env = dict(os.environ, PYTHONPATH=os.path.join(rp, "src"))
    t = sh("/venv/bin/python -m pytest -q -x -p no:cacheprovider --timeout=40 2>&1 | tail -1", cwd=rp, env=env, timeout=240)
    rec = {"id": idx, "file": rel, "what": m["what"], "span": m["span"], "line": src.split("\n")[m["span"][0] - 1].strip()[:120],
           "new": m["text"][:80]}
    if "passed" not in t.stdout or "failed" in t.stdout or "error" in t.stdout:
        rec["status"] = "killed-by-tests"
        return rec
    env2 = dict(os.environ, VERIF_REPO=rp)
    res = {}
    for p in props:
        r = sh("./check %s 2>&1 | tail -3" % p, cwd=vr, env=env2, timeout=1500)
        lines = [x for x in r.stdout.splitlines() if x.strip() and not x.startswith("KNOWN-FINDING")]
        last = lines[-1] if lines else ""
        if last.startswith("OK"):
            res[p] = "OK"
        elif "VIOLATION" in r.stdout:
            res[p] = "VIOLATION(no-input)" if "no-failing-input-found" in r.stdout else "VIOLATION"
        else:
            res[p] = "other:" + last[:60]
    rec["checks"] = res
    rec["status"] = "survived" if all(v == "OK" for v in res.values()) else "detected"
    return rec


def main():
    ap = argparse.ArgumentParser()
    ap.add_argument("--seed", type=int, default=0)
    ap.add_argument("--sample", type=int, default=200)
    ap.add_argument("--jobs", type=int, default=12)
    ap.add_argument("--files", default="")
    ap.add_argument("--out", default="/tmp/mut")
    ap.add_argument("--props", default="")
    ap.add_argument("--only", default="", help="keep only mutants whose `what` contains one of these comma-separated words")
    a = ap.parse_args()
    files = a.files.split(",") if a.files else DEFAULT_FILES
    props = a.props.split(",") if a.props else ["C%02d" % i for i in range(1, 21)]
    allm = []
    for rel in files:
        p = os.path.join(SRC, rel)
        if not os.path.exists(p):
            continue
        src, ms = mutants_of(p)
        for m in ms:
            allm.append((rel, src, m))
    if a.only:
        words = a.only.split(",")
        allm = [x for x in allm if any(w in x[2]["what"] for w in words)]
    rng = random.Random(a.seed)
    rng.shuffle(allm)
    chosen = allm[:a.sample]
    print("mutants: %d generated, %d chosen" % (len(allm), len(chosen)), flush=True)
    os.makedirs(a.out, exist_ok=True)
    results = []
    free = list(range(a.jobs))

    def job(i):
        k = free.pop()
        try:
            rel, src, m = chosen[i]
            r = run_mutant(a, a.out, k, i, rel, src, m, props)
        except Exception as e:      # noqa: BLE001
            r = {"id": i, "status": "error", "error": repr(e)}
        finally:
            free.append(k)
        print(json.dumps(r), flush=True)
        return r

    t0 = time.time()
    with ThreadPoolExecutor(max_workers=a.jobs) as ex:
        results = list(ex.map(job, range(len(chosen))))
    json.dump(results, open(os.path.join(a.out, "results-%d.json" % a.seed), "w"), indent=1)
    by = {}
    for r in results:
        by[r["status"]] = by.get(r["status"], 0) + 1
    print("summary", by, "in %.0fs" % (time.time() - t0))
    for r in results:
        if r["status"] == "survived":
            print("SURVIVED %s:%s %s | %s  =>  %s" % (r["file"], r["span"][0], r["what"], r.get("line"), r.get("new")))


if __name__ == "__main__":
    main()
