#!/usr/bin/env python3
"""Regenerates MANIFEST.json from the table below (keeps it valid at all times)."""
import json, os
V = os.path.dirname(os.path.dirname(os.path.abspath(__file__)))
ALL = [f"C{i:02d}" for i in range(1, 21)]
ENGINE_NOTE = ("Theorems are about the Lean model Engine.step? (every graph, worker count, max_errors, outcome pattern, queue discipline, "
               "interleaving; unbounded). Tie to the code: T1 regenerates Gen/Engine.lean (skeleton flags, stop/zero/classify conditions) from "
               "run_function_on_graph.py on every run, and T3 replays schedule-controlled traces of the real engine through step? with state "
               "snapshots. Trusted: Lean kernel, the translator, the cooperative scheduler harness, CPython queue/threading/GIL atomicity, "
               "networkx adjacency. Lock-protected regions are single steps of this model; Model/EngineFine.lean has them as five interleavable "
               "steps each and Lemmas/EngineRefine.lean proves that it refines the coarse model (refine_reach), its traces are replayed too "
               "(driver `fine`); Model/EngineQ.lean adds who sleeps in Queue.get / Queue.join and whom notify() wakes, proves that no wake-up is lost (Lemmas/EngineQ.lean) and replays the real sleeps and wake-ups (driver `wake`); that each Queue method body is atomic under the queue's mutex, and Condition.wait/notify themselves, remain trusted (CPython).")
CACHE_NOTE = ("Theorems are about the Lean store-level model (Model/Cache.lean: logical plan with registry, stale check with the comparison "
              "regenerated from caching.py as Gen.Stale.staleCond, from-scratch evaluation FS, World with a logical clock; Model/History.lean: "
              "completed writes / source updates / deletions), for ALL plans, store states, histories, fresh_time values; no bound. Tie to the code: "
              "T1 regenerates Gen/Stale.lean on every run; T2 drives the real uberjob.run with in-memory stores through seeded histories under "
              "controlled schedules and compares, after every step, stale sets (3 fresh_time values), every store's content and modified time, the "
              "value of every write and every output with the Lean driver. Trusted: Lean kernel, translator, harness, the ValueStore contract "
              "(read returns what was written, each write gets a newer modified time), determinism of call functions (Herbrand values); that the "
              "store events of one run are completed writes of the right values in ancestor-first order is no longer assumed: the END-TO-END theorems "
              "derive it from the execution model (Model/Exec.lean = run_physical.py: user calls compute from the slots of their argument nodes, read "
              "fills its slot from the store, write stores the slot of the value's own call) applied in the completion order of ANY schedule of the "
              "engine model on the physical plan (Model/Phys.lean) built from the stale set the stale check computes; T2 `exec`: for every real run the "
              "model must predict every value computed, read, stored and returned, given the order in which the effects really took place. The "
              "execution model applies a node's effect at its completion (justified by C09_*_stable). Stores that normalise what they are given "
              "(Model/ExecNorm.lean, `execn`) and producers that rewrite dependent sources during the run (Model/ExecProd.lean, `execp`; private "
              "producers wired directly to their source) are modelled and tied the same way; producers behind ordering tokens or consumed by other "
              "calls, and sources that are views of a stored value's storage, are covered by the store-level theorems and the generated histories only.")
CLAIMED = {
 "C01": ("proof", "Lean 4 proof (inductive invariant over an executable engine model) + trace refinement check",
         "For every reachable state of the engine model a begun node has every (transitive) predecessor completed OK (C01_direct, C01_transitive, "
         "C01_enqueued, C01_counter); C01_plan: the same for the user's own dependency relation (argument, keyword, add_dependency edges, through "
         "literal nodes) on the graph a registry-less run examines after ancestor pruning and contraction of trivial literals. Kernel-checked for all "
         "graphs/schedules; C01_fine: also when the statements of the two lock-protected blocks interleave with the other threads. Tied to the code by "
         "regenerated Gen (engine skeleton, contraction rule) + trace replay of the real engine through both models.", "4/C01"),
 "C02": ("proof", "Lean 4 proof (gather/eval by structural induction, argument round-trip over edge permutations, schedule independence) + program differential",
         "eval(gather v) = substitution with containers rebuilt by Python semantics; node-free subtrees keep their identity; opaque objects are not "
         "traversed; getArgumentNodes returns positional and keyword arguments in the order given for any edge order; unpack exactness; any admissible "
         "execution order gives every slot its eval value (C02_*).", "4/C02"),
 "C03": ("proof", "Lean 4 proof (perturbation lemma + invariant Good over all histories; execution invariant over every reachable engine state) + differential history replay",
         "Good (every stored value the next run treats as up to date equals its from-scratch value) is preserved by every completed write, source update "
         "and deletion in any order (C03_good_preserved); a complete run then leaves every stored value and every node's visible value equal to from-scratch "
         "(C03_history, C03_write_value, C03_good_init). C03_end_to_end: for every schedule of the engine model on the physical plan of the stale set "
         "the stale check computes, a run that returns normally leaves the from-scratch value in every non-source store and in the returned node; "
         "C03_end_to_end_norm: the same for stores that normalise what they are given (from-scratch values taken through the stores). "
         "C03_end_to_end_prod: the same with producers that rewrite dependent sources while the run is going on (from scratch = on the sources as "
         "they are when the run has returned; a refreshed source holds what its producer computes from scratch).", "4/C03"),
 "C04": ("proof", "Lean 4 proof (place-counting invariant; random bag and heapq transcription are permutations) + trace refinement check + queue list differential",
         "No node is begun or enqueued twice in any reachable state, every enqueued node is in exactly one place, only graph nodes run "
         "(C04_once, C04_enqueued_once, C04_place, C04_only_graph_nodes). With a registry: `Needed` (stated on the user's plan: the requested output, "
         "an out-of-date stored value, or what feeds one of them directly through nodes without a store) characterises the calls that are part of "
         "the executed plan; in every reachable state a call has begun only if it is needed, and a normally returning run has executed exactly the "
         "needed calls (C04_only_needed, C04_runs_exactly_needed).", "4/C04"),
 "C05": ("proof", "Lean 4 proof (stale check = declarative out-of-date relation; idempotence of a complete run; stale check and run on the engine model) + differential history replay",
         "isStale (the model of _get_stale_nodes over the regenerated comparison) holds exactly for the nodes that are out of date in the declarative sense "
         "(C05_stale_spec), is inherited downstream, is monotone in fresh_time, and is empty after a complete run (C05_idempotent). The harness checks on the "
         "real code that the rewritten stores are exactly the declaratively out-of-date ones and that a repeated run does nothing (in-memory and bundled "
         "file stores). C05_stale_check_any_schedule/_result: every engine schedule of the stale check computes isStale and asks each store at most once. "
         "C05_end_to_end(_only_stale): under every schedule exactly the out-of-date stored values are written, up-to-date ones are never recomputed, and "
         "nothing is out of date afterwards. C05_repeated_run_nothing: the graph the engine gets for a run repeated immediately with no output is empty, so "
         "in every reachable state nothing has begun (no call, no read, no write). C05_end_to_end_prod_only_stale: with producers, a store (a dependent "
         "source included) is given a new value only if it is out of date.", "4/C05"),
 "C06": ("proof", "Lean 4 proof (inductive invariants) + trace refinement check",
         "Nothing reachable from a failed node is ever begun; first_node_error is exactly the first recorded failure and is set iff a call failed "
         "(C06_contain, C06_error, C06_error_real, C06_raises_iff, C06_failed_not_ok); C06_fine: the same with the failure_lock block as "
         "individual steps.", "4/C06"),
 "C07": ("proof", "Lean 4 proof (termination measure, deadlock-freedom, Kahn soundness, default-scheduler priorities total) + trace refinement check + differential tests of the Kahn and priority models",
         "Every step of the engine model strictly decreases an explicit measure; no reachable non-final state is stuck; a returned run has exactly "
         "worker_count threads, all exited, nothing running, nothing enabled afterwards; a cycle makes the Kahn model raise and a completed sort is a "
         "topological order of all nodes (C07_terminates, C07_no_deadlock, C07_can_finish, C07_quiescent, C07_nothing_later, C07_cycle_rejected, "
         "C07_kahn_sound, C07_acyclic_first, C07_skeleton). C07_fine_terminates / C07_fine_no_deadlock: the same for the fine model in which the two "
         "lock-protected blocks are five interleavable steps each (no lock-order deadlock, a holder can always proceed). C07_no_lost_wakeup / "
         "C07_sleepers_do_not_act / C07_q_terminates / C07_q_can_finish: the same for the wake-up model in which threads sleep inside Queue.get / Queue.join "
         "and only put's notify() and the last task_done's notify_all() wake anybody (real sleeps and wake-ups are replayed through it). The cooperative "
         "scheduler's deadlock detector runs on every controlled schedule. C07_priorities_computed: the default scheduler's priority computation "
         "(greedy.pred_search) ends for every DAG having numbered every node once. Known finding F8 (Thread.start failing during the pool's start-up "
         "hangs run; the model assumes threads can be created) is printed as KNOWN-FINDING.", "4/C07"),
 "C08": ("proof", "Lean 4 proof (Good preserved by every prefix of every history, no ordering assumption; Good in every reachable state of the run) + cut injection at random events",
         "Whatever subset of writes completed before a cut, in whatever order, Good holds (C08_cut, C08_every_prefix, C08_fault); the next complete run is "
         "correct (C08_next_run_correct); completed writes whose upstream was settled are not out of date afterwards (C08_no_redo). C08_end_to_end_cut / "
         "_fault / _cut_prod: Good holds in EVERY reachable state of every engine schedule of the physical plan, also when store writes raise after taking "
         "effect, and also with producers that rewrite dependent sources while the run is going on. "
         "Process death for file stores is delegated to C11.", "4/C08"),
 "C18": ("proof", "Lean 4 proof (conversion to instants is order-isomorphic for every lawful zone; decision = decision on instants) + per-TZ child-process differential",
         "For every zone satisfying the PEP 495 law and every naive/aware representation, the converted values compare exactly as the instants they denote "
         "(C18_order), so the regenerated stale condition and the whole stale fold decide as on bare instants (C18_decision, C18_fold_decision, "
         "C18_zone_independent); CPython's algorithms satisfy the law for one-transition zones (C18_cpython_lawful); counter-models for the pre-fix handling "
         "(C18_keepNaive_counterexample, C18_fold_counterexample) document fixed finding F3. C18_cpython_lawful_tables / _local: the law holds for "
         "every transition table with transitions at least 7 days apart and offsets/jumps below 24 h (the algorithms probe only within 3 days).", "4/C18"),
 "C19": ("proof", "Lean 4 proof (capture/render on stacks of every depth over regenerated traceback code) + differential at nesting depths 1..8",
         "For stacks of every depth the captured chain is the first min(d, D+1) frames after the API function's frame plus the truncation marker iff more "
         "remain (C19_capture_shape), its head is the caller's line at all six API sites (C19_capture_head), nested/store/output calls inherit it "
         "(C19_inherit_*), rendering lists frames outermost first (C19_render_order). F5 is a recorded known finding with its model witness "
         "(C19_registered_literal_defect).", "4/C19"),
 "C11": ("proof", "Lean 4 proof (fault-schedule model of staged writes, all fault positions/kinds) + fault injection at every file operation incl. os._exit",
         "For any fault schedule the target afterwards is exactly the old file or the complete new content, its mtime changed iff the new content is in "
         "place (C11_atomic, C11_mtime, C11_failed_unchanged); no staging file after a failure by exception (C11_no_staging*, with the negation witness "
         "for the pre-fix code, F2); a stale staging file disturbs neither the next write nor reads (C11_stale_staging*); all five stores and both "
         "helpers are instances (C11_stores, C11_staged_write*).", "4/C11"),
 "C12": ("proof", "Lean 4 proof, partial (newline/text layer, utf-8 / utf-16 / latin-1 codecs, JSON encoder/decoder round-trip, binary, touch, mounted, mtime proved; pickle and float(repr(x)) == x hypotheses) + exact-prediction differential",
         "read(write(s)) = s for the regenerated newline mode for every string (C12_text_roundtrip; universal-newline characterisation and defect witness "
         "F1), strict utf-8 and utf-16 decoders invert the encoders on every string without lone surrogates (C12_utf8_roundtrip, C12_utf16_roundtrip, "
         "C12_text_store_utf8: no codec assumption left for text stores), json.loads(json.dumps(v, indent=..)) = v for every JSON value (floats as the text that denotes them), layout and "
         "depth (C12_json_roundtrip, C12_json_store_utf8: no assumption left for JsonFileStore but float(repr(x)) == x), binary/touch/mounted round-trips, the pickle store under a round-trip "
         "hypothesis on the serialiser, get_modified_time None iff nothing stored and monotone.", "4/C12"),
 "C15": ("proof", "Lean 4 proof (well-bracketed engine event log => Legal notification sequence, exact totals) + recording observers under controlled schedules",
         "For every reachable returned engine state the notification sequence is Legal (C15_legal, C15_run), totals are positive / never exceeded / "
         "announced first (C15_extras), and after a normal return total = #calls per scope = #completed (C15_totals); protocol facts re-decided (C15_protocol).", "4/C15"),
 "C20": ("proof", "Lean 4 proof, partial (bookkeeping, strings, last render, elapsed sum over Q, sort totality proved; floats/ipywidgets sampled) + real observers with fake clock",
         "On every Legal sequence (plus the predicates C15 proves of runs) the State bookkeeping never fails, the HTML division is safe, the last "
         "rendering shows the final state, Sum weighted_elapsed = busy time exactly over Q, the sort with fallback never raises (C20_*); witness for "
         "fixed finding F4.", "4/C20"),
 "C09": ("proof", "Lean 4 proof (physical-plan closed form = transcribed loop; path preservation under pruning; order via the engine's C01) + dry-run graph differential",
         "For a rebuilt stored value: orig -> write -> read -> argument consumers, plain dependents after the write, arguments always from read nodes, "
         "registered output redirected to its read node (C09_edges, C09_args_from_read, C09_output); pruning preserves these paths; hence in every "
         "reachable engine state a begun consumer implies completed read/write/orig (C09_order, C09_path_order); dependent sources are read after their "
         "predecessors (C09_depsource*); stored descendants are out of date too (C09_downstream_stale); the physical plan is acyclic; what a begun node "
         "reads (store, argument slots, the value to write) is already final (C09_read_stable, C09_args_stable, C09_write_input_stable); for stores with "
         "an ARBITRARY normalisation (read() = nm(written)) a consumer receives the read-back value of a stored dependency, which is what the store "
         "holds, never the value the call returned (C09_consumer_gets_readback, C09_norm_simulation).", "4/C09"),
 "C13": ("proof", "Lean 4 proof (frame theorem on an explicit heap model, all writes go to objects allocated after copy) + structural snapshots and write tracing",
         "Every object reachable from the caller's plan and registry is unchanged after run/dry_run/render for every outcome (C13_frame, "
         "C13_frame_snapshot), every write targets a fresh object (C13_writes_fresh), copies are independent both ways, two interleaved runs of one "
         "plan leave it unchanged (C13_concurrent).", "4/C13"),
 "C14": ("proof", "Lean 4 proof (dry-run event model; dry-run result = input of run_physical; sink-gather keeps everything) + clone-vs-clone execution differential",
         "A dry run's store events are modified-time queries only (C14_quiet); what it returns is exactly what run_physical receives, also with "
         "transform_physical (C14_same_plan, C14_result); pruning P + all-nodes gather w.r.t. the gather removes nothing (C14_selfcontained*).", "4/C14"),
 "C16": ("proof", "Lean 4 proof, partial (reference model of slots/BoundCalls; CPython frames/tracebacks outside) + weakref/gc census equality",
         "After a node and all its consumers have finished (returned or raised) nothing uberjob keeps references its result; the output is held exactly "
         "by the output slot; the result table is unreachable after preparation; results are kept while a consumer is pending (C16_*).", "4/C16"),
 "C10": ("proof", "Lean 4 proof (error-bound invariant over generated stop condition) + trace refinement check",
         "running <= workers, pool size <= workers, failures <= k + workers for max_errors = k, no early stop, idle workers can always take ready "
         "items - also when idle workers SLEEP in Queue.get and only put's notify() wakes one: min(queued, idle) idle workers are always awake "
         "(C10_workers, C10_pool, C10_errors_bound, C10_no_early_stop, C10_none, C10_parallel, C10_parallel_begin, C10_parallel_awake); retry: attempts = "
         "min(n, first success + 1), eventual success counts, last exception reported, BaseException not retried, n = 1 is the identity, retry reaches "
         "calls, store ops and mtime queries (C10_retry_*). Real-thread rendezvous runs check that max_workers independent calls do run in parallel.", "4/C10"),
 "C17": ("proof", "Lean 4 proof (interrupt transition in the engine model) + trace refinement check with injected KeyboardInterrupt",
         "After the coordinator's setStop no call begins, for the rest of the run; a running call is only ever changed by its own completion "
         "(C17_no_new, C17_no_new_ever, C17_inflight); the interrupt reaches a caller that is asleep in queue.join(), leaves it in the clean-up path, "
         "from which the run can always be driven to its end by threads that are awake, and the interrupted flag is carried to the end "
         "(C17_interrupt_wakes, C17_interrupted_stays). Partial: signal delivery window before `stop = True` is runtime behaviour.", "4/C17"),
}
NOTES = {
 "C02": ("Theorems are about Model/Plan.lean (Python values with identity tags, keyed multigraph, gather/addCall/unpack/getArgumentNodes transcribed, "
         "eval on a topologically numbered plan, Herbrand user functions) with the regenerated Gen.Plan (unpack checks, GATHER_LOOKUP keys, skeleton of "
         "_gather/_call/get_argument_nodes/BoundCall.run). Tie: T1 + T2 on seeded programs through the real Plan API and uberjob.run (all container "
         "shapes, subclasses, shared objects, colliding keys, kwargs orders, unpack lengths), compared with the Lean driver and with a reference "
         "evaluator, under several worker counts / schedulers / controlled schedules. Trusted: Python's set/dict/hash semantics of user objects."),
 "C09": ("Theorems are about Model/Phys.lean: the physical plan as a closed form AND as a transcription of the plan_with_value_stores loop (proved "
         "equal for every registry order), ancestor pruning, literal pruning as a fold over Gen.Stale.keepLiteral; order statements are obtained by "
         "applying C01_transitive of the engine model to the physical graph. Tie: T1 Gen.Stale/Gen.DryRun; T2: real dry_run graph and engine graph "
         "= model's node order and keyed edges at every state of seeded histories, random registry orders; real runs with NORMALISING stores under "
         "controlled schedules (write < read-back < consumer start, values received). The value clause is proved as a fact about edges only "
         "(arguments come from read nodes); that consumers receive what read returned is checked on real runs."),
 "C13": ("Theorems are about Model/Heap.lean (explicit heap of plan/graph/node/registry objects; copy allocates fresh plan+graph objects sharing node "
         "objects; the run path as a script of heap operations parameterised by the regenerated Gen.Purity facts). Tie: T1 + T2 deep structural "
         "snapshots of the caller's objects before/after run / dry_run / render for all outcomes, traced graph and attribute writes, concurrent runs "
         "of one plan from several threads, Plan.copy / Registry.copy independence under generated mutations. Aliasing is as good as the heap model."),
 "C14": ("Theorems are about Model/DryRun.lean + Model/Phys.lean with the regenerated Gen.DryRun (statements of run in source order; the only store "
         "method called on the transformation path is get_modified_time). Tie: T2 (a) dry-run event log = mtime queries only, caller objects untouched, "
         "(b) run(P, output=list(P.graph.nodes())) on one clone of the store state vs the real run on another clone: same events, stores, output; "
         "(c) P + gather = model. 'Same graph therefore same events' rests on determinism and on (b)."),
 "C16": ("Theorems are about Model/Refs.lean (slots, BoundCalls, lookup entries, output slot; references as _create_bound_call_lookup_and_output_slot "
         "creates them; drop at bound_call.value = None in the finally) over arbitrary operation lists and, via the engine model, over every reachable "
         "engine state. PARTIAL: references held by CPython frames, tracebacks of raised exceptions (the run's first error keeps its arguments "
         "through first_node_error) and user code are outside the model. Tie: T1 Gen.Refs; T2 weakref + gc census of live results at every call "
         "boundary (single worker and controlled schedules) equals the model's live set, including results whose last consumer failed."),
 "C11": ("Theorems are about Model/FileStore.lean (file system = path -> (content, mtime) + clock; a write is open-truncate staging, write chunks, close, "
         "replace, with the clean-up of the exception path; fault schedules of raise/die with partial effect at any operation, any number of faults) "
         "instantiated with the regenerated Gen.FileStore (staging suffix, position of os.replace relative to the try, handler type, per-store open "
         "modes and guards). Tie: T1 regenerates; T2 wraps builtins.open / os.replace / os.remove from the harness, compares the observed op trace of "
         "all five stores and both helpers with the model, injects OSError/TypeError/KeyboardInterrupt at EVERY op index and os._exit (forked child, "
         "fresh interpreter) at every index, then compares target bytes, mtime change and directory listing. Trusted: the OS file API "
         "(os.replace atomic within a directory, getmtime), CPython's open()."),
 "C12": ("Theorems are about Model/TextCodec.lean + Model/Stores.lean with the regenerated newline/encoding arguments. PARTIAL: pickle (and float(repr(x)) == x) "
         "are parameters with a round-trip hypothesis, validated only by the sampled runs; json.dump(indent=..)/json.load on None/bool/int/float-as-text/str/list/dict are "
         "Model/Json.lean (encoder with the options T1 reads off the source, strict decoder; both compared with the real JsonFileStore on generated values and on "
         "valid and invalid texts) with the round-trip proved for every value, layout and depth; the utf-8, utf-16 and latin-1 codecs "
         "(strict encoders AND decoders, the decoders compared with the real TextFileStore.read on valid and invalid byte strings), the newline layer, "
         "binary, touch, mounted stores and the modified-time statements are proved; other encodings (locale default other than these) stay hypotheses. Tie: T1 + T2 on real stores in a temp directory, the "
         "model predicting the exact bytes on disk and the exact read-back string."),
 "C15": ("Theorems are about Model/Notify.lean (what the observer is told, read off the engine model's event log of ANY reachable returned state) and "
         "the Legal/PosTotals/WithinTotals/TotalsFirst predicates of Model/Progress.lean. Tie: T1 regenerates Gen.Observer (with-observer block, "
         "totals before phases, running/completed/failed placement, same scope functions, composite forwarding); T3/T2: recording observers on "
         "generated plans under controlled schedules; every recorded sequence is judged by the Lean predicates and, per engine invocation, compared with "
         "the block the model derives from the engine's event log. BaseException raised by a call is excluded, as in the statement."),
 "C20": ("Theorems are about Model/Progress.lean (State bookkeeping with every right-hand side regenerated from _simple_progress_observer.py, update "
         "thread / render points, console print-once logic, sort with fallback) over ALL legal notification sequences with render points anywhere and "
         "rational clock readings. PARTIAL: float rounding of weighted_elapsed, traceback.format_exception, html.escape, ipywidgets, CPython's sorted "
         "are sampled, not proved. Tie: T1 + T2 driving the real Console/HTML/IPython observers with a fake clock, comparing State after every event."),
 "C19": ("Theorems are about Model/Traceback.lean (Python stack = list of frames; capture/render built from the regenerated truncation test, depth "
         "decrement, constants and format string of _util/traceback.py) and the regenerated call-site facts (which API functions capture directly, "
         "which nested creations inherit the captured frame). Tie: T1 regenerates Gen/Traceback.lean; T2 nests every kind of symbolic call at depths "
         "1..8 in real threads, computes the expected chain with inspect, and compares err.call.stack_frame, str(err) and the Lean driver's "
         "capture/render. Known finding F5 (registered Literal with failing mtime query -> AttributeError) is printed as KNOWN-FINDING."),
 "C18": ("Theorems are about Model/Time.lean (zones as offset/decode functions with the PEP 495 round-trip law as an explicit hypothesis structure "
         "TZ.Lawful, proved to hold for CPython's _mktime/fromtimestamp/astimezone algorithms on every one-transition zone) and the regenerated "
         "Gen.TimeConv.naiveHandling / Gen.Stale.staleCond. Tie: T1 regenerates both fragments; T2 runs child processes under 6 (thorough: 12) TZ values "
         "over a 27-way naive/aware representation matrix and instants around DST transitions, comparing real _get_stale_nodes / uberjob.run decisions with "
         "the decision on bare instants and with the Lean driver. Trusted: CPython's datetime on multi-transition IANA zones (sampled, not proved), libc tz data."),
}
PENDING = "check under construction in this build round (model/proofs being written); not claimed yet"
m = {
 "version": 1,
 "setup_cmd": "cd /verif && PYTHONPATH=/repo/src /venv/bin/python -m harness.setup",
 "hooks": {"guard": "UBERJOB_VERIF", "enable": "none needed: all instrumentation is applied from the harness process (module/instance attribute replacement); the guard name is reserved and unused",
           "baseline_off_cmd": "cd /repo && PYTHONPATH=/repo/src /venv/bin/python -m pytest -q -p no:cacheprovider --timeout=900",
           "source_commits": [], "add_only": True},
 "engines": [{"name": "lean-model", "path": "lean/", "serves_properties": sorted(CLAIMED), "kind_free_text": "Lean 4 model + theorems (lake project, no Mathlib require)"},
             {"name": "harness", "path": "harness/", "serves_properties": sorted(CLAIMED), "kind_free_text": "Python: T1 translator, T2 differential driver, T3 cooperative scheduler"}],
 "checks": [],
 "not_applicable": [{"property_id": p, "reason": PENDING} for p in ALL if p not in CLAIMED],
 "notes": "Fix commits in /repo (see known_findings.json): F1 f9f7866, F2 98bd2d0, F3 c5f3abe, F4 4ec6fa3, F6 29347ad. `./check Cxx --replay FILE` re-executes a saved witness.",
}
for p in ALL:
    if p in CLAIMED:
        cat, tech, text, ref = CLAIMED[p]
        m["checks"].append({
            "property_id": p, "quick_cmd": f"./check {p} --tier quick", "thorough_cmd": f"./check {p} --tier thorough",
            "evidence_file": f"evidence/{p}.json", "replay_cmd_template": f"./check {p} --replay {{path}}", "engine": "lean-model",
            "level_claimed": {"category": cat, "text": text, "design_ref": ref},
            "level_note": NOTES.get(p, CACHE_NOTE if p in ("C03", "C05", "C08") else ENGINE_NOTE), "technique": tech})
json.dump(m, open(os.path.join(V, "MANIFEST.json"), "w"), indent=1)
print("claimed", sorted(CLAIMED))
