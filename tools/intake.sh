#!/bin/bash
# tools/intake.sh <worktree-id e.g. R2C11> <seed-name> <property> "<needs>"  : confirm a sub-agent's seed, file it, test it
set -e
wt=/tmp/wt/$1; name=$2; prop=$3; needs=$4
cd /verif
python3 tools/confirm_seed.py "$name" "$wt/seed_out" "$prop" "$needs" 2>&1 | tail -1
git -C /repo worktree remove --force "$wt" 2>/dev/null || true
if [ -d seeded/$name ]; then python3 tools/test_seeds.py "$name" 2>&1 | grep "^$name" | cut -c1-260; fi
