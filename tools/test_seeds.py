#!/usr/bin/env python3
"""Run every confirmed seeded change against the check of the property it breaks, in a scratch copy of /verif and of /repo
(neither /verif's build nor /repo is touched).  Writes seeded/RESULTS.md.   usage: tools/test_seeds.py [seed-id ...]"""
import json, os, shutil, subprocess, sys, time
V = os.path.dirname(os.path.dirname(os.path.abspath(__file__)))
W = os.environ.get("SEEDS_W", "/tmp/vseed")
only = sys.argv[1:]
subprocess.run(["rsync", "-a", "--delete", "--exclude", ".git", "--exclude", "replays", V + "/", W + "/"], check=True)
rows = []
for sid in sorted(os.listdir(os.path.join(V, "seeded"))):
    d = os.path.join(V, "seeded", sid)
    if not os.path.isdir(d) or (only and sid not in only):
        continue
    meta = json.load(open(os.path.join(d, "meta.json")))
    props = [meta["property"]] + meta.get("also", [])
    rc = os.environ.get("SEEDS_RC", "/tmp/rc_seed")
    shutil.rmtree(rc, ignore_errors=True)
    subprocess.run(["git", "clone", "-q", "/repo", rc], check=True)
    a = subprocess.run(["git", "-C", rc, "apply", os.path.join(d, "patch.diff")], capture_output=True, text=True)
    if a.returncode != 0:
        rows.append((sid, "-", "patch does not apply: " + a.stderr.strip()[:80], 0))
        continue
    for p in props:
        t0 = time.time()
        env = dict(os.environ, VERIF_REPO=rc)
        r = subprocess.run(["./check", p], cwd=W, capture_output=True, text=True, env=env, timeout=3000)
        lines = [l for l in r.stdout.splitlines() if l.strip()]
        vio = [l for l in lines if l.startswith("VIOLATION")]
        detail = next((l.strip() for l in lines if l.startswith("  ") and "broken" not in l), "")
        if vio and "no-failing-input-found" not in vio[0]:
            res = "witness"
        elif vio:
            res = "broken, no failing input"
        elif r.returncode == 0:
            res = "MISSED"
        else:
            res = "rc=%d" % r.returncode
        rows.append((sid, p, res + (": " + detail[:140] if detail else ""), time.time() - t0))
        print(sid, p, res, detail[:100], flush=True)
    shutil.rmtree(rc, ignore_errors=True)
# merge with the rows of earlier runs (a run restricted to some seeds must not forget the others)
res_path = os.path.join(V, "seeded", os.environ.get("SEEDS_RESULTS", "RESULTS.md"))
old_rows = {}
if os.path.exists(res_path):
    for line in open(res_path):
        c = [x.strip() for x in line.strip().strip("|").split("|")]
        if len(c) == 4 and c[0] not in ("seed", "---") and os.path.isdir(os.path.join(V, "seeded", c[0])):
            try:
                old_rows[(c[0], c[1])] = (c[0], c[1], c[2], float(c[3]))
            except ValueError:
                pass
for r in rows:
    old_rows[(r[0], r[1])] = r
rows = [old_rows[k] for k in sorted(old_rows)]
with open(res_path, "w") as f:
    f.write("# Seeded changes vs checks (tools/test_seeds.py; scratch copies, quick tier, seed %s)\n\n| seed | check | result | s |\n|---|---|---|---|\n" % os.environ.get("VERIF_SEED", "0"))
    for sid, p, res, t in rows:
        f.write(f"| {sid} | {p} | {res} | {t:.0f} |\n")
shutil.rmtree(W, ignore_errors=True)
