#!/usr/bin/env python3
"""Confirm a seeded change: tests pass with it, demo FAILs with it, demo PASSes without it.
usage: confirm_seed.py <seed-id> <dir-with patch.diff demo.py notes.md> <property> "<needs>"
Copies the confirmed artefacts to /verif/seeded/<seed-id>/ with meta.json."""
import json, os, shutil, subprocess, sys, tempfile
sid, src, prop, needs = sys.argv[1:5]
wt = tempfile.mkdtemp(prefix="confirm_", dir="/tmp")
os.rmdir(wt)
def sh(cmd, **kw):
    return subprocess.run(cmd, shell=True, capture_output=True, text=True, **kw)
assert sh(f"git -C /repo worktree add --detach {wt} HEAD").returncode == 0
try:
    env = dict(os.environ, PYTHONPATH=f"{wt}/src")
    demo = os.path.join(src, "demo.py")
    r0 = sh(f"/venv/bin/python {demo}", env=env, cwd=wt, timeout=600)
    a = sh(f"git -C {wt} apply {os.path.join(src,'patch.diff')}")
    assert a.returncode == 0, a.stderr
    t = sh("/venv/bin/python -m pytest -q -p no:cacheprovider --timeout=900 2>&1 | tail -1", env=env, cwd=wt)
    r1 = sh(f"/venv/bin/python {demo}", env=env, cwd=wt, timeout=600)
    res = {"demo_unchanged_exit": r0.returncode, "tests_with_patch": t.stdout.strip(),
           "demo_patched_exit": r1.returncode, "demo_patched_tail": r1.stdout.strip().splitlines()[-3:]}
    ok = r0.returncode == 0 and r1.returncode != 0 and "81 passed" in t.stdout and "failed" not in t.stdout
    print(json.dumps(res, indent=1), "CONFIRMED" if ok else "NOT CONFIRMED")
    if ok:
        dst = f"/verif/seeded/{sid}"
        os.makedirs(dst, exist_ok=True)
        for f in ("patch.diff", "demo.py", "notes.md"):
            if os.path.exists(os.path.join(src, f)): shutil.copy(os.path.join(src, f), dst)
        json.dump({"id": sid, "property": prop, "needs": needs,
                   "confirmed": res,
                   "ran": ["git worktree of /repo HEAD", "demo.py on unchanged tree (exit 0)", "git apply patch.diff",
                           "pytest (81 passed)", "demo.py on changed tree (exit != 0)"],
                   "base_commit": sh("git -C /repo rev-parse HEAD").stdout.strip()},
                  open(os.path.join(dst, "meta.json"), "w"), indent=1)
finally:
    sh(f"git -C /repo worktree remove --force {wt}")
