#!/bin/bash
# every registered thorough command once on the unchanged tree (used through `vp run --with-repo`); prints one line per property
cd "$(dirname "$0")/.."
if [ -n "$VP_RUN_REPO" ]; then export VERIF_REPO="$VP_RUN_REPO"; fi
PYTHONPATH=${VERIF_REPO:-/repo}/src UBERJOB_SRC=${VERIF_REPO:-/repo}/src /venv/bin/python -m harness.setup > /dev/null 2>&1
for p in ${PROPS:-$(python3 -c "import json; print(' '.join(c['property_id'] for c in json.load(open('MANIFEST.json'))['checks']))")}; do
  t0=$(date +%s)
  out=$(VERIF_SEED=${VERIF_SEED:-0} timeout 5400 ./check $p --tier thorough 2>&1 | grep -v KNOWN-FINDING | tail -2)
  rc=$?
  echo "$p $(( $(date +%s) - t0 ))s :: $(echo "$out" | tail -1 | cut -c1-200)"
done
