#!/bin/bash
# tools/intake3.sh <seed-dir-name under /tmp/wt/out> <property> "<needs>" : confirm a round-3 sub-agent seed, file it, test it
set -e
name=$1; prop=$2; needs=$3
cd /verif
python3 tools/confirm_seed.py "$name" "/tmp/wt/out/$name" "$prop" "$needs" 2>&1 | tail -1
if [ -d seeded/$name ]; then python3 tools/test_seeds.py "$name" 2>&1 | grep "^$name" | cut -c1-300; fi
