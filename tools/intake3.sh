#!/bin/bash
# tools/intake3.sh <seed-dir (absolute, holds patch.diff demo.py notes.md)> <property> "<needs>" [also-check ...]
# confirm a round-3 sub-agent seed in a scratch worktree, file it under seeded/<basename>, test it against the check(s)
set -e
dir=$1; name=$(basename $dir); prop=$2; needs=$3
cd /verif
python3 tools/confirm_seed.py "$name" "$dir" "$prop" "$needs" 2>&1 | tail -1
if [ -d seeded/$name ]; then python3 tools/test_seeds.py "$name" 2>&1 | grep "^$name" | cut -c1-300; fi
