"""T2 for the execution model with NORMALISING stores (lean/UberjobModel/Model/ExecNorm.lean, driver command `execn`).

Seeded histories of real `uberjob.run` calls (cooperative scheduler, 1-3 workers, both schedulers, sometimes a failing call)
on generated plans without side-effecting producers, in which every non-source store normalises: `write(v)` leaves
("n", key, v) — a fresh function symbol per store, the harness's counterpart of `Exec.tagNorm` — and `read()` returns it.
Between runs sources get new versions and stored values are deleted or made older than their inputs.

Per run
* the driver must predict every value: what every call returned (its own function of the values its argument nodes held),
  what every read returned, content and modified time of every store afterwards, and what `run` returned;
* C09's value clause, directly: for a stored dependency a call receives the READ-BACK value ("n", u, …), never the raw value
  the call of `u` returned — also a call that runs in the same run in which `u` is rebuilt;
* C03 for normalising stores, directly: after a successful run every non-source store holds, and `run` returns, the value
  computed from scratch with every stored result passing through its store (independent evaluator `from_scratch_norm`).
"""
from __future__ import annotations

import random

import uberjob
from harness import cache_explore as ce
from harness import coop, plans

NORM_BASE = 1000000


class NormMem(ce.MemStore):
    """a store that normalises: what it holds (and `read` returns) is a function of what `write` was given"""

    def write(self, value):
        self.env.event("write-begin", self.key)
        self.value, self.mtime = ("n", self.key, value), self.env.tick()
        self.env.rec.add("write", self.key, self.value, self.mtime)
        self.env.event("write-end", self.key)


class FalsyNormMem(NormMem):
    def __len__(self):
        return 0


ce.STORE_CLASSES.setdefault("norm", NormMem)
ce.STORE_CLASSES.setdefault("norm-empty-len", FalsyNormMem)


def gen_spec(rng, nmax):
    for _ in range(200):
        spec = ce.gen_cache_spec(rng, nmax=nmax, dependent_sources=False)
        if ce.exec_applicable(spec) and any(nd["kind"] == "stored" for nd in spec["nodes"]):
            break
    for nd in spec["nodes"]:
        if nd["kind"] == "stored":
            spec["store_cls"][str(nd["id"])] = rng.choice(["norm", "norm", "norm-empty-len"])
    return spec


def from_scratch_norm(b):
    """every call evaluated from the sources as they are now, every stored result passing through its store"""
    val = {}
    for nd in b.spec["nodes"]:
        i = nd["id"]
        if nd["kind"] in ("source", "dsource"):
            val[i] = b.stores[i].value if b.stores[i].mtime is not None else ("missing", i)
        else:
            raw = ("a", i) + tuple(val[a] for a in nd["args"])
            val[i] = ("n", i, raw) if nd["kind"] == "stored" else raw
    return val


def run_history(spec, hseed, steps, driver, props):
    ce.BASE = ce.FUTURE if hseed % 4 == 3 else ce.PAST      # every fourth history plays in the future of the machine's clock
    rng = random.Random(hseed)
    env = ce.Env()
    b = ce.build_cache(spec, env)
    viol, dis = [], []
    stats = {"norm_runs": 0, "norm_runs_ok": 0, "norm_effects": 0, "norm_rebuilt": 0, "norm_consumed_readbacks": 0,
             "norm_partial_runs": 0, "norm_updates": 0}
    lines, expect = [], []
    ids = [nd["id"] for nd in spec["nodes"]]
    stored = [nd["id"] for nd in spec["nodes"] if nd["kind"] == "stored"]
    sources = [nd["id"] for nd in spec["nodes"] if nd["kind"] == "source"]
    for i in sources:
        if rng.random() < 0.92:
            b.ver[i] = 1
            b.stores[i].value, b.stores[i].mtime = ("s", i, 1), env.tick()
    for step in range(steps):
        r = rng.random()
        if step == 0 or r < 0.6:
            out = rng.sample(ids, min(len(ids), rng.choice([0, 1, 1, 2]))) if rng.random() < 0.85 else None
            F = rng.choice([None, None, None, env.clock, env.clock - 2])
            workers = rng.choice([1, 2, 3])
            sched = rng.choice(["default", "random"])
            b.failing = set()
            if rng.random() < 0.12:
                cs = [nd["id"] for nd in spec["nodes"] if nd["kind"] in ("stored", "call")]
                b.failing = {rng.choice(cs)}
            stale_before = set(ce.real_stale(b, env, F))
            snap_before = {i: (s.value, s.mtime) for i, s in b.stores.items()}
            c0_before = env.clock + 1
            env.rec = plans.Rec()
            env.count, env.cut_at = 0, None
            outnodes = None if out is None else [b.N[i] for i in out]
            seed = rng.randrange(1 << 30)
            rr = coop.run_controlled(
                lambda: uberjob.run(b.plan, registry=b.reg, output=outnodes, fresh_time=ce.as_dt(F), max_workers=workers,
                                    scheduler=sched, progress=None, max_errors=rng.choice([0, None])),
                seed, mode="prim")
            events = list(env.rec.events)
            desc = {"op": "run", "output": out, "fresh": F, "workers": workers, "scheduler": sched, "failing": sorted(b.failing),
                    "seed": seed}
            if rr.deadlock or rr.hang:
                viol.append({"property": "C07", "what": "run did not terminate", "step": desc})
                break
            ok = rr.exc is None
            stats["norm_runs"] += 1
            stats["norm_runs_ok"] += ok
            stats["norm_effects"] += sum(1 for e in events if e[0] in ("ret", "readval", "write"))
            writes = [e[1] for e in events if e[0] == "write"]
            stats["norm_rebuilt"] += len(writes)
            stats["norm_partial_runs"] += bool(writes) and len(writes) < len(stored)
            xl, xw = ce.exec_request(b, snap_before, c0_before, stale_before, out, events, rr.value if ok else None, ok, cmd="execn")
            lines.append(xl)
            expect.append((xw, desc))
            # ---- the value clause, directly
            for e in events:
                if e[0] == "ret":
                    j, val = e[1], e[2]
                    for a, got in zip(spec["nodes"][j]["args"], val[2:]):
                        if b.kinds[a] == "stored":
                            stats["norm_consumed_readbacks"] += 1
                            if not (isinstance(got, tuple) and got[:2] == ("n", a)):
                                if "C09" in props:
                                    viol.append({"property": "C09", "what": f"call {j} received {ce.term(got)} for its stored dependency {a}: "
                                                 "not the value read back from the store", "step": desc})
            if ok:
                fs = from_scratch_norm(b)
                p3 = "C03" if "C03" in props else ("C09" if "C09" in props else None)
                for i in stored:
                    if p3 and b.stores[i].value != fs[i]:
                        viol.append({"property": p3, "what": f"after a successful run the normalising store {i} holds "
                                     f"{ce.term(b.stores[i].value) if b.stores[i].mtime else None}; from scratch, through the stores: {ce.term(fs[i])}",
                                     "step": desc})
                if out is not None and out and not isinstance(rr.value, (list, tuple)):
                    if p3:
                        viol.append({"property": p3, "what": f"run returned {rr.value!r} where the values of nodes {out} were requested", "step": desc})
                elif out is not None:
                    for k, o in enumerate(out):
                        if p3 and rr.value[k] != fs[o]:
                            viol.append({"property": p3, "what": f"run returned {ce.term(rr.value[k])} for node {o}; from scratch, through the "
                                         f"stores: {ce.term(fs[o])}", "step": desc})
        elif r < 0.8 and sources:
            i = rng.choice(sources)
            b.ver[i] = b.ver.get(i, 0) + 1
            b.stores[i].value, b.stores[i].mtime = ("s", i, b.ver[i]), env.tick()
            stats["norm_updates"] += 1
        elif stored:
            i = rng.choice(stored)
            b.stores[i].value, b.stores[i].mtime = None, None
        if len(viol) >= 3:
            break
    if driver is not None and lines:
        outs = driver.batch(lines)
        for ln, (want, desc), got in zip(lines, expect, outs):
            if not got.startswith(want):
                dis.append({"what": "execution model with normalising stores: values computed, read and stored by this run",
                            "request": ln, "model": got, "impl": want, "step": desc})
                break
    return viol, dis, stats


def explore_norm(ctx, n_hist, steps, props, salt=41):
    rng = random.Random(ctx.seed * 6151 + salt)
    viol, dis, tot = [], [], {}
    h = -1
    for h in range(n_hist):
        spec = gen_spec(rng, 8 if ctx.tier == "quick" else 11)
        hseed = rng.randrange(1 << 30)
        v, d, st = run_history(spec, hseed, steps, ctx.driver, props)
        for x in v:
            x["witness"] = {"kind": "norm", "spec": spec, "hseed": hseed, "steps": steps}
        for x in d:
            x["witness"] = {"kind": "norm", "spec": spec, "hseed": hseed, "steps": steps}
        for k, x in st.items():
            tot[k] = tot.get(k, 0) + x
        viol += v
        dis += d
        if len(viol) >= 3 or len(dis) >= 2:
            break
    tot["norm_histories"] = h + 1
    return {"violations": viol, "disagreements": dis, "coverage": tot}


def replay_norm(ctx, w, props):
    v, d, _ = run_history(w["spec"], w["hseed"], w["steps"], ctx.driver, props)
    if v:
        return v[0]["what"]
    if d:
        return "model/implementation disagreement: " + str({k: d[0][k] for k in ("what", "request", "model", "impl")})[:500]
    return None
