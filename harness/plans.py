"""Seeded generators of user-level plans (JSON-serialisable specs) and builders through the real uberjob API.

spec = {"nodes": [node...], "deps": [[src_id, dst_id]...]}
node = {"id": i, "kind": "call", "args": [ref...], "kwargs": [[name, ref]...], "scope": [...]}
     | {"id": i, "kind": "lit", "scope": [...]}
ref  = {"n": id}                       a symbolic node
     | {"v": json}                     a plain value
     | {"list"|"tuple"|"set": [ref...]} | {"dict": [[ref, ref]...]}     structures (gathered by Plan.call)
"""
from __future__ import annotations

import threading

import uberjob


class Rec:
    """Thread-safe event log shared by call functions, stores and observers."""

    def __init__(self):
        self.events = []
        self.lock = threading.Lock()

    def add(self, *ev):
        with self.lock:
            self.events.append(ev)


def _yield():
    from harness import coop
    s = coop.SCHED
    if s is not None and not s.aborting and hasattr(coop._tls, "ts"):
        s.yield_point()


class Failure(Exception):
    pass


class BaseFailure(BaseException):
    pass


class FalsyFailure(Exception):
    """an exception INSTANCE whose truth value is False (an aggregate error that is empty, say)"""

    def __bool__(self):
        return False


class Unprintable(Exception):
    """an exception that cannot be turned into text: `str()` and `repr()` of it raise (a broken `__str__` of a user's exception
    class; the failure is a failure all the same)"""

    def __str__(self):
        raise RuntimeError("this exception cannot be printed")

    __repr__ = __str__


class EmptyGroup(BaseException):
    def __len__(self):
        return 0


def NestedCallError(msg):
    """what a call raises when it runs a sub-plan with uberjob.run and that fails: a CallError (of the inner plan) with a
    cause of its own - the outer run must report THIS object as the cause, not look through it"""
    import uberjob
    inner = uberjob.Plan()
    e = uberjob.CallError(inner.call(len, msg))
    e.__cause__ = ValueError("inner: " + msg)
    return e


def CyclicCause(msg):
    """an exception whose `__cause__` chain is a CYCLE (`raise primary from fallback` where `fallback` was itself raised from
    `primary`): following the chain to its end never ends"""
    primary, fallback = ValueError("primary: " + msg), OSError("fallback: " + msg)
    primary.__cause__, fallback.__cause__ = fallback, primary
    return primary


EXC = {"CyclicCause": CyclicCause, "Unprintable": Unprintable, "NestedCallError": NestedCallError, "FalsyFailure": FalsyFailure, "EmptyGroup": EmptyGroup, "Failure": Failure, "BaseFailure": BaseFailure, "ValueError": ValueError, "KeyboardInterrupt": KeyboardInterrupt,
       "SystemExit": SystemExit}


def make_fn(i, rec, failing, raised):
    def fn(*args, **kwargs):
        rec.add("start", i)
        _yield()
        t = failing.get(i)
        if t is not None:
            e = EXC[t]("call %d" % i)
            raised.setdefault(i, []).append(e)
            rec.add("fail", i)
            raise e
        rec.add("end", i)
        return ("r", i, args, tuple(kwargs.items()))

    fn.__name__ = fn.__qualname__ = "f%d" % i
    return fn


def gen_spec(rng, nmax=8, p_lit=0.2, p_dep=0.25, p_kw=0.3, cyclic=False):
    n = rng.randint(1, nmax) if rng.random() < 0.2 else rng.randint(min(4, nmax), nmax)
    nodes = []
    for i in range(n):
        scope = [rng.choice(["a", "b", 1, 2])] if rng.random() < 0.3 else []
        if i > 0 and rng.random() < p_lit:
            nd_lit = {"id": i, "kind": "lit", "scope": scope}
            if rng.random() < 0.5:
                nd_lit["value"] = rng.choice([0, 1, 2, "x", None, True])      # the kind of constant calls also get as arguments
            nodes.append(nd_lit)
            continue
        args, kwargs = [], []
        for _ in range(rng.choice([0, 1, 1, 2, 3])):
            if i > 0 and rng.random() < 0.8:
                ref = {"n": rng.randrange(i)}
                if rng.random() < 0.25:
                    # a node inside a structure: the dependency is routed through gather calls
                    other = {"n": rng.randrange(i)} if rng.random() < 0.5 else {"v": rng.randrange(100)}
                    kind = rng.choice(["list", "tuple", "dict", "nested"])
                    if kind == "dict":
                        ref = {"dict": [[{"v": "k"}, ref], [{"v": "o"}, other]]}
                    elif kind == "nested":
                        ref = {"list": [{"tuple": [ref, other]}, {"v": 1}]}
                    else:
                        ref = {kind: [ref, other]}
            else:
                ref = {"v": rng.choice([0, 1, 2, "x", None, True]) if rng.random() < 0.4 else rng.randrange(100)}
            if rng.random() < p_kw:
                kwargs.append(["k%d" % len(kwargs), ref])
            else:
                args.append(ref)
        nodes.append({"id": i, "kind": "call", "args": args, "kwargs": kwargs, "scope": scope})
    deps = []
    for j in range(1, n):
        for i in range(j):
            if rng.random() < p_dep / max(1, j / 2):
                deps.append([i, j])
    rng.shuffle(deps)
    if cyclic and n >= 2:
        # a back edge j -> i (i < j) closes a cycle iff j is reachable from i; add forward chain first
        i = rng.randrange(n - 1)
        j = rng.randrange(i + 1, n)
        deps.append([i, j])
        deps.append([j, i])
    return {"nodes": nodes, "deps": deps}


def add_literal_cycle(rng, spec):
    """Close a dependency cycle that passes through a fresh, CONTRACTIBLE literal (one predecessor, one successor, plain
    dependencies only): x -> L -> x, or x -> L -> y -> x.  `_prune_literal_if_trivial` replaces L by pred x succ edges, so the
    cycle survives only as the self-loop x -> x (or as y -> x -> y) - it must still be reported.  Returns a node on the cycle."""
    calls = [nd["id"] for nd in spec["nodes"] if nd["kind"] == "call"]
    if not calls:
        return None
    x = rng.choice(calls)
    lit = len(spec["nodes"])
    spec["nodes"].append({"id": lit, "kind": "lit", "scope": []})
    others = [c for c in calls if c != x]
    if others and rng.random() < 0.5:
        y = rng.choice(others)
        spec["deps"] += [[x, lit], [lit, y], [y, x]]
    else:
        spec["deps"] += [[x, lit], [lit, x]]
    return x


def gen_hub_spec(rng):
    """A plan built around literal JUNCTIONS: a literal with m predecessors and n successors, all through plain dependency
    edges (the shape `_prune_literal_if_trivial` contracts when m*n <= m+n, and keeps otherwise), optionally two such
    literals in a row, with ordinary calls around them.  Every predecessor and successor is a call, so that the order the
    junction imposes is observable."""
    nodes, deps = [], []

    def call(args=()):
        i = len(nodes)
        nodes.append({"id": i, "kind": "call", "args": [{"n": a} for a in args], "kwargs": [], "scope": []})
        return i

    def lit():
        i = len(nodes)
        nodes.append({"id": i, "kind": "lit", "scope": []})
        return i

    roots = [call() for _ in range(rng.choice([0, 1, 2]))]
    m = rng.choice([1, 2, 2, 2, 3, 3])
    preds = [call([rng.choice(roots)] if roots and rng.random() < 0.5 else []) for _ in range(m)]
    hub = lit()
    deps += [[p, hub] for p in preds]
    last = hub
    if rng.random() < 0.35:                       # a second junction right behind the first
        extra = [call() for _ in range(rng.choice([0, 1, 2]))]
        hub2 = lit()
        deps.append([hub, hub2])
        deps += [[p, hub2] for p in extra]
        if rng.random() < 0.5:
            s0 = call()
            deps.append([hub, s0])
        last = hub2
    n = rng.choice([1, 1, 2, 2, 3])
    for _ in range(n):
        s = call([rng.choice(preds + roots)] if rng.random() < 0.3 else [])
        deps.append([last, s])
        if rng.random() < 0.3:
            call([s])
    rng.shuffle(deps)          # add_dependency calls happen in any order (e.g. out of a literal before into it)
    return {"nodes": nodes, "deps": deps}


def gen_litchain_spec(rng):
    """Dependencies chained through literals that are ALSO call arguments (so they are not contracted away):
    call a -dep-> L1 -dep-> L2 ... ; every literal is an argument of some call, so `b = f(L2)` depends on `a` through two
    literals.  Calls before and beside the chain keep the workers busy."""
    nodes, deps = [], []

    def call(args=()):
        i = len(nodes)
        nodes.append({"id": i, "kind": "call", "args": [{"n": a} for a in args], "kwargs": [], "scope": []})
        return i

    def lit():
        i = len(nodes)
        nodes.append({"id": i, "kind": "lit", "scope": []})
        return i

    heads = [call() for _ in range(rng.choice([1, 1, 2]))]
    k = rng.choice([2, 2, 3])
    prev = None
    for j in range(k):
        L = lit()
        for p in (heads if prev is None else [prev]):
            deps.append([p, L])
        if rng.random() < 0.8 or j == k - 1:
            call([L] + ([rng.choice(heads)] if rng.random() < 0.2 else []))
        prev = L
    for _ in range(rng.choice([0, 1])):
        call()
    rng.shuffle(deps)
    return {"nodes": nodes, "deps": deps}


def build(spec, rec, failing=None):
    """Returns (plan, {id: Node}, raised) built through Plan.call / Plan.lit / Plan.add_dependency."""
    failing = failing or {}
    raised = {}
    plan = uberjob.Plan()
    N = {}

    def val(ref):
        if "n" in ref:
            return N[ref["n"]]
        if "v" in ref:
            return ref["v"]
        if "list" in ref:
            return [val(r) for r in ref["list"]]
        if "tuple" in ref:
            return tuple(val(r) for r in ref["tuple"])
        if "set" in ref:
            return {val(r) for r in ref["set"]}
        if "dict" in ref:
            return {val(k): val(v) for k, v in ref["dict"]}
        raise ValueError(ref)

    for nd in spec["nodes"]:
        i = nd["id"]
        with plan.scope(*nd.get("scope", [])):
            if nd["kind"] == "lit":
                N[i] = plan.lit(nd["value"] if "value" in nd else ("lit", i))
            else:
                fn = make_fn(i, rec, failing, raised)
                N[i] = plan.call(fn, *[val(r) for r in nd["args"]], **{k: val(r) for k, r in nd["kwargs"]})
    for a, b in spec["deps"]:
        plan.add_dependency(N[a], N[b])
    return plan, N, raised


def user_graph(spec):
    """Dependency relation among the ids of the spec (argument edges incl. through structures, and dep edges)."""
    import networkx as nx
    g = nx.DiGraph()
    for nd in spec["nodes"]:
        g.add_node(nd["id"])

    def refs(ref):
        if "n" in ref:
            yield ref["n"]
        for k in ("list", "tuple", "set"):
            if k in ref:
                for r in ref[k]:
                    yield from refs(r)
        if "dict" in ref:
            for a, b in ref["dict"]:
                yield from refs(a)
                yield from refs(b)

    for nd in spec["nodes"]:
        if nd["kind"] == "call":
            for r in nd["args"]:
                for s in refs(r):
                    g.add_edge(s, nd["id"])
            for _, r in nd["kwargs"]:
                for s in refs(r):
                    g.add_edge(s, nd["id"])
    for a, b in spec["deps"]:
        g.add_edge(a, b)
    return g
