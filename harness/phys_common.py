"""Shared by harness/props/c09.py and c14.py: generated (plan, registry) pairs with free creation / registration order,
normalising in-memory stores, the canonical text of a real physical plan (nodes named by role) and the request line
for the Lean model of the physical plan (driver command `phys`, lean/UberjobModel/Model/PhysDrv.lean).

spec = {"nodes": [node...], "ops": [["mk", i] | ["reg", i] ...], "deps": [[src, dst]...]}
node = {"id", "kind": source|dsource|stored|call|producer|lit|token|storedlit, "args": [ids], "kwargs": [[name, id]...],
        "deps": [ids], "writes": id?}
ids are a topological numbering (every edge goes from a smaller to a larger id); `ops` is the order in which the nodes
are created through the API and in which `registry.add` is called (sources are registered when they are created);
`deps` is the order of the add_dependency calls.
"""
from __future__ import annotations

import copy

import networkx as nx

import uberjob
from harness import cache_explore as ce
from uberjob._transformations import caching
from uberjob._transformations.pruning import prune_source_literals
from uberjob.graph import Call, KeywordArg, Literal, PositionalArg

CALLS = ("stored", "call", "producer")
LITS = ("lit", "token", "storedlit")
SOURCES = ("source", "dsource")
REGISTERED = ("source", "dsource", "stored", "storedlit")


# ------------------------------------------------------------------------------------------- generation
def gen_phys_spec(rng, nmax=9, private=False):
    """`private`: producers and their ordering tokens are consumed by nothing but their dependent source (then the
    outcome of a run does not depend on the schedule)."""
    base = ce.gen_cache_spec(rng, nmax=nmax)
    nodes = copy.deepcopy(base["nodes"])
    for nd in nodes:
        i, k = nd["id"], nd["kind"]
        nd["kwargs"] = []
        if k in CALLS and nd["args"] and rng.random() < 0.3:
            cut = rng.randint(0, len(nd["args"]) - 1)
            kw = nd["args"][cut:]
            nd["args"] = nd["args"][:cut]
            nd["kwargs"] = [["k%d" % j, a] for j, a in enumerate(kw)]
        if k in SOURCES and i > 0 and rng.random() < 0.45:
            # a source that merely depends on earlier nodes of ANY kind (stored calls, other sources, literals ...)
            pool = [j for j in range(i) if not (private and nodes[j]["kind"] in ("producer", "token"))]
            extra = rng.sample(pool, min(len(pool), rng.choice([1, 1, 2, 3])))
            nd["deps"] = sorted(set(nd["deps"]) | set(extra))
        if k == "lit" and rng.random() < 0.3:
            nd["kind"] = "storedlit"
    # plain dependencies OUT of sources and literals (so that Barriers / literals with several predecessors and
    # successors exist: `_prune_literal_if_trivial` keeps those with m * n > m + n)
    n = len(nodes)
    for nd in nodes:
        i = nd["id"]
        if nd["kind"] in SOURCES + (("lit",) if private else ("lit", "token")) and i + 1 < n and rng.random() < 0.4:
            for j in rng.sample(range(i + 1, n), min(n - i - 1, rng.choice([1, 2, 3]))):
                tgt = nodes[j]
                if i not in tgt["args"] and i not in [a for _, a in tgt["kwargs"]] and i not in tgt["deps"]:
                    tgt["deps"] = sorted(tgt["deps"] + [i])
    # sometimes a "hub": a source with several plain predecessors and several plain dependents (its Barrier survives
    # `_prune_literal_if_trivial` when it is out of date)
    hubs = [nd for nd in nodes if nd["kind"] in SOURCES and 2 <= nd["id"] <= n - 3]
    if hubs and rng.random() < 0.3:
        z = rng.choice(hubs)
        i = z["id"]
        pool = [j for j in range(i) if not (private and nodes[j]["kind"] in ("producer", "token"))]
        z["deps"] = sorted(set(z["deps"]) | set(rng.sample(pool, min(len(pool), rng.choice([2, 2, 3])))))
        for j in rng.sample(range(i + 1, n), 2):
            tgt = nodes[j]
            if i not in tgt["args"] and i not in [a for _, a in tgt["kwargs"]] and i not in tgt["deps"]:
                tgt["deps"] = sorted(tgt["deps"] + [i])
    argsof = {nd["id"]: set(nd["args"]) | {a for _, a in nd["kwargs"]} for nd in nodes}
    remaining = [nd["id"] for nd in nodes]
    created, order = set(), []
    while remaining:
        ready = [i for i in remaining if argsof[i] <= created]
        i = ready[0] if rng.random() < 0.55 else rng.choice(ready)
        remaining.remove(i)
        created.add(i)
        order.append(i)
    ops = [["mk", i] for i in order]
    late = [nd["id"] for nd in nodes if nd["kind"] in ("stored", "storedlit")]
    rng.shuffle(late)
    for i in late:
        p = ops.index(["mk", i]) + 1
        if rng.random() < 0.5:
            p = rng.randint(p, len(ops))
        ops.insert(p, ["reg", i])
    deps = [[d, nd["id"]] for nd in nodes for d in nd["deps"]]
    rng.shuffle(deps)
    return {"nodes": nodes, "ops": ops, "deps": deps}


def gen_outspec(rng, spec, private=False):
    ids = [nd["id"] for nd in spec["nodes"] if not (private and nd["kind"] in ("producer", "token"))]

    def leaf():
        if rng.random() < 0.85:
            return {"n": rng.choice(ids)}
        return {"v": rng.randrange(50)}

    r = rng.random()
    if r < 0.12:
        return None
    if r < 0.5:
        return {"n": rng.choice(ids)}
    if r < 0.53:
        return {"v": 7}
    if r < 0.75:
        return {"list": [leaf() for _ in range(rng.choice([0, 1, 2, 3]))]}
    if r < 0.85:
        return {"tuple": [leaf(), {"list": [leaf() for _ in range(rng.choice([1, 2]))]}]}
    if r < 0.95:
        return {"dict": [[{"v": "x"}, leaf()], [{"v": "y"}, {"tuple": [leaf(), leaf()]}]]}
    return {"list": [{"n": i} for i in ids]}


# ------------------------------------------------------------------------------------------- building
class NormStore(ce.MemStore):
    """In-memory store on the logical clock whose `read` returns something distinguishable from what was written."""

    def read(self):
        v = super().read()
        self.env.rec.add("readval", self.key, v)
        return ("norm", self.key, v)


class FalsyNormStore(NormStore):
    """as `cache_explore.FalsyStore`: a store object whose truth value is False"""

    def __len__(self):
        return 0


def store_for(i, env):
    return (FalsyNormStore if i % 3 == 1 else NormStore)(i, env)


def build_phys(spec, env):
    b = ce.Built()
    b.plan = uberjob.Plan()
    b.reg = uberjob.Registry()
    b.N, b.stores, b.ver = {}, {}, {}
    b.failing = set()
    b.payload = {}
    b.received, b.returned = {}, {}
    nodes = {nd["id"]: nd for nd in spec["nodes"]}
    b.kinds = {i: nd["kind"] for i, nd in nodes.items()}
    b.spec = spec

    def mkfn(i, writes=None):
        def fn(*args, **kwargs):
            env.event("call", i)
            if i in b.failing:
                raise ce.Cut("call %d fails" % i)
            val = ("a", i) + tuple(args) + tuple(("kw", k, v) for k, v in kwargs.items())
            b.received[i] = (tuple(args), dict(kwargs))
            b.returned[i] = val
            if writes is not None:
                b.ver[writes] = b.ver.get(writes, 0) + 1
                st = b.stores[writes]
                st.value, st.mtime = ("s", writes, b.ver[writes]), env.tick()
                env.rec.add("write", writes, st.value, st.mtime)
                env.event("produced", writes)
            env.rec.add("ret", i)
            return val
        fn.__name__ = fn.__qualname__ = "f%d" % i
        return fn

    for op, i in spec["ops"]:
        nd = nodes[i]
        k = nd["kind"]
        if op == "reg":
            b.stores[i] = store_for(i, env)
            b.reg.add(b.N[i], b.stores[i])
        elif k in SOURCES:
            b.stores[i] = store_for(i, env)
            b.N[i] = b.reg.source(b.plan, b.stores[i])
        elif k in LITS:
            b.N[i] = b.plan.lit(("l", i))
        else:
            b.N[i] = b.plan.call(mkfn(i, nd.get("writes")), *[b.N[a] for a in nd["args"]],
                                 **{name: b.N[a] for name, a in nd["kwargs"]})
    for d, i in spec["deps"]:
        b.plan.add_dependency(b.N[d], b.N[i])
    b.inv = {id(n): i for i, n in b.N.items()}
    b.graph = nx.DiGraph()
    for nd in spec["nodes"]:
        b.graph.add_node(nd["id"])
        for p in nd["args"] + [a for _, a in nd["kwargs"]] + nd["deps"]:
            b.graph.add_edge(p, nd["id"])
    return b


def mk_output(b, o):
    if o is None:
        return None
    if "n" in o:
        return b.N[o["n"]]
    if "v" in o:
        return o["v"]
    if "list" in o:
        return [mk_output(b, x) for x in o["list"]]
    if "tuple" in o:
        return tuple(mk_output(b, x) for x in o["tuple"])
    if "dict" in o:
        return {mk_output(b, k): mk_output(b, v) for k, v in o["dict"]}
    raise ValueError(o)


def snapshot(b):
    return {i: (s.value, s.mtime) for i, s in sorted(b.stores.items())}


def restore(b, snap, env=None):
    for i, (v, t) in snap.items():
        b.stores[i].value, b.stores[i].mtime = v, t


# ------------------------------------------------------------------------------------------- canonical text
def key_str(k):
    t = type(k)
    if t is PositionalArg:
        return "p%d" % k.index
    if t is KeywordArg:
        return "k%d=%s" % (k.index, k.name)
    return "d"


def logical_input(b, outobj):
    """The logical plan `run` works on (the user's plan plus the output gather), read off the REAL objects:
    returns (names {id(node): logical id}, nodes line, edges line, out token, extras [(node, id)])."""
    p2 = b.plan.copy()
    o2 = p2._gather(None, outobj) if outobj is not None else None
    names = dict(b.inv)
    extras = [n for n in p2.graph.nodes() if id(n) not in names]
    # topological ids for the gather nodes (a gather call is inserted BEFORE its children)
    sub = nx.DiGraph()
    sub.add_nodes_from(range(len(extras)))
    pos = {id(n): k for k, n in enumerate(extras)}
    for u, v in p2.graph.edges():
        if id(u) in pos and id(v) in pos:
            sub.add_edge(pos[id(u)], pos[id(v)])
    n0 = max(names.values()) + 1
    for rank, k in enumerate(nx.lexicographical_topological_sort(sub)):
        names[id(extras[k])] = n0 + rank
    nodes = " ".join("%d:%s" % (names[id(n)], "l" if type(n) is Literal else "c") for n in p2.graph.nodes())
    es = []
    for u, v, k in p2.graph.edges(keys=True):
        if not names[id(u)] < names[id(v)]:
            raise AssertionError("ids are not a topological numbering")
        es.append("%d>%d:%s" % (names[id(u)], names[id(v)], key_str(k)))
    out = "-" if o2 is None else str(names[id(o2)])
    return names, nodes, " ".join(es), out, [(n, names[id(n)]) for n in extras]


def registry_line(b):
    return " ".join("%d:%s" % (b.inv[id(n)], "S" if rv.is_source else "N") for n, rv in b.reg.mapping.items())


def phys_line(stage, b, outobj, stale):
    names, nodes, edges, out, extras = logical_input(b, outobj)
    reg = set(b.stores)
    line = "phys %s | %s | %s | %s | %s | %s" % (stage, nodes, edges, registry_line(b),
                                                " ".join(str(i) for i in sorted(stale) if i in reg), out)
    return line, extras


class RealGraph:
    """A real physical plan with its nodes named by role.  Store literals, read and write calls are recognised by what
    they are; the output-gather nodes by their position (they are the only other new nodes); Barrier literals carry
    nothing that identifies their source once their neighbourhood has been pruned, so they are named by ORDER: they
    appear in registry order, hence form a subsequence of the out-of-date sources in registry order
    (`barrier_candidates`); `texts()` enumerates the canonical text under every such naming."""

    def __init__(self, b, P, o, extras, stale, sink=None):
        g = P.graph
        self.g, self.o = g, o
        name, unknown, self.barriers, self.problems = {}, [], [], []
        for n in g.nodes():
            if sink is not None and n is sink:
                name[id(n)] = "sink"
            elif id(n) in b.inv:
                name[id(n)] = "o%d" % b.inv[id(n)]
            elif type(n) is Literal and isinstance(n.value, ce.MemStore):
                name[id(n)] = "s%s" % n.value.key
            elif type(n) is Literal and n.value is caching.Barrier:
                self.barriers.append(n)
            elif type(n) is Call and n.fn in (NormStore.read, NormStore.write, ce.MemStore.read, ce.MemStore.write):
                st = None
                for u, _, k in g.in_edges(n, keys=True):
                    if type(k) is PositionalArg and k.index == 0 and type(u) is Literal and isinstance(u.value, ce.MemStore):
                        st = u.value
                if st is None:
                    self.problems.append("store call without its store literal: %r" % (n,))
                    name[id(n)] = "?call"
                else:
                    name[id(n)] = ("r%s" if n.fn is type(st).read else "w%s") % st.key
            else:
                unknown.append(n)
        if len(unknown) != len(extras):
            self.problems.append("unexpected nodes in the physical plan: %r" % (unknown[:4],))
        for n, (x, xid) in zip(unknown, extras):
            if type(n) is not type(x) or (type(n) is Call and n.fn is not x.fn) or (type(n) is Literal and n.value != x.value):
                self.problems.append("gather node mismatch: %r vs %r" % (n, x))
            name[id(n)] = "o%d" % xid
        for n in unknown[len(extras):]:
            name[id(n)] = "?%r" % (n,)
        self.name = name
        self.barrier_candidates = [b.inv[id(n)] for n, rv in b.reg.mapping.items()
                                   if rv.is_source and b.inv[id(n)] in stale]

    def text(self, assign, view=None):
        name = dict(self.name)
        for n, i in zip(self.barriers, assign):
            name[id(n)] = "b%s" % i
        g = self.g if view is None else view.graph
        edges = sorted("%s>%s:%s" % (name[id(u)], name[id(v)], key_str(k)) for u, v, k in g.edges(keys=True))
        out = "-" if self.o is None else name.get(id(self.o), "?out")
        return "nodes %s | edges %s | out %s" % (" ".join(name[id(n)] for n in g.nodes()), " ".join(edges), out)

    def namings(self):
        import itertools
        k = len(self.barriers)
        if k > len(self.barrier_candidates):
            return [["?%d" % j for j in range(k)]]
        return list(itertools.combinations(self.barrier_candidates, k))

    def matches(self, model_text, view=None, model_view_text=None):
        """None if some admissible naming of the Barriers gives exactly the model's text (and, under the SAME naming,
        the model's text for the sub-plan `view` of this plan), else the closest real text."""
        want = norm_reply(model_text)
        first = None
        for a in self.namings():
            t = norm_reply(self.text(a))
            if view is not None:
                t2 = norm_reply(self.text(a, view))
            if first is None:
                first = t if (view is None or t != want) else t2
            if t == want and (view is None or t2 == norm_reply(model_view_text)):
                return None
        return first if first is not None else "<no admissible naming>"


def norm_reply(s):
    return " ".join(s.split())


def engine_view(P):
    """What run_physical hands to the engine: the dry-run plan minus its source literals (on a copy)."""
    return prune_source_literals(P, inplace=False)


class LocalDriver:
    """A private copy of the driver executable for the duration of one exploration: other builders may relink
    lean/.lake/build/bin/driver at any moment, and these explorations start the driver once per history."""

    def __init__(self, driver):
        import atexit
        import os
        import shutil
        import tempfile
        import time
        from harness import common
        self.path = None
        for _ in range(60):
            try:
                fd, path = tempfile.mkstemp(prefix="verif-driver-")
                os.close(fd)
                shutil.copy2(common.DRIVER, path)
                os.chmod(path, 0o755)
                self.path = path
                break
            except OSError:
                try:
                    os.remove(path)
                except OSError:
                    pass
                time.sleep(1.0)
        if self.path is None:
            raise common.Broken("build", "driver", "driver executable missing")
        atexit.register(self.close)

    def close(self):
        import os
        if self.path:
            try:
                os.remove(self.path)
            except OSError:
                pass
            self.path = None

    def batch(self, lines):
        import subprocess
        from harness import common
        r = subprocess.run([self.path], input="\n".join(lines) + "\n", capture_output=True, text=True, timeout=600)
        out = r.stdout.splitlines()
        if len(out) != len(lines):
            raise common.Broken("correspondence", "driver-protocol", f"{len(lines)} requests, {len(out)} replies; stderr={r.stderr[:300]}")
        return out


def local_driver(driver):
    return None if driver is None else LocalDriver(driver)
