"""T3 exploration of the real engine: generated DAGs x configurations x controlled schedules.

Every primitive-level trace is replayed through the Lean model (`Driver`), label by label with state snapshots;
every run (primitive- or opcode-level) is also judged by direct monitors of C01/C04/C06/C07/C10/C17."""
from __future__ import annotations

import random

import networkx as nx

from harness import coop
from harness.common import Broken

import uberjob._execution.run_function_on_graph as eng


class Boom(BaseException):
    """A BaseException subclass that is not an Exception (like KeyboardInterrupt/SystemExit)."""


class Unprintable(Exception):
    """`str()` and `repr()` of it raise"""

    def __str__(self):
        raise RuntimeError("this exception cannot be printed")

    __repr__ = __str__


EXC_TYPES = [ValueError, KeyError, Boom, KeyboardInterrupt, SystemExit, Unprintable]


def gen_graph(rng, n, p_edge=0.35, p_par=0.15):
    g = nx.MultiDiGraph()
    names = list(range(n))
    rng.shuffle(names)          # insertion order differs from the topological one
    order = list(range(n))
    for x in names:
        g.add_node(x)
    for j in range(n):
        for i in range(j):
            if rng.random() < p_edge:
                g.add_edge(order[i], order[j], key=0)
                if rng.random() < p_par:
                    g.add_edge(order[i], order[j], key=1)
    return g


TEMPLATES = [
    # (nodes in insertion order, edges): shapes in which a lost/duplicated enqueue becomes observable downstream
    ([0, 1, 2, 3, 4], [(0, 2), (1, 2), (2, 4), (3, 4)]),                    # A,B -> C ; C,E -> D
    ([0, 1, 2, 3, 4, 5], [(0, 3), (1, 3), (2, 3), (3, 5), (4, 5)]),          # three parents, then a join with a straggler
    ([0, 1, 2, 3], [(0, 2), (1, 2), (0, 3), (1, 3), (2, 3)]),               # criss-cross
    ([0, 1, 2, 3, 4, 5, 6], [(0, 1), (0, 2), (1, 3), (2, 3), (3, 6), (0, 4), (4, 5), (5, 6)]),  # diamond + long arm
    # narrow, then wide: while the chain runs most workers have nothing to do; then more calls than workers are ready at once
    ([0, 1, 2, 3, 4, 5, 6, 7], [(0, 1), (1, 2), (2, 3), (2, 4), (2, 5), (2, 6), (2, 7)]),
]


def gen_template_case(rng):
    nodes, edges = rng.choice(TEMPLATES)
    n = len(nodes)
    return {"n": n, "edges": list(edges), "nodes": list(nodes), "workers": rng.choice([2, 3, 4, n]),
            "max_errors": rng.choice([0, None]), "scheduler": rng.choice(["default", "random", "cheap"]), "failing": {}}


def gen_case(rng, tier):
    nmax = 8 if tier == "quick" else 14
    n = rng.randint(1, nmax)
    g = gen_graph(rng, n, p_edge=rng.choice([0.2, 0.35, 0.6]))
    w = rng.choice([1, 2, 3, n + 2])
    me = rng.choice([0, 0, 1, 2, None])
    sched = rng.choice(["default", "random", "cheap"])
    nf = rng.choice([0, 0, 1, 2, 3])
    failing = {x: rng.choice(EXC_TYPES) for x in rng.sample(list(g.nodes()), min(nf, n))}
    return {"n": n, "edges": [(u, v) for u, v, _ in g.edges(keys=True)], "nodes": list(g.nodes()), "workers": w,
            "max_errors": me, "scheduler": sched, "failing": {x: t.__name__ for x, t in failing.items()}}


def build_graph(case):
    g = nx.MultiDiGraph()
    for x in case["nodes"]:
        g.add_node(x)
    seen = {}
    for u, v in case["edges"]:
        k = seen.get((u, v), 0)
        seen[(u, v)] = k + 1
        g.add_edge(u, v, key=k)
    return g


_WARM = set()


def _warm(mode):
    """The first traced run in a process takes extra steps (lazy imports, caches): do one throw-away run per mode so that
    a (case, seed) pair denotes the same schedule in the exploring process and in a replaying one."""
    if mode in _WARM:
        return
    _WARM.add(mode)
    for sched in ("default", "random", "cheap"):
        c = {"n": 3, "edges": [(0, 2), (1, 2)], "nodes": [0, 1, 2], "workers": 2, "max_errors": 0, "scheduler": sched,
             "failing": {1: "ValueError"}}
        run_case(c, 1, mode=mode)


def run_case(case, seed, mode="prim", interrupt_at=None, op_switch_p=0.05):
    _warm(mode)
    g = build_graph(case)
    types = {t.__name__: t for t in EXC_TYPES}
    raised = {}

    def fn(node):
        t = case["failing"].get(node)
        if t is None:
            t = case["failing"].get(str(node))
        if t is not None:
            e = types[t]("node %r" % (node,))
            raised.setdefault(node, []).append(e)
            raise e

    r = coop.run_controlled(
        lambda: eng.run_function_on_graph(g, fn, worker_count=case["workers"], max_errors=case["max_errors"],
                                          scheduler=case["scheduler"]),
        seed, mode=mode, interrupt_at=interrupt_at, op_switch_p=op_switch_p)
    r.raised = raised
    r.graph = g
    return r


def driver_lines(tr):
    me = "none" if tr.max_errors is None else str(tr.max_errors)
    w = eng.coerce_worker_count(tr.worker_count)
    lines = ["engine %d %s | %s | %s" % (w, me, " ".join(map(str, range(len(tr.nodes)))),
                                        " ".join("%d,%d" % e for e in tr.edges))]
    for lab, _ in tr.labels:
        lines.append("ev " + lab)
        lines.append("snap")
    return lines


def validate_trace(driver, tr):
    """Replay one engine trace through the model.  Returns None or a disagreement dict."""
    if getattr(tr, "off_model", None):
        return {"layer": "engine", "at": 0, "label": "-", "model": "no such step", "what": tr.off_model}
    if not tr.labels and tr.outcome is not None and tr.outcome[0] == "raise":
        return None        # the engine refused its arguments before doing anything: nothing to replay
    lines = driver_lines(tr)
    out = driver.batch(lines)
    if out[0] != "ok":
        return {"layer": "engine", "at": 0, "label": lines[0], "model": out[0]}
    for i, (lab, snap) in enumerate(tr.labels):
        a, b = out[1 + 2 * i], out[2 + 2 * i]
        if a != "ok":
            return {"layer": "engine", "at": i, "label": lab, "model": a, "prefix": [l for l, _ in tr.labels[:i + 1]][-12:]}
        if snap is not None:
            ms = parse_state(b)
            diff = {k: (v, ms.get(k)) for k, v in snap.items() if ms.get(k) != v}
            if diff:
                return {"layer": "engine", "at": i, "label": lab, "differs(impl,model)": diff, "model_state": b,
                        "prefix": [l for l, _ in tr.labels[:i + 1]][-12:]}
    return None


def fine_labels(tr):
    """The labels of the FINE model (Model/EngineFine.lean) this run corresponds to: the real acquisitions and releases of
    remaining_pred_count_lock are in `tr.fine`; the decrement, the test and the put of the block happened, in the real run,
    without a switch in between (scheduling at primitives), at the moment the coarse `release` label of a multi-parent
    successor was emitted — other threads' labels between the acquisition and that moment, and between it and the release of
    the lock, are where they really happened."""
    out, holder = [], {}
    for lab in tr.fine:
        t = lab.split()
        if t[0] == "acq":
            holder[t[1]] = t[2]
            out.append("acq %s %s" % (t[1], t[2]))
        elif t[0] == "unl":
            holder.pop(t[1], None)
            out.append("unl %s" % t[1])
        elif t[0] == "release" and t[1] in holder:
            out += ["dec %s" % t[1], "test %s" % t[1], "put %s" % t[1]]
        elif t[0] in ("facq", "funl"):
            out.append(lab)
        elif t[0] == "finFail":
            # the label is emitted when failure_lock is released: count, first error and stop happened since `facq`
            out += ["fcount %s" % t[1], "ffirst %s" % t[1], "fstop %s" % t[1]]
        else:
            out.append("b " + lab)
    return out


def fine_interleaved(tr):
    """number of lock blocks of this run during which another thread took a step of its own"""
    n, open_, dirty = 0, {}, set()
    for lab in fine_labels(tr):
        t = lab.split()
        if t[0] == "acq":
            open_[t[1]] = True
        elif t[0] == "unl":
            if t[1] in dirty:
                n += 1
            dirty.discard(t[1])
            open_.pop(t[1], None)
        elif t[0] in ("b", "facq", "funl", "fcount", "ffirst", "fstop"):
            who = t[2] if t[0] == "b" and len(t) >= 3 else (t[1] if t[0] != "b" else None)
            for w in open_:
                if who != w:
                    dirty.add(w)
    return n


def wake_labels(tr):
    """The labels of the WAKE-UP model (Model/EngineQ.lean) this run corresponds to: who went to sleep in
    `not_empty.wait()` / `all_tasks_done.wait()` and whom each `put`'s `notify()` really woke are in `tr.wake`."""
    out = []
    for kind, v, rest in tr.wake:
        if kind == "put":
            out.append("put %s %s" % ("-" if v is None else v, rest))
        elif kind in ("joinTake", "joinSleep", "interrupt"):
            out.append(kind)
        else:
            out.append("%s %s" % (kind, rest))
    return out


def validate_wake(driver, tr):
    """Replay the run through the wake-up model's `stepQ?`: every label must be enabled (in particular: a thread the model
    has asleep never acts, a `put` wakes a sleeper exactly when the model says `notify()` does), nobody is asleep at the end,
    and the final state shows the same lists as the coarse replay."""
    me = "none" if tr.max_errors is None else str(tr.max_errors)
    w = eng.coerce_worker_count(tr.worker_count)
    labs = wake_labels(tr)
    line = "wake %d %s | %s | %s | %s" % (w, me, " ".join(map(str, range(len(tr.nodes)))),
                                         " ".join("%d,%d" % e for e in tr.edges), " ; ".join(labs))
    out = driver.batch([line])[0]
    if not out.startswith("ok "):
        return {"layer": "engine-wake", "model": out[:300], "labels": labs[-14:]}
    coarse = parse_state(final_model_state(driver, tr))
    q = parse_state(out)
    diff = {k: (coarse.get(k), q.get(k)) for k in ("begun", "okd", "failed", "skipped", "q", "unf", "stop", "errs") if coarse.get(k) != q.get(k)}
    if diff:
        return {"layer": "engine-wake", "differs(coarse,wake)": diff}
    if tr.outcome is not None and ("sleep=[]" not in out or "woken=[]" not in out):
        return {"layer": "engine-wake", "somebody asleep after the run returned": out[-80:]}
    return None


def validate_fine(driver, tr):
    """Replay the run through the fine model's `step2?`: every label must be enabled, and the final state must show the same
    begun / completed / failed lists as the coarse replay."""
    me = "none" if tr.max_errors is None else str(tr.max_errors)
    w = eng.coerce_worker_count(tr.worker_count)
    labs = fine_labels(tr)
    line = "fine %d %s | %s | %s | %s" % (w, me, " ".join(map(str, range(len(tr.nodes)))),
                                         " ".join("%d,%d" % e for e in tr.edges), " ; ".join(labs))
    out = driver.batch([line])[0]
    if not out.startswith("ok "):
        return {"layer": "engine-fine", "model": out[:300], "labels": labs[-14:]}
    coarse = parse_state(final_model_state(driver, tr))
    fine = parse_state(out)
    diff = {k: (coarse.get(k), fine.get(k)) for k in ("begun", "okd", "failed", "skipped", "q", "unf", "stop", "errs") if coarse.get(k) != fine.get(k)}
    if diff:
        return {"layer": "engine-fine", "differs(coarse,fine)": diff}
    return None


def parse_state(line):
    import re
    return {m.group(1): m.group(2) for m in re.finditer(r"(\w+)=(\[[^\]]*\]|\S+)", line)}


def final_model_state(driver, tr):
    out = driver.batch(driver_lines(tr))
    return out[-1]


# ---------------------------------------------------------------------------------------------
# monitors: direct executable statements of the properties on the observed behaviour
# ---------------------------------------------------------------------------------------------

def monitor(case, r, interrupted=False):
    """Returns [(property, what)] for one run of run_function_on_graph."""
    v = []
    if not r.traces:
        return v
    tr = r.traces[0]
    g = r.graph
    ids = tr.ids
    rev = {i: n for n, i in ids.items()}
    ended_ok, failed, begun, running = set(), set(), [], set()
    maxrun = 0
    first_failed = None
    for ev in tr.events:
        if ev[0] == "begin":
            x = ev[2]
            n = rev[x]
            for p in nx.ancestors(g, n):
                if ids[p] not in ended_ok:
                    v.append(("C01", f"node {n!r} began before its dependency {p!r} finished successfully"))
                    break
            for p in nx.ancestors(g, n):
                if ids[p] in failed:
                    v.append(("C06", f"node {n!r} began although its dependency {p!r} had failed"))
                    break
            begun.append(x)
            running.add(x)
            maxrun = max(maxrun, len(running))
        elif ev[0] == "endok":
            ended_ok.add(ev[2])
            running.discard(ev[2])
        elif ev[0] == "endfail":
            failed.add(ev[2])
            if first_failed is None:
                first_failed = ev[2]
            running.discard(ev[2])
    if len(set(begun)) != len(begun):
        dup = sorted({rev[x] for x in begun if begun.count(x) > 1}, key=str)
        v.append(("C04", f"nodes executed more than once: {dup}"))
    w = eng.coerce_worker_count(case["workers"])
    if maxrun > w:
        v.append(("C10", f"{maxrun} calls ran concurrently with worker_count={w}"))
    # the pool never shrinks while there is work for it: at the start of a call, if at least `w` calls are ready (executing or
    # queued) there are `w` live workers to run them in parallel
    if r.sched.mode == "prim" and not (r.deadlock or r.hang):
        exits, run_now, li = 0, 0, 0
        snaps = [sn for _, sn in tr.labels]
        last_q = 0
        for t in tr.timeline:
            if t.startswith("L:"):
                lab = t[2:]
                sn = snaps[li] if li < len(snaps) else None
                li += 1
                if sn and "q" in sn:
                    last_q = sum(1 for x in sn["q"].strip("[]").split() if x != "D")
                if lab in ("setStop", "interrupt"):
                    break                  # the run is being wound up: workers are meant to go
                if lab.startswith("finOk ") or lab.startswith("finFail "):
                    run_now -= 1
            elif t.startswith("exit "):
                exits += 1
            elif t.startswith("begin "):
                run_now += 1
                if exits > 0 and run_now + last_q >= w:
                    v.append(("C10", f"{run_now + last_q} calls are ready ({run_now} executing, {last_q} queued) but {exits} of the "
                              f"{w} worker threads have already ended: fewer than max_workers calls can run in parallel"))
                    break
    if r.deadlock or r.hang:
        v.append(("C07", "run did not terminate: " + ("no thread can make progress (deadlock)" if r.deadlock else "step limit exceeded")))
        return v
    if r.leaked:
        v.append(("C07", f"threads still alive after run returned: {r.leaked}"))
    if r.died:
        v.append(("C07", f"worker thread died with {r.died!r}"))
    if running:
        v.append(("C07", f"calls still executing when run returned: {sorted(running)}"))
    exc = r.exc
    if interrupted:
        if not isinstance(exc, KeyboardInterrupt):
            v.append(("C17", f"KeyboardInterrupt did not propagate (got {exc!r})"))
        # after the coordinator's `stop = True` (label setStop, placed right after that assignment) no call may start.
        # (primitive-level scheduling only: there the read of `stop` and the call of fn are one atomic stretch)
        if r.sched.mode == "prim":
            tl = tr.timeline
            cut = next((i for i, t in enumerate(tl) if t in ("L:setStop", "L:putDone")), None)
            if cut is not None:
                late = [t for t in tl[cut + 1:] if t.startswith("begin ")]
                if late:
                    v.append(("C17", f"calls started after the interrupt had been handled (stop set, sentinels queued): {late[:4]}"))
        return v
    if failed:
        if not isinstance(exc, eng.NodeError):
            v.append(("C06", f"calls failed but run raised {exc!r} instead of NodeError"))
            if exc is None and set(begun) != set(range(len(tr.nodes))):
                missing = sorted(set(range(len(tr.nodes))) - set(begun))
                v.append(("C04", f"run returned normally (as a success) without executing nodes {[rev[i] for i in missing]} "
                          f"(nodes {[rev[i] for i in sorted(failed)]} had raised)"))
        else:
            n = exc.node
            if n not in ids or ids[n] not in failed:
                v.append(("C06", f"the raised error names node {n!r}, which did not fail"))
            elif exc.__cause__ not in r.raised.get(n, []):
                v.append(("C06", f"the raised error's __cause__ is not the exception raised by node {n!r}"))
            elif w == 1 and ids[n] != first_failed:
                v.append(("C06", f"single worker: error names {n!r} but the first failure was {rev[first_failed]!r}"))
        k = case["max_errors"]
        if k is not None and len(failed) > k + w:
            v.append(("C10", f"{len(failed)} calls failed with max_errors={k}, workers={w}"))
        fset = set(case["failing"])
        E = [n for n in g.nodes() if (n in fset or str(n) in fset) and not any((p in fset or str(p) in fset) for p in nx.ancestors(g, n))]
        if k is not None and w == 1 and len(failed) != min(k + 1, len(E)):
            v.append(("C10", f"single worker, max_errors={k}: {len(failed)} calls failed, expected min(k+1, {len(E)})"))
        if k is None:
            want = {ids[n] for n in g.nodes() if not any((p in fset or str(p) in fset) for p in nx.ancestors(g, n))}
            if set(begun) != want:
                v.append(("C10", f"max_errors=None: executed {sorted(set(begun))}, expected every call with no failed dependency {sorted(want)}"))
    else:
        if exc is not None:
            v.append(("C06", f"no call failed but run raised {exc!r}"))
        elif set(begun) != set(range(len(tr.nodes))):
            missing = sorted(set(range(len(tr.nodes))) - set(begun))
            v.append(("C04", f"successful run did not execute nodes {[rev[i] for i in missing]}"))
    return v


def explore_engine(ctx, props, n_prim, n_op, n_intr=0, p_template=0.15, op_switch=(0.05,)):
    """Shared exploration.  Returns dict(violations, disagreements, coverage)."""
    rng = random.Random(ctx.seed * 7919 + 17)
    viol, dis = [], []
    stats = {"runs": 0, "traces_validated_against_impl": 0, "labels_replayed": 0, "opcode_runs": 0, "interrupt_runs": 0,
             "with_failures": 0, "multi_worker": 0, "with_multi_parent": 0, "schedulers": {}, "switches": 0}
    distinct = set()
    samples = []
    for i in range(n_prim + n_op + n_intr):
        case = gen_template_case(rng) if rng.random() < p_template else gen_case(rng, ctx.tier)
        mode = "prim" if i < n_prim or i >= n_prim + n_op else "opcode"
        intr = None
        if i >= n_prim + n_op:
            # two thirds of the interrupted runs have no failing call; in the others a call may already have failed when the
            # interrupt arrives (max_errors lets the run go on): KeyboardInterrupt must still be what the caller sees
            if rng.random() < 0.67:
                case["failing"] = {}
            elif case["failing"]:
                case["max_errors"] = rng.choice([None, None, 2, len(case["failing"])])
            intr = rng.randint(1, max(1, case["n"]))
            if (i - n_prim - n_op) % 6 == 5:
                # every sixth interrupted run (chosen by index, drawn from a stream of its own): the interrupt arrives while
                # every worker is inside a call, one of which then FAILS with the error bound already exceeded
                r2 = random.Random(ctx.seed * 31 + i)
                w = r2.choice([2, 2, 3])
                n = w + r2.choice([0, 1, 3, 4])
                # ... or NOT exceeded (max_errors None / large): the failure must not undo the stop the interrupt caused - nothing
                # that is still queued may start (shows with the queues that do not rank the sentinels first)
                case = {"n": n, "edges": [(a, n - 1) for a in range(r2.choice([0, 1, w]))] if n > w else [], "nodes": list(range(n)),
                        "workers": w, "max_errors": r2.choice([0, 0, None, None, 7]), "scheduler": r2.choice(["default", "random", "cheap", "random"]),
                        "failing": {r2.randrange(w): "ValueError"}}
                intr = w
                stats["interrupt_then_failure_cases"] = stats.get("interrupt_then_failure_cases", 0) + 1
        seed = rng.randrange(1 << 30)
        osp = rng.choice(op_switch)
        r = run_case(case, seed, mode=mode, interrupt_at=intr, op_switch_p=osp)
        stats["runs"] += 1
        stats["switches"] += r.sched.switches
        stats["schedulers"][case["scheduler"]] = stats["schedulers"].get(case["scheduler"], 0) + 1
        interrupted = r.sched.interrupted
        if mode == "opcode":
            stats["opcode_runs"] += 1
        if intr is not None:
            stats["interrupt_runs"] += 1 if interrupted else 0
        tr = r.traces[0] if r.traces else None
        nontrivial = False
        if tr is not None:
            g = r.graph
            multi = any(len(set(g.predecessors(n))) >= 2 for n in g.nodes())
            stats["with_multi_parent"] += multi
            stats["multi_worker"] += case["workers"] > 1
            stats["with_failures"] += bool(case["failing"])
            nontrivial = multi and case["workers"] > 1 and r.sched.switches > 0
            if mode == "prim" and ctx.driver is not None and not (r.deadlock or r.hang):
                d = validate_trace(ctx.driver, tr)
                stats["traces_validated_against_impl"] += 1
                stats["labels_replayed"] += len(tr.labels)
                if d is None:
                    d = validate_fine(ctx.driver, tr)
                    stats["fine_traces_validated"] = stats.get("fine_traces_validated", 0) + 1
                    stats["fine_lock_blocks"] = stats.get("fine_lock_blocks", 0) + sum(1 for x in tr.fine if x.startswith("acq "))
                    stats["fine_failure_blocks"] = stats.get("fine_failure_blocks", 0) + sum(1 for x in tr.fine if x.startswith("facq "))
                    stats["fine_blocks_interleaved"] = stats.get("fine_blocks_interleaved", 0) + fine_interleaved(tr)
                if d is None:
                    d = validate_wake(ctx.driver, tr)
                    stats["wake_traces_validated"] = stats.get("wake_traces_validated", 0) + 1
                    stats["wake_worker_sleeps"] = stats.get("wake_worker_sleeps", 0) + sum(1 for x in tr.wake if x[0] == "sleep")
                    stats["wake_notified"] = stats.get("wake_notified", 0) + sum(1 for x in tr.wake if x[0] == "put" and x[1] is not None)
                    stats["wake_caller_sleeps"] = stats.get("wake_caller_sleeps", 0) + sum(1 for x in tr.wake if x[0] == "joinSleep")
                if d:
                    d["case"] = case
                    d["seed"] = seed
                    d["interrupt_at"] = intr
                    dis.append(d)
            if nontrivial:
                distinct.add(tuple(l for l, _ in tr.labels))
            if len(samples) < 2 and nontrivial:
                samples.append({"case": case, "schedule_seed": seed, "mode": mode,
                                "labels": [l for l, _ in tr.labels][:60]})
        for p, what in monitor(case, r, interrupted=interrupted):
            if p in props:
                viol.append({"property": p, "what": what, "case": case, "seed": seed, "mode": mode, "interrupt_at": intr,
                             "op_switch_p": osp})
        if len(viol) >= 3 or len(dis) >= 3:
            break
    cov = dict(stats)
    cov["evaluations"] = stats["runs"]
    cov["distinct_nontrivial"] = len(distinct)
    cov["rule"] = ("random DAGs (1..8 nodes quick / 1..14 thorough, parallel edges, shuffled insertion order) x workers {1,2,3,n+2} x "
                   "max_errors {0,1,2,None} x scheduler {default,random,cheap} x failing subsets (Exception and BaseException types) x "
                   "seeded cooperative schedules of the real run_function_on_graph; non-trivial = a multi-parent node, >1 worker and at "
                   "least one context switch; distinct = distinct label sequences")
    cov["samples"] = samples
    return {"violations": viol, "disagreements": dis, "coverage": cov}


def replay_engine(ctx, payload, props):
    w = payload.get("witness", payload)
    case = w["case"]
    case["failing"] = {(int(k) if isinstance(k, str) and k.lstrip("-").isdigit() else k): t for k, t in case.get("failing", {}).items()}
    r = run_case(case, w["seed"], mode=w.get("mode", "prim"), interrupt_at=w.get("interrupt_at"),
                 op_switch_p=w.get("op_switch_p", 0.05))
    for p, what in monitor(case, r, interrupted=r.sched.interrupted):
        if p in props:
            return what
    if ctx.driver is not None and w.get("mode", "prim") == "prim" and r.traces:
        d = validate_trace(ctx.driver, r.traces[0])
        if d:
            return "model/implementation disagreement: " + str(d)[:400]
    return None
