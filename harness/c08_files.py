"""C08 for FILE-BACKED stores: a real `uberjob.run` over JsonFileStore/TextFileStore/PickleFileStore files is killed
(os._exit in a child process) before or after its k-th file operation, for every k; the parent then performs a clean
run and compares outputs and stored values with from-scratch evaluation.  (Atomicity of one write is C11's subject; this
is the end-to-end statement of C08 on files.)"""
from __future__ import annotations

import json
import os
import random
import shutil
import subprocess
import sys
import tempfile

CHILD = r'''
import builtins, io, json, os, sys
sys.path.insert(0, sys.argv[4])
d, k, after = sys.argv[1], int(sys.argv[2]), sys.argv[3] == "1"
cnt = [0]
def tick(do):
    n = cnt[0]; cnt[0] += 1
    if n == k and not after: os._exit(9)
    r = do()
    if n == k and after: os._exit(9)
    return r
real_open, real_replace = builtins.open, os.replace
class F:
    def __init__(self, f): self.f = f
    def write(self, x): return tick(lambda: self.f.write(x))
    def close(self): return tick(self.f.close)
    def __enter__(self): return self
    def __exit__(self, *a): self.close(); return False
    def __getattr__(self, n): return getattr(self.f, n)
def my_open(p, mode="r", *a, **kw):
    if str(p).startswith(d) and "w" in mode:
        return F(tick(lambda: real_open(p, mode, *a, **kw)))
    return real_open(p, mode, *a, **kw)
builtins.open = my_open
os.replace = lambda a, b: tick(lambda: real_replace(a, b))
import uberjob
from harness.c08_files import build
plan, reg, out = build(d, sys.argv[5])
try:
    uberjob.run(plan, registry=reg, output=out, progress=None, max_workers=int(sys.argv[6]))
except BaseException as e:
    print("child: run raised", type(e).__name__)
print("ops", cnt[0])
'''


def build(d, kind):
    import uberjob
    from uberjob.stores import JsonFileStore, PickleFileStore, TextFileStore
    S = {"json": JsonFileStore, "pickle": PickleFileStore, "text": TextFileStore}[kind]
    plan, reg = uberjob.Plan(), uberjob.Registry()
    src = reg.source(plan, JsonFileStore(os.path.join(d, "src.json")))
    conv = (lambda v: "t%s" % (v,)) if kind == "text" else (lambda v: v)
    a = plan.call(lambda v: conv(["a", v]), src)
    reg.add(a, S(os.path.join(d, "a.dat")))
    b = plan.call(lambda v: conv(["b", v]), a)
    reg.add(b, S(os.path.join(d, "b.dat")))
    c = plan.call(lambda v, w: conv(["c", v, w]), a, b)
    reg.add(c, S(os.path.join(d, "c.dat")))
    return plan, reg, c


def expected(kind, v):
    conv = (lambda x: "t%s" % (x,)) if kind == "text" else (lambda x: x)
    a = conv(["a", v])
    b = conv(["b", a])
    c = conv(["c", a, b])
    return a, b, c


_BARRIER = [None]


class SlowPickle:
    """a value whose serialisation takes a while: its `__reduce__` waits for the sibling value to be mid-write too"""

    def __init__(self, tag):
        self.tag = tag

    def __reduce__(self):
        import threading
        try:
            _BARRIER[0].wait(timeout=3)
        except threading.BrokenBarrierError:
            pass
        return (str, (self.tag,))


def overlap_cases(only=None):
    """Sibling file stores - same directory, same stem, different extensions (`features.train` / `features.test`), str and
    pathlib paths - written at OVERLAPPING times by two workers (a barrier inside the serialisation of both values).  Whether
    that run succeeds or fails, the next run must return, and the files must hold, each store's own value."""
    import pathlib
    import threading
    import uberjob
    from uberjob.stores import PickleFileStore
    viol, done = [], 0
    for pathlib_paths, names, rnd in [(pl, nm, r) for pl in (False, True)
                                      for nm in (("features.train", "features.test"), ("part.a.bin", "part.b.bin"), ("x", "x.bak"))
                                      for r in range(6)]:       # which writer finishes first is up to the threads: six rounds each
        if True:
            case = [pathlib_paths, list(names)]
            if only is not None and case != only:
                continue
            d = tempfile.mkdtemp(prefix="c08o_")
            try:
                mk = (lambda n: pathlib.Path(d) / n) if pathlib_paths else (lambda n: os.path.join(d, n))

                def build2():
                    plan, reg = uberjob.Plan(), uberjob.Registry()
                    a = plan.call(lambda: SlowPickle("A:" + names[0]))
                    b = plan.call(lambda: SlowPickle("B:" + names[1]))
                    reg.add(a, PickleFileStore(mk(names[0])))
                    reg.add(b, PickleFileStore(mk(names[1])))
                    return plan, reg, plan.call(lambda x, y: [x, y], a, b)

                _BARRIER[0] = threading.Barrier(2)
                plan, reg, out = build2()
                first = "returned"
                try:
                    uberjob.run(plan, registry=reg, output=out, progress=None, max_workers=2)
                except Exception as e:      # noqa: BLE001 - a failing run is allowed; what it leaves behind is judged below
                    first = "failed with %s" % type(e).__name__
                _BARRIER[0] = threading.Barrier(1)
                plan, reg, out = build2()
                done += 2
                want = ["A:" + names[0], "B:" + names[1]]
                try:
                    got = uberjob.run(plan, registry=reg, output=out, progress=None, max_workers=2)
                    held = [PickleFileStore(mk(n)).read() for n in names]
                    what = None if (got == want and held == want) else (
                        f"the run after it returned {got!r}, the files hold {held!r}; each store's own value: {want!r}")
                except Exception as e:      # noqa: BLE001
                    what = f"the run after it failed: {type(e).__name__}: {str(e)[:100]}"
                left = sorted(set(os.listdir(d)) - set(names))
                if what is None and left:
                    what = f"files left behind next to the stores: {left}"
                if what:
                    viol.append({"property": "C08", "what": f"PickleFileStore at {'pathlib' if pathlib_paths else 'str'} paths {list(names)} written "
                                 f"at overlapping times by two workers (that run {first}): {what}", "replay_fn": "overlap", "case": case})
                    return viol, done
            finally:
                shutil.rmtree(d, ignore_errors=True)
    return viol, done


def files_explore(ctx, replay=None):
    if replay is not None and replay.get("replay_fn") == "overlap":
        v, _ = overlap_cases(only=replay["case"])
        return v[0]["what"] if v else None
    import uberjob
    rng = random.Random(ctx.seed * 3 + 7)
    verif = os.path.dirname(os.path.dirname(os.path.abspath(__file__)))
    repo_src = os.environ.get("VERIF_REPO", "/repo") + "/src"
    viol, kills, kinds = [], 0, ["json", "text", "pickle"]
    cases = [(k, w, first) for k in (kinds if ctx.tier != "quick" else [rng.choice(kinds)])
             for w in ((1, 2) if ctx.tier != "quick" else (rng.choice([1, 2]),)) for first in (False, True)]
    if replay is not None:
        cases = [(replay["kind"], replay["workers"], replay.get("first", False))]
    for kind, workers, first in cases:
        base = tempfile.mkdtemp(prefix="c08f_")
        try:
            if first:
                # the very first run: only the source exists, every stored value is written for the first time
                json.dump(2, open(os.path.join(base, "src.json"), "w"))
            else:
                # a valid earlier state: complete run on source value 1, then the source is updated to 2 (everything out of date)
                json.dump(1, open(os.path.join(base, "src.json"), "w"))
                plan, reg, out = build(base, kind)
                uberjob.run(plan, registry=reg, output=out, progress=None)
                os.utime(os.path.join(base, "src.json"))
                json.dump(2, open(os.path.join(base, "src.json"), "w"))
            nops = 40
            ks = range(nops) if replay is None else [replay["k"]]
            for k in ks:
                for after in ((False, True) if replay is None else (replay["after"],)):
                    d = tempfile.mkdtemp(prefix="c08k_")
                    shutil.rmtree(d)
                    shutil.copytree(base, d)
                    for fn in os.listdir(d):       # keep the modified times of the copied state
                        shutil.copystat(os.path.join(base, fn), os.path.join(d, fn))
                    r = subprocess.run([sys.executable, "-c", CHILD, d, str(k), "1" if after else "0", repo_src, kind, str(workers)],
                                       capture_output=True, text=True, env=dict(os.environ, PYTHONPATH=repo_src + os.pathsep + verif), timeout=60)
                    died = r.returncode == 9
                    kills += died
                    m = [l for l in r.stdout.splitlines() if l.startswith("ops ")]
                    if m:
                        nops = min(nops, int(m[0].split()[1]) + 1)
                    # the next run, in this process
                    plan, reg, out = build(d, kind)
                    what = None
                    try:
                        got = uberjob.run(plan, registry=reg, output=out, progress=None)
                        ea, eb, ec = expected(kind, 2)
                        vals = (reg[list(reg.keys())[1]].read(), reg[list(reg.keys())[2]].read(), reg[list(reg.keys())[3]].read())
                        if got != ec or vals != (ea, eb, ec):
                            what = f"after a kill {'after' if after else 'before'} file operation {k} the next run returned {got!r} / stored {vals!r}, from scratch gives {(ea, eb, ec)!r}"
                    except Exception as e:      # noqa: BLE001
                        what = f"after a kill {'after' if after else 'before'} file operation {k} the next run failed: {type(e).__name__}: {str(e)[:120]}"
                    shutil.rmtree(d, ignore_errors=True)
                    if what and replay is not None:
                        return what
                    if what:
                        viol.append({"property": "C08", "what": f"{kind} stores, {workers} worker(s), {'first run' if first else 'rebuild'}: {what}",
                                     "replay_fn": "files", "kind": kind, "workers": workers, "k": k, "after": after, "first": first})
                        break
                if viol or k >= nops:
                    break
        finally:
            shutil.rmtree(base, ignore_errors=True)
        if viol:
            break
    if replay is not None:
        return None
    n_overlap = 0
    if not viol:
        v, n_overlap = overlap_cases()
        viol += v
    return {"violations": viol, "disagreements": [], "coverage": {"file_store_kills": kills, "file_store_kinds": len(cases),
                                                                  "overlapping_sibling_writes": n_overlap}}
