"""T3 — deterministic cooperative scheduling of the REAL `run_function_on_graph`, with no change to /repo.

* `uberjob._execution.run_function_on_graph.threading` is replaced (module attribute) by a shim whose
  `Lock` and `Thread` are cooperative; `create_queue` is wrapped so that the queue's `mutex`, `not_empty`,
  `not_full`, `all_tasks_done` are cooperative.  Queue classes and engine code stay the real ones.
* exactly one managed thread runs at a time (baton passing over real OS threads); control changes hands only
  at cooperative primitives and - in 'opcode' mode - at every bytecode of the engine's own files.
* a thread that blocks is known to be blocked, so "nobody can run but run() has not returned" is detected at once.
* the run yields one EngineTrace per call of run_function_on_graph: model labels + a snapshot of the shared state
  after each label (for replay through the Lean model), and raw begin/end events for the monitors.
"""
from __future__ import annotations

import linecache
import random
import sys
import threading as _rt  # the real one

import uberjob._execution.run_function_on_graph as eng
import uberjob._execution.run_physical as run_physical_mod
import uberjob._transformations.caching as caching_mod

ENGINE_FILES = (eng.__file__,)
_tls = _rt.local()


class Abort(BaseException):
    """Unwinds a managed thread when the run is abandoned (deadlock / step limit)."""


class TState:
    def __init__(self, name):
        self.name = name
        self.sem = _rt.Semaphore(0)
        self.blocked = None
        self.started = False
        self.finished = False
        self.pending_exc = None
        self.widx = None          # worker index within the current engine invocation
        self.trace = None         # EngineTrace this thread belongs to
        self.pend = None          # pending lazily-emitted label ('check' / 'setStop')
        self.holding = set()      # names of cooperative locks held
        self.in_fn = None
        self.fn_failed = False
        self.deadline = None      # virtual time at which a timed wait of this thread expires (None: not in a timed wait)
        self.expired = False
        self.helper = False       # started inside run_function_on_graph, but not one of its workers


class EngineTrace:
    def __init__(self, graph, worker_count, max_errors, scheduler):
        self.nodes = list(graph.nodes())
        self.ids = {n: i for i, n in enumerate(self.nodes)}
        self.edges = [(self.ids[u], self.ids[v]) for u, v in graph.edges()]
        self.worker_count = worker_count
        self.max_errors = max_errors
        self.scheduler = scheduler
        self.labels = []          # [(label string, snapshot string | None)]
        self.fine = []            # the same labels plus "acq w y" / "unl w" of remaining_pred_count_lock (fine model)
        self.wake = []            # labels of the wake-up model (Model/EngineQ.lean): [kind, woken worker | None, label]
        self.last_put = None      # the `put` entry whose `not_empty.notify()` has not run yet
        self.timeline = []        # labels and raw events interleaved, in real order
        self.events = []          # raw monitor events: ('begin', w, x) ('endok', w, x) ('endfail', w, x, exc)
        self.workers = []
        self.queue = None
        self.cells = None
        self.outcome = None       # 'ok' | ('raise', exc)
        self.graph = graph

    def nid(self, item):
        if item is eng.DONE:
            return "D"
        return "n%d" % self.ids[item]


class Sched:
    def __init__(self, seed, mode="prim", switch_p=0.5, op_switch_p=0.05, max_steps=2_000_000, interrupt_at=None,
                 snapshots=True):
        self.rng = random.Random(seed)
        self.mode = mode
        self.switch_p = switch_p
        self.op_switch_p = op_switch_p
        self.max_steps = max_steps
        self.threads = []
        self.steps = 0
        self.deadlock = False
        self.hang = False
        self.aborting = False
        self.traces = []
        self.cur_trace = None
        self.interrupt_at = interrupt_at     # inject KeyboardInterrupt in the coordinator after this many begins
        self.interrupted = False
        self.begins = 0
        self.snapshots = snapshots
        self.switches = 0
        self.main = None
        self.vclock = 0.0         # virtual time: advances only when a timed wait expires (what `queue.get(timeout=...)` reads)
        self.timeouts = 0

    # ------------------------------------------------------------------ baton passing
    def current(self):
        return _tls.ts

    def runnable(self):
        return [t for t in self.threads if t.started and not t.finished and t.blocked is None]

    def yield_point(self, kind="prim"):
        if self.aborting:
            return
        self.steps += 1
        if self.steps > self.max_steps:
            self.hang = True
            self._abandon()
        p = self.switch_p if kind == "prim" else self.op_switch_p
        if self.rng.random() < p:
            self.switch()

    def expire_one(self, only_if_stuck):
        """Time passes: a thread in a TIMED wait may find its timeout expired at any scheduling point (the calls that are
        running may take arbitrarily long) - and must, if nobody else can run."""
        timed = [t for t in self.threads if t.started and not t.finished and t.blocked is not None and t.deadline is not None]
        if not timed:
            return False
        if not only_if_stuck and self.rng.random() >= 0.12:
            return False
        t = min(timed, key=lambda t: t.deadline) if only_if_stuck else self.rng.choice(timed)
        self.vclock = max(self.vclock, t.deadline)
        t.expired = True
        t.blocked = None
        self.timeouts += 1
        return True

    def switch(self):
        me = self.current()
        self.expire_one(only_if_stuck=False)
        cands = self.runnable()
        if not cands and self.expire_one(only_if_stuck=True):
            cands = self.runnable()
        if not cands:
            self.deadlock = True
            self._abandon()
            return
        nxt = self.rng.choice(cands)
        if nxt is me:
            return
        self.switches += 1
        nxt.sem.release()
        me.sem.acquire()
        if self.aborting and me is not self.main:
            raise Abort()

    def block(self, on):
        """The current thread cannot continue until somebody clears its `blocked`."""
        me = self.current()
        me.blocked = on
        while me.blocked is not None:
            if self.aborting:
                if me is self.main:
                    me.blocked = None
                    return
                raise Abort()
            self.switch()
            if self.aborting and me is self.main:
                me.blocked = None
                return

    def _abandon(self):
        """Deadlock or step limit: let the main thread unwind; park everybody else for good."""
        self.aborting = True
        me = self.current()
        if me is self.main:
            return
        self.main.blocked = None
        self.main.sem.release()
        me.sem.acquire()          # parked forever (daemon thread)
        raise Abort()

    def thread_finished(self, ts):
        ts.finished = True
        for t in self.threads:
            if t.blocked == ("join", ts):
                t.blocked = None
        if self.aborting:
            return
        if ts.trace is not None and ts.widx is not None:
            ts.trace.timeline.append("exit %d" % ts.widx)
        cands = self.runnable()
        if not cands and self.expire_one(only_if_stuck=True):
            cands = self.runnable()
        if cands:
            nxt = self.rng.choice(cands)
            self.switches += 1
            nxt.sem.release()
        elif any(not t.finished for t in self.threads):
            self.deadlock = True
            self.aborting = True
            self.main.blocked = None
            self.main.sem.release()

    # ------------------------------------------------------------------ trace recording
    def emit(self, label, tr=None):
        tr = tr or self.cur_trace
        if tr is None:
            return
        tr.labels.append((label, self.snapshot(tr) if self.snapshots else None))
        tr.fine.append(label)
        head = label.split(" ")[0]
        if head == "get":
            tr.wake.append(["take", None, label[4:]])
        elif head in ("release", "putDone"):
            tr.wake.append(["put", None, label])
        elif head == "taskDone":
            tr.wake.append(["taskDone", None, label[9:]])
        elif head == "joinReturn":
            tr.wake.append(["joinTake", None, ""])
        elif head == "interrupt":
            tr.wake.append(["interrupt", None, ""])
        else:
            tr.wake.append(["b", None, label])
        tr.timeline.append("L:" + label)

    def flush_pending(self, ts):
        """Emit the lazily-placed label of `ts` (a plain shared read/write that happened since its last primitive)."""
        if ts.pend and ts.trace is not None:
            lab = ts.pend
            ts.pend = None
            self.emit(lab, ts.trace)

    def snapshot(self, tr):
        """Observable shared state as {field: canonical string}.  A field protected by a lock that another thread
        holds right now is omitted (that thread is in the middle of its region; the model applies the region atomically)."""
        q = tr.queue
        if q is None:
            return None
        me = self.current()
        items = []
        for it in list(q.queue):
            v = getattr(it, "value", it) if type(it).__name__ == "KeyValuePair" else it
            items.append(tr.nid(v))
        items.sort()
        snap = {"q": "[%s]" % " ".join(items), "unf": str(q.unfinished_tasks)}
        c = tr.cells
        if c:
            try:
                held_by_other = set()
                for t in self.threads:
                    if t is not me:
                        held_by_other |= t.holding
                snap["stop"] = "true" if c["stop"].cell_contents else "false"
                if "failure_lock" not in held_by_other:
                    first = c["first_node_error"].cell_contents
                    snap["errs"] = str(c["error_count"].cell_contents)
                    snap["first"] = "-" if first is None else str(tr.ids.get(getattr(first, "node", None), "?"))
                if "remaining_pred_count_lock" not in held_by_other:
                    rem = c["remaining_pred_count_mapping"].cell_contents
                    multi = [i for i, n in enumerate(tr.nodes) if n in rem]
                    snap["rem"] = "[%s]" % " ".join("%d:%d" % (i, rem[tr.nodes[i]]) for i in multi)
            except (KeyError, ValueError):
                pass
        return snap


SCHED: Sched | None = None


def _sched():
    return SCHED


# ---------------------------------------------------------------------- cooperative primitives
class CoopLock:
    def __init__(self, name=None):
        self.owner = None
        self.name = name

    def acquire(self, blocking=True, timeout=-1):
        s = _sched()
        me = s.current()
        s.flush_pending(me)
        s.yield_point()
        while self.owner is not None:
            if s.aborting:
                return True
            if not blocking:
                return False
            s.block(("lock", self))
        self.owner = me
        if self.name:
            me.holding.add(self.name)
        if self.name == "remaining_pred_count_lock" and me.trace is not None and me.widx is not None and not s.aborting:
            f = sys._getframe(1)
            while f is not None and f.f_code.co_name != "process_node":
                f = f.f_back
            succ = f.f_locals.get("successor") if f is not None else None
            me.trace.fine.append("acq %d %s" % (me.widx, me.trace.ids[succ] if succ in me.trace.ids else "?"))
        if self.name == "failure_lock" and me.trace is not None and me.widx is not None and not s.aborting:
            me.trace.fine.append("facq %d" % me.widx)
        return True

    def release(self):
        s = _sched()
        me = s.current()
        if s.aborting:
            self.owner = None
            return
        self._on_release(me)
        if self.name == "remaining_pred_count_lock" and me.trace is not None and me.widx is not None:
            me.trace.fine.append("unl %d" % me.widx)
        if self.name == "failure_lock" and me.trace is not None and me.widx is not None:
            me.trace.fine.append("funl %d" % me.widx)
        self.owner = None
        if self.name:
            me.holding.discard(self.name)
        for t in s.threads:
            if t.blocked == ("lock", self):
                t.blocked = None
        s.yield_point()

    def _on_release(self, me, exc_type=None):
        """Label emission for the lock-protected regions of process_node (see DESIGN 2.2, T3)."""
        s = _sched()
        tr = me.trace
        if tr is None or me.widx is None:
            return
        if self.name == "failure_lock":
            s.emit("finFail %d" % me.widx, tr)
        elif self.name == "remaining_pred_count_lock":
            if getattr(me, "region_emitted", False):
                me.region_emitted = False
                return
            f = sys._getframe(2)
            while f is not None and f.f_code.co_name != "process_node":
                f = f.f_back
            succ = f.f_locals.get("successor") if f is not None else None
            if succ is not None and succ in tr.ids:
                s.emit("release %d %d" % (me.widx, tr.ids[succ]), tr)
            else:
                s.emit("release %d ?" % me.widx, tr)

    def locked(self):
        return self.owner is not None

    def __enter__(self):
        self.acquire()
        return self

    def __exit__(self, *a):
        self.release()

    def _is_owned(self):
        return self.owner is _sched().current()


class CoopCondition:
    def __init__(self, lock, name):
        self.lock = lock
        self.name = name
        self.waiters = []

    def acquire(self, *a, **k):
        return self.lock.acquire(*a, **k)

    def release(self):
        self.lock.release()

    def __enter__(self):
        self.lock.acquire()
        return self

    def __exit__(self, exc_type, exc, tb):
        s = _sched()
        me = s.current()
        if not s.aborting and self.name == "all_tasks_done" and me.trace is not None:
            fn = sys._getframe(1).f_code.co_name
            if fn == "task_done" and me.widx is not None:
                s.emit("taskDone %d" % me.widx, me.trace)
            elif fn == "join":
                if exc_type is None:
                    s.emit("joinReturn", me.trace)
                elif issubclass(exc_type, KeyboardInterrupt):
                    s.emit("interrupt", me.trace)
                me.pend = "setStop"
        self.lock.release()

    def wait(self, timeout=None):
        s = _sched()
        me = s.current()
        if s.aborting:
            # the run was abandoned (deadlock / step limit): a caller that waits in a loop (queue.join, queue.get) would
            # spin for ever on a wait that returns at once - unwind it instead
            raise Abort()
        armed = self._armed(s, me)
        if not armed:
            self.lock.owner = None
            for t in s.threads:
                if t.blocked == ("lock", self.lock):
                    t.blocked = None
            self.waiters.append(me)
            me.deadline = None if timeout is None else s.vclock + max(0.0, timeout)
            me.expired = False
            tr = me.trace
            if tr is not None:
                if self.name == "not_empty" and me.widx is not None:
                    tr.wake.append(["sleep", None, str(me.widx)])
                elif self.name == "all_tasks_done" and me is s.main:
                    tr.wake.append(["joinSleep", None, ""])
            s.block(("cond", self))
            timed_out = me.expired
            me.deadline, me.expired = None, False
            if me in self.waiters:
                self.waiters.remove(me)
            if s.aborting:
                raise Abort()
            # re-acquire
            while self.lock.owner is not None:
                s.block(("lock", self.lock))
            self.lock.owner = me
            if timed_out and not (me.pending_exc is not None or self._armed(s, me)):
                return False
        if me.pending_exc is not None or self._armed(s, me):
            exc = me.pending_exc or KeyboardInterrupt()
            me.pending_exc = None
            s.interrupted = True
            raise exc
        return True

    def _armed(self, s, me):
        return (me is s.main and self.name == "all_tasks_done" and s.interrupt_at is not None
                and not s.interrupted and s.begins >= s.interrupt_at)

    def notify(self, n=1):
        if self.name == "not_empty":
            s = _sched()
            me = s.current() if s is not None else None
            tr = (me.trace if me is not None else None) or (s.cur_trace if s is not None else None)
            if tr is not None and tr.last_put is not None:
                for t in self.waiters[:n]:
                    if t.widx is not None:
                        tr.last_put[1] = t.widx
                tr.last_put = None
        for t in self.waiters[:n]:
            t.blocked = None
        del self.waiters[:n]

    def notify_all(self):
        self.notify(len(self.waiters))


class CoopThread:
    def __init__(self, group=None, target=None, name=None, args=(), kwargs=None, daemon=None):
        self.target = target
        self.args = args
        self.kwargs = kwargs or {}
        self.name = name or "coop"
        self.daemon = daemon
        self.ts = TState(self.name)
        self.real = None

    def start(self):
        s = _sched()
        me = s.current()
        ts = self.ts
        tr = s.cur_trace
        ts.trace = tr
        # a thread whose target is not the pool's worker loop (no `process_item` in its closure): a helper the engine model
        # does not have.  It runs under the scheduler like any other thread, but is no worker: the trace is marked off-model.
        ts.helper = tr is not None and _cells_of(self.target) is None
        if ts.helper:
            tr.off_model = "run_function_on_graph started a thread that is not one of its workers (%r)" % (getattr(self.target, "__name__", self.target),)
        elif tr is not None:
            ts.widx = len(tr.workers)
            tr.workers.append(ts)
            if tr.cells is None:
                tr.cells = _cells_of(self.target)
            s.emit("spawn", tr)
        ts.started = True
        s.threads.append(ts)

        def boot():
            _tls.ts = ts
            ts.sem.acquire()
            try:
                if s.mode != "prim":
                    sys.settrace(_tracer)
                if not s.aborting:
                    self.target(*self.args, **self.kwargs)
            except Abort:
                pass
            except BaseException as e:  # a worker thread died with an exception (threading.excepthook analogue)
                ts.died = e
            finally:
                sys.settrace(None)
                s.thread_finished(ts)

        self.real = _rt.Thread(target=boot, daemon=True)
        self.real.start()
        s.yield_point()

    def join(self, timeout=None):
        s = _sched()
        s.flush_pending(s.current())
        if s.aborting:
            return
        s.yield_point()
        me = s.current()
        while not self.ts.finished:
            if s.aborting:
                return
            if (me is s.main and getattr(self.ts, "helper", False) and s.interrupt_at is not None and not s.interrupted
                    and s.begins >= s.interrupt_at):
                # Ctrl-C reaches the calling thread while it waits for a helper thread (not for a worker: an interrupt during
                # the final join of the pool is outside C17's statement)
                s.interrupted = True
                raise KeyboardInterrupt()
            s.block(("join", self.ts))

    def is_alive(self):
        return self.ts.started and not self.ts.finished


def _cells_of(process_items):
    """Closure cells of process_node, reached from the worker thread's target."""
    try:
        cl = dict(zip(process_items.__code__.co_freevars, process_items.__closure__ or ()))
        pn = cl["process_item"].cell_contents
        return dict(zip(pn.__code__.co_freevars, pn.__closure__ or ()))
    except Exception:
        return None


class _ThreadingShim:
    """Stands in for the `threading` module inside run_function_on_graph.py."""

    Thread = CoopThread

    @staticmethod
    def Lock():
        f = sys._getframe(1)
        line = linecache.getline(f.f_code.co_filename, f.f_lineno)
        name = line.split("=")[0].strip() if "=" in line else None
        return CoopLock(name)

    def __getattr__(self, k):
        return getattr(_rt, k)


def _tracer(frame, event, arg):
    if frame.f_code.co_filename in ENGINE_FILES:
        s = _sched()
        if s is not None and s.mode == "opcode":
            frame.f_trace_opcodes = True
        return _local_tracer
    return None


def _local_tracer(frame, event, arg):
    s = _sched()
    if s is not None and not s.aborting:
        if (event == "opcode" and s.mode == "opcode") or (event == "line" and s.mode == "line"):
            s.yield_point("op")
            # CPython <= 3.12 snapshots the frame's variables (cells included) into f_locals before calling a trace
            # function and writes the snapshot BACK into the cells afterwards (PyFrame_LocalsToFast).  Other threads ran
            # while we were parked in yield_point and may have rebound `stop` / `error_count` / `first_node_error`;
            # re-reading f_locals refreshes the snapshot, so the write-back cannot undo their updates.
            frame.f_locals
    return _local_tracer


# ---------------------------------------------------------------------- installation
_orig = {}


def _wrapped_create_queue(graph, initial_items, scheduler):
    q = _orig["create_queue"](graph, initial_items, scheduler)
    s = _sched()
    if s is None:
        return q
    lock = CoopLock("mutex")
    q.mutex = lock
    q.not_empty = CoopCondition(lock, "not_empty")
    q.not_full = CoopCondition(lock, "not_full")
    q.all_tasks_done = CoopCondition(lock, "all_tasks_done")
    tr = s.cur_trace
    if tr is not None:
        tr.queue = q
    real_get, real_put = q._get, q._put

    def _get():
        item = real_get()
        me = s.current()
        if me.trace is not None and me.widx is not None and not s.aborting:
            s.emit("get %d %s" % (me.widx, me.trace.nid(item)), me.trace)
            me.pend = "check %d" % me.widx
        return item

    def _put(item):
        real_put(item)
        me = s.current()
        t = me.trace or s.cur_trace
        if t is None or s.aborting:
            return
        if item is eng.DONE:
            # unfinished_tasks is incremented right after _put, inside the same mutex region
            q.unfinished_tasks += 1
            try:
                s.emit("putDone", t)
                t.last_put = t.wake[-1]
            finally:
                q.unfinished_tasks -= 1
        elif me.widx is not None:
            # the put is the last shared action of the locked decrement-and-test region, so the region's label goes here
            q.unfinished_tasks += 1
            try:
                s.emit("release %d %s" % (me.widx, t.nid(item)[1:]), t)
                t.last_put = t.wake[-1]
            finally:
                q.unfinished_tasks -= 1
            if "remaining_pred_count_lock" in me.holding:
                me.region_emitted = True

    q._get = _get
    q._put = _put
    return q


def _wrapped_rfog(graph, fn, *, worker_count=None, max_errors=0, scheduler=None):
    s = _sched()
    if s is None:
        return _orig["rfog"](graph, fn, worker_count=worker_count, max_errors=max_errors, scheduler=scheduler)
    tr = EngineTrace(graph, worker_count, max_errors, scheduler)
    s.traces.append(tr)
    prev = s.cur_trace
    s.cur_trace = tr
    me = s.current()
    prev_me = (me.trace, me.widx)
    me.trace, me.widx = tr, None

    def fn2(node):
        w = s.current()
        if w.widx is None:
            # `fn` is being run by a thread that is not one of this invocation's workers (e.g. by the calling thread): the
            # engine model has no such step.  Run it, record the raw events, and mark the trace: the trace replay reports it
            # as a broken correspondence; monitors that only look at the events go on working.
            tr.off_model = "a node function ran on a thread that is not a worker of this run_function_on_graph call"
            x = tr.ids.get(node)
            tr.events.append(("begin", None, x))
            s.begins += 1
            if w is s.main and s.interrupt_at is not None and not s.interrupted and s.begins >= s.interrupt_at:
                # Ctrl-C arrives in the main thread wherever it is - here: inside the node function it is running itself
                s.interrupted = True
                e = KeyboardInterrupt()
                tr.events.append(("endfail", None, x, e))
                raise e
            try:
                fn(node)
            except BaseException as e:
                if not isinstance(e, Abort):
                    tr.events.append(("endfail", None, x, e))
                raise
            tr.events.append(("endok", None, x))
            return
        s.flush_pending(w)            # check (stop was read just before, no primitive in between)
        x = tr.ids.get(node)
        tr.events.append(("begin", w.widx, x))
        tr.timeline.append("begin %s" % x)
        s.begins += 1
        w.in_fn = x
        if s.interrupt_at is not None and not s.interrupted and s.begins >= s.interrupt_at:
            b = s.main.blocked
            if b is not None and b[0] == "cond" and b[1].name == "all_tasks_done":
                s.main.blocked = None
            elif b is not None and b[0] == "join" and getattr(b[1], "helper", False):
                s.main.blocked = None
        s.yield_point()
        try:
            fn(node)
        except BaseException as e:
            if isinstance(e, Abort):
                raise
            tr.events.append(("endfail", w.widx, x, e))
            w.in_fn = None
            s.yield_point()
            raise
        tr.events.append(("endok", w.widx, x))
        w.in_fn = None
        if not s.aborting:
            s.emit("finOk %d" % w.widx, tr)
        s.yield_point()

    try:
        r = _orig["rfog"](graph, fn2, worker_count=worker_count, max_errors=max_errors, scheduler=scheduler)
        tr.outcome = ("ok",)
        if not s.aborting:
            s.emit("joined", tr)
        return r
    except BaseException as e:
        tr.outcome = ("raise", e)
        if not s.aborting and tr.workers:
            s.emit("joined", tr)
        raise
    finally:
        tr.worker_count_eff = len(tr.workers)
        s.cur_trace = prev
        me.trace, me.widx = prev_me


def install():
    if _orig:
        return
    _orig["threading"] = eng.threading
    _orig["create_queue"] = eng.create_queue
    _orig["rfog"] = eng.run_function_on_graph
    import queue as _q
    _orig["qtime"] = _q.time
    _q.time = lambda: (SCHED.vclock if SCHED is not None else _orig["qtime"]())     # `Queue.get(timeout=)` reads virtual time
    eng.threading = _ThreadingShim()
    eng.create_queue = _wrapped_create_queue
    eng.run_function_on_graph = _wrapped_rfog
    run_physical_mod.run_function_on_graph = _wrapped_rfog
    caching_mod.run_function_on_graph = _wrapped_rfog


def uninstall():
    if not _orig:
        return
    eng.threading = _orig["threading"]
    eng.create_queue = _orig["create_queue"]
    eng.run_function_on_graph = _orig["rfog"]
    import queue as _q
    _q.time = _orig["qtime"]
    run_physical_mod.run_function_on_graph = _orig["rfog"]
    caching_mod.run_function_on_graph = _orig["rfog"]
    _orig.clear()


class RunResult:
    pass


def run_controlled(thunk, seed, mode="prim", interrupt_at=None, switch_p=0.5, op_switch_p=0.05, max_steps=400_000,
                   snapshots=True):
    """Run `thunk()` (which calls uberjob.run / run_function_on_graph) under the cooperative scheduler."""
    global SCHED
    install()
    s = Sched(seed, mode, switch_p, op_switch_p, max_steps, interrupt_at, snapshots)
    main = TState("main")
    main.started = True
    s.main = main
    s.threads.append(main)
    _tls.ts = main
    SCHED = s
    rstate = random.getstate()
    random.seed(seed)
    res = RunResult()
    res.value = None
    res.exc = None
    try:
        if mode != "prim":
            sys.settrace(_tracer)
        try:
            res.value = thunk()
        except Abort:
            res.exc = None
        except BaseException as e:
            res.exc = e
    finally:
        sys.settrace(None)
        SCHED = None
        random.setstate(rstate)
        uninstall()
    res.sched = s
    res.traces = s.traces
    res.deadlock = s.deadlock
    res.hang = s.hang
    res.leaked = [t.name for t in s.threads if t is not main and not t.finished] if not s.aborting else []
    res.died = [(t.widx, getattr(t, "died")) for t in s.threads if getattr(t, "died", None) is not None]
    return res
