"""T1 — pinned-shape translation of fragments of /repo/src/uberjob into Lean (lean/UberjobModel/Gen/*.lean).

This is deliberately NOT a general Python->Lean compiler.  It handles a fixed list of small fragments
whose exact logic the theorems depend on, in a tiny expression language.  Anything it does not
recognise raises TranslateError naming the fragment (a broken correspondence, never a default).
"""
from __future__ import annotations

import ast
import hashlib
import os
import textwrap

REPO_SRC = os.environ.get("UBERJOB_SRC", "/repo/src")
GEN_DIR = os.path.join(os.path.dirname(os.path.dirname(os.path.abspath(__file__))), "lean", "UberjobModel", "Gen")


class TranslateError(Exception):
    def __init__(self, fragment, msg):
        super().__init__(f"{fragment}: {msg}")
        self.fragment = fragment


# ----------------------------------------------------------------------------------------------
# source access
# ----------------------------------------------------------------------------------------------

def _read(rel):
    with open(os.path.join(REPO_SRC, "uberjob", rel)) as f:
        return f.read()


def _module(rel):
    return ast.parse(_read(rel))


def _find_func(tree, name, fragment):
    for node in ast.walk(tree):
        if isinstance(node, ast.FunctionDef) and node.name == name:
            return node
    raise TranslateError(fragment, f"function {name} not found")


def _find_class(tree, name, fragment):
    for node in ast.walk(tree):
        if isinstance(node, ast.ClassDef) and node.name == name:
            return node
    raise TranslateError(fragment, f"class {name} not found")


def _dump(node):
    """Normalised structural dump (no positions, docstrings dropped)."""
    node = _strip_doc(node)
    return ast.dump(node, annotate_fields=True, include_attributes=False)


def _strip_doc(node):
    import copy
    node = copy.deepcopy(node)
    for n in ast.walk(node):
        body = getattr(n, "body", None)
        if isinstance(body, list) and body and isinstance(body[0], ast.Expr) and isinstance(
            getattr(body[0], "value", None), ast.Constant
        ) and isinstance(body[0].value.value, str):
            n.body = body[1:] or [ast.Pass()]
        if isinstance(n, (ast.FunctionDef, ast.arg)):
            if isinstance(n, ast.FunctionDef):
                n.returns = None
            else:
                n.annotation = None
    return node


def _h(s):
    return hashlib.sha256(s.encode()).hexdigest()[:16]


def _same(node, code, fragment=None):
    """Is `node` (a statement, an expression, or a list of statements) structurally the given source text?"""
    want = ast.parse(textwrap.dedent(code)).body
    if isinstance(node, list):
        return len(node) == len(want) and all(_dump(a) == _dump(b) for a, b in zip(node, want))
    if len(want) != 1:
        return False
    want = want[0]
    if isinstance(want, ast.Expr) and not isinstance(node, ast.Expr):
        want = want.value
    return _dump(node) == _dump(want)


# ----------------------------------------------------------------------------------------------
# the tiny expression language
# ----------------------------------------------------------------------------------------------

class Expr:
    """Python expression -> Lean term, under a typed environment {python name/path: (lean term, type)}.
    Types: 'Nat', 'Int', 'Bool', 'String', 'OptT' (Option of the abstract time type)."""

    def __init__(self, fragment, env):
        self.f = fragment
        self.env = env

    def err(self, node, why="unsupported"):
        raise TranslateError(self.f, f"{why}: {ast.unparse(node)}")

    def key(self, node):
        return ast.unparse(node)

    def tr(self, node):
        k = self.key(node)
        if k in self.env:
            return self.env[k]
        if isinstance(node, ast.Constant):
            v = node.value
            if isinstance(v, bool):
                return ("true" if v else "false", "Bool")
            if isinstance(v, int) and v >= 0:
                return (str(v), "Lit")
            if isinstance(v, str):
                return (lean_str(v), "String")
            self.err(node)
        if isinstance(node, ast.BinOp):
            l, lt = self.tr(node.left)
            r, rt = self.tr(node.right)
            t = self.num(lt, rt, node)
            if isinstance(node.op, ast.Add):
                return (f"({l} + {r})", t)
            if isinstance(node.op, ast.Sub):
                return (f"({l} - {r})", t)
            if isinstance(node.op, ast.Mult):
                return (f"({l} * {r})", t)
            if isinstance(node.op, (ast.FloorDiv, ast.Mod)):
                # sound only for a positive constant divisor (Lean's / and % on Nat, and the Euclidean
                # ones on Int, coincide with Python's floor semantics there)
                if not (isinstance(node.right, ast.Constant) and isinstance(node.right.value, int)
                        and node.right.value > 0):
                    self.err(node, "// and % need a positive constant divisor")
                op = "/" if isinstance(node.op, ast.FloorDiv) else "%"
                return (f"({l} {op} {r})", t)
            self.err(node)
        if isinstance(node, ast.Compare):
            if len(node.ops) != 1:
                self.err(node, "chained comparison")
            l, lt = self.tr(node.left)
            r, rt = self.tr(node.comparators[0])
            op = node.ops[0]
            if lt == "OptT" or rt == "OptT":
                if isinstance(op, ast.Gt):
                    return (f"(optGt {l} {r})", "Bool")
                self.err(node, "only > on optional times")
            self.num(lt, rt, node)
            sym = {ast.Gt: ">", ast.Lt: "<", ast.GtE: "≥", ast.LtE: "≤", ast.Eq: "==", ast.NotEq: "!="}.get(type(op))
            if sym is None:
                self.err(node)
            if sym in ("==", "!="):
                return (f"({l} {sym} {r})", "Bool")
            return (f"(decide ({l} {sym} {r}))", "Bool")
        if isinstance(node, ast.BoolOp):
            parts = [self.truthy(v) for v in node.values]
            sym = " && " if isinstance(node.op, ast.And) else " || "
            return ("(" + sym.join(parts) + ")", "Bool")
        if isinstance(node, ast.UnaryOp) and isinstance(node.op, ast.Not):
            return (f"(!{self.truthy(node.operand)})", "Bool")
        if isinstance(node, ast.IfExp):
            c = self.truthy(node.test)
            a, at = self.tr(node.body)
            b, bt = self.tr(node.orelse)
            return (f"(if {c} then {a} else {b})", at if at != "Lit" else bt)
        if isinstance(node, ast.JoinedStr):
            parts = []
            for v in node.values:
                if isinstance(v, ast.Constant):
                    parts.append(lean_str(v.value))
                elif isinstance(v, ast.FormattedValue):
                    if v.conversion != -1:
                        self.err(node, "conversion in f-string")
                    e, t = self.tr(v.value)
                    if v.format_spec is None:
                        if t == "String":
                            parts.append(e)
                        elif t in ("Nat", "Int", "Lit"):
                            parts.append(f"(toString {e})")
                        else:
                            self.err(node, f"f-string of {t}")
                    else:
                        spec = v.format_spec
                        if not (len(spec.values) == 1 and isinstance(spec.values[0], ast.Constant)
                                and spec.values[0].value == "02" and t in ("Nat", "Lit")):
                            self.err(node, "format spec")
                        parts.append(f"(pad2 {e})")
                else:
                    self.err(node)
            return ("(" + " ++ ".join(parts or ['""']) + ")", "String")
        if isinstance(node, ast.Call) and isinstance(node.func, ast.Name):
            fn = node.func.id
            if fn == "safe_max" and not node.keywords:
                args = [self.tr(a) for a in node.args]
                if all(t == "OptT" for _, t in args):
                    return ("(safeMax [" + ", ".join(a for a, _ in args) + "])", "OptT")
            if fn == "int" and len(node.args) == 1:
                e, t = self.tr(node.args[0])
                if t in ("Nat", "Int"):
                    return (e, t)
            self.err(node)
        self.err(node)

    def num(self, lt, rt, node):
        ts = {lt, rt} - {"Lit"}
        if not ts:
            return "Nat"
        if len(ts) == 1 and next(iter(ts)) in ("Nat", "Int"):
            return next(iter(ts))
        self.err(node, f"arithmetic on {lt}/{rt}")

    def truthy(self, node):
        """Python truthiness of an expression used as a condition."""
        e, t = self.tr(node)
        if t == "Bool":
            return e
        if t in ("Nat", "Int", "Lit"):
            return f"({e} != 0)"
        if t == "OptT":
            # a datetime is always truthy, so `x or ...` on Optional[datetime] is `x is not None`
            return f"({e}).isSome"
        self.err(node, f"truthiness of {t}")


def lean_str(s):
    out = []
    for ch in s:
        if ch == '"':
            out.append('\\"')
        elif ch == "\\":
            out.append("\\\\")
        elif ch == "\n":
            out.append("\\n")
        elif 32 <= ord(ch) < 127:
            out.append(ch)
        else:
            out.append("\\u{%x}" % ord(ch))
    return '"' + "".join(out) + '"'


def tr_block(stmts, ex: Expr, fragment):
    """Statements of the form  x = e | if c: ... (elif/else) | return e   ->  Lean term (let/if)."""
    if not stmts:
        raise TranslateError(fragment, "block without return")
    s, rest = stmts[0], stmts[1:]
    if isinstance(s, ast.Return):
        return ex.tr(s.value)[0]
    if isinstance(s, ast.Assign) and len(s.targets) == 1 and isinstance(s.targets[0], ast.Name):
        name = s.targets[0].id
        e, t = ex.tr(s.value)
        if t == "Lit":
            t = "Nat"
        lname = name + "'" if name in ex.env else name
        ex2 = Expr(fragment, dict(ex.env))
        ex2.env[name] = (lname, t)
        return f"let {lname} := {e}\n  " + tr_block(rest, ex2, fragment)
    if isinstance(s, ast.If):
        c = ex.truthy(s.test)
        # every branch either returns or falls through to `rest`
        a = tr_block(s.body + rest if not _returns(s.body) else s.body, ex, fragment)
        b = tr_block((s.orelse or []) + rest if not _returns(s.orelse) else s.orelse, ex, fragment)
        return f"if {c} then {a}\n  else {b}"
    raise TranslateError(fragment, f"unsupported statement: {ast.unparse(s)}")


def _returns(stmts):
    return bool(stmts) and isinstance(stmts[-1], ast.Return)


# ----------------------------------------------------------------------------------------------
# fragments
# ----------------------------------------------------------------------------------------------

PRELUDE = """/- GENERATED by harness/translate.py from /repo/src — do not edit.  Regenerated on every check. -/
"""


def gen_engine():
    F = "engine"
    tree = _module("_execution/run_function_on_graph.py")
    flags = {}
    notes = {}
    rf = _find_func(tree, "run_function_on_graph", F)
    body = [s for s in rf.body]
    flags["acyclicFirst"] = _same(body[0], "assert_acyclic(graph)")
    pn = _find_func(rf, "process_node", F)
    pb = [s for s in pn.body if not isinstance(s, ast.Nonlocal)]
    flags["stopCheckedBeforeFn"] = len(pb) >= 1 and _same(pb[0], "if stop:\n    return")
    tr = pb[1] if len(pb) >= 2 and isinstance(pb[1], ast.Try) else None
    flags["processNodeIsCheckThenTry"] = len(pb) == 2 and tr is not None
    flags["fnAloneInTry"] = bool(tr) and _same(tr.body, "fn(node)")
    h = tr.handlers[0] if tr and len(tr.handlers) == 1 else None
    flags["catchesBaseException"] = bool(h) and isinstance(h.type, ast.Name) and h.type.id == "BaseException"
    flags["noFinallyInProcessNode"] = bool(tr) and not tr.finalbody
    stop_cond = None
    if h and len(h.body) == 1 and isinstance(h.body[0], ast.With):
        w = h.body[0]
        flags["failureUnderLock"] = len(w.items) == 1 and _same(w.items[0].context_expr, "failure_lock")
        wb = w.body
        flags["failureBookkeeping"] = False
        if len(wb) == 3 and isinstance(wb[2], ast.If) and len(wb[2].body) == 1:
            flags["failureBookkeeping"] = (
                _same(wb[0], "error_count += 1")
                and _same(wb[1], "if not first_node_error:\n    first_node_error = coerce_node_error(node, exception)")
                and _same(wb[2].body[0], "stop = True") and not wb[2].orelse)
            stop_cond = wb[2].test
    else:
        flags["failureUnderLock"] = False
        flags["failureBookkeeping"] = False
    # the else-branch: the successor loop
    ready_cond = None
    loop = tr.orelse[0] if tr and len(tr.orelse) == 1 and isinstance(tr.orelse[0], ast.For) else None
    flags["enqueueOnlyInElse"] = bool(loop) and _same(loop.iter, "graph.successors(node)") and isinstance(loop.target, ast.Name) and loop.target.id == "successor"
    flags["singleParentBypass"] = False
    flags["decUnderLock"] = False
    if loop and len(loop.body) == 1 and isinstance(loop.body[0], ast.If):
        br = loop.body[0]
        flags["singleParentBypass"] = _same(br.test, "successor in single_parent_nodes") and len(br.body) == 1 and _same(
            br.body[0], "queue.put(successor)")
        if len(br.orelse) == 1 and isinstance(br.orelse[0], ast.With):
            w = br.orelse[0]
            ok = len(w.items) == 1 and _same(w.items[0].context_expr, "remaining_pred_count_lock")
            wb = w.body
            if ok and len(wb) == 2 and _same(wb[0], "remaining_pred_count_mapping[successor] -= 1") and isinstance(
                    wb[1], ast.If) and len(wb[1].body) == 1 and _same(wb[1].body[0], "queue.put(successor)") and not wb[1].orelse:
                flags["decUnderLock"] = True
                ready_cond = wb[1].test
        if ready_cond is None:
            # the zero test is somewhere else in the multi-parent branch (e.g. outside the lock): still translate it
            for n in ast.walk(ast.Module(body=br.orelse, type_ignores=[])):
                if isinstance(n, ast.If) and len(n.body) == 1 and _same(n.body[0], "queue.put(successor)"):
                    ready_cond = n.test
                    break
    # no other put / queue use in process_node
    puts = [n for n in ast.walk(pn) if isinstance(n, ast.Call) and _same(n.func, "queue.put")]
    flags["exactlyTwoPutSites"] = len(puts) == 2
    # fn(node) is not inside any `with`
    flags["fnOutsideLocks"] = not any(
        isinstance(w, ast.With) and any(isinstance(c, ast.Call) and _same(c.func, "fn") for c in ast.walk(w))
        for w in ast.walk(pn))
    # worker_thread / worker_pool / coordinator: whole-shape pins
    wt = _find_func(tree, "worker_thread", F)
    flags["workerLoopShape"] = _same(wt, '''
def worker_thread(queue, process_item):
    def process_items():
        while True:
            item = queue.get()
            try:
                if item is DONE:
                    return
                process_item(item)
            finally:
                queue.task_done()

    return thread(process_items)
''')
    wp = _find_func(tree, "worker_pool", F)
    flags["workerPoolShape"] = _same(wp, '''
@contextmanager
def worker_pool(queue, process_item, worker_count):
    workers = []
    try:
        for _ in range(worker_count):
            workers.append(worker_thread(queue, process_item))
        yield
    finally:
        for worker in workers:
            worker.join()
''')
    th = _find_func(tree, "thread", F)
    flags["threadStartShape"] = _same(th, "def thread(fn):\n    t = threading.Thread(target=fn)\n    t.start()\n    return t")
    coord = [s for s in body if isinstance(s, ast.With)]
    flags["coordinatorShape"] = len(coord) == 1 and _same(coord[0], '''
with worker_pool(queue, process_node, worker_count):
    try:
        queue.join()
    finally:
        stop = True
        for _ in range(worker_count):
            queue.put(DONE)
''')
    # between `assert_acyclic` and the coordinator block there is nothing but initialisations and `def process_node`: no early
    # return, no alternative path that runs the graph some other way (an inline runner for one worker, ...)
    mid = body[1:-2]
    flags["onlyInitBeforeCoordinator"] = (
        len(body) >= 4 and all(isinstance(x, ast.Assign) or x is pn for x in mid) and sum(x is pn for x in mid) == 1
        and not any(isinstance(n, (ast.Return, ast.Yield, ast.YieldFrom)) for x in mid if x is not pn for n in ast.walk(x)))
    cw = _find_func(tree, "coerce_worker_count", F)
    flags["coerceWorkerCountShape"] = _same(cw, '''
def coerce_worker_count(worker_count):
    if worker_count is None:
        worker_count = min(32, (os.cpu_count() or 1) + 4)
    worker_count = int(worker_count)
    if worker_count < 1:
        raise ValueError("worker_count must be at least 1.")
    return worker_count
''')
    flags["raisesFirstError"] = _same(body[-1], "if first_node_error:\n    raise first_node_error")
    flags["coordinatorIsLastButOne"] = len(body) >= 2 and isinstance(body[-2], ast.With)
    # initial state
    init_ok = True
    for code in ["remaining_pred_count_lock = threading.Lock()", "stop = False", "first_node_error = None",
                 "error_count = 0", "failure_lock = threading.Lock()",
                 "queue = create_queue(graph, source_nodes, scheduler)",
                 "worker_count = coerce_worker_count(worker_count)", "max_errors = coerce_max_errors(max_errors)"]:
        if not any(_same(s, code) for s in body):
            init_ok = False
            notes.setdefault("missingInit", []).append(code)
    flags["initialState"] = init_ok
    # prepare_nodes
    pr = _find_func(tree, "prepare_nodes", F)
    classify = None
    loopn = [s for s in pr.body if isinstance(s, ast.For)]
    flags["prepareNodesShape"] = False
    if len(loopn) == 1 and _same(loopn[0].iter, "graph") and len(loopn[0].body) == 2 and _same(
            loopn[0].body[0], "count = predecessor_count(graph, node)") and isinstance(loopn[0].body[1], ast.If):
        i1 = loopn[0].body[1]
        if (len(i1.body) == 1 and _same(i1.body[0], "source_nodes.append(node)") and len(i1.orelse) == 1
                and isinstance(i1.orelse[0], ast.If)):
            i2 = i1.orelse[0]
            if (len(i2.body) == 1 and _same(i2.body[0], "single_parent_nodes.add(node)") and len(i2.orelse) == 1
                    and _same(i2.orelse[0], "remaining_pred_count_mapping[node] = count")):
                flags["prepareNodesShape"] = True
                classify = (i1.test, i2.test)
    nu = _module("_util/networkx_util.py")
    pc = _find_func(nu, "predecessor_count", F)
    flags["predCountDistinct"] = _same(pc, "def predecessor_count(graph, node):\n    return len(graph.pred[node])")
    # coerce_node_error keeps identity / cause
    ce = _find_func(tree, "coerce_node_error", F)
    flags["coerceNodeError"] = _same(ce, '''
def coerce_node_error(node, exception):
    if isinstance(exception, NodeError):
        return exception
    node_error = NodeError(node)
    node_error.__cause__ = exception
    return node_error
''')
    # ---- premises of the reduction argument (DESIGN 3.2): which shared variable is written where
    def with_names(node, root):
        """names of the lock context managers enclosing `node` inside `root`"""
        out = []

        def walk(n, stack):
            if n is node:
                out.append(list(stack))
                return
            for ch in ast.iter_child_nodes(n):
                if isinstance(n, ast.With):
                    names = [ast.unparse(i.context_expr) for i in n.items]
                    walk(ch, stack + names if ch in n.body else stack)
                else:
                    walk(ch, stack)
        walk(root, [])
        return out[0] if out else []

    writes = {"error_count": [], "first_node_error": [], "stop": [], "remaining_pred_count_mapping": []}
    for n in ast.walk(pn):
        tgt = None
        if isinstance(n, ast.AugAssign):
            tgt = n.target
        elif isinstance(n, ast.Assign) and len(n.targets) == 1:
            tgt = n.targets[0]
        if tgt is None:
            continue
        name = tgt.id if isinstance(tgt, ast.Name) else (tgt.value.id if isinstance(tgt, ast.Subscript) and isinstance(tgt.value, ast.Name) else None)
        if name in writes:
            writes[name].append(with_names(n, pn))
    flags["errorStateWrittenOnlyUnderFailureLock"] = (
        all(w == ["failure_lock"] for w in writes["error_count"] + writes["first_node_error"] + writes["stop"])
        and len(writes["error_count"]) == 1 and len(writes["first_node_error"]) == 1 and len(writes["stop"]) == 1)
    flags["counterWrittenOnlyUnderCounterLock"] = (
        writes["remaining_pred_count_mapping"] == [["remaining_pred_count_lock"]])
    # reads of the counter also only under its lock; `stop` is read exactly once, first thing
    sub_reads = [n for n in ast.walk(pn) if isinstance(n, ast.Subscript) and isinstance(n.value, ast.Name)
                 and n.value.id == "remaining_pred_count_mapping" and isinstance(n.ctx, ast.Load)]
    flags["counterReadOnlyUnderCounterLock"] = all(with_names(n, pn) == ["remaining_pred_count_lock"] for n in sub_reads)
    stop_reads = [n for n in ast.walk(pn) if isinstance(n, ast.Name) and n.id == "stop" and isinstance(n.ctx, ast.Load)]
    flags["stopReadOnce"] = len(stop_reads) == 1
    # outside process_node: `stop` is assigned only at its initialisation and in the coordinator's finally
    outer_stop = [n for n in ast.walk(rf) if isinstance(n, ast.Assign) and len(n.targets) == 1 and isinstance(n.targets[0], ast.Name)
                  and n.targets[0].id == "stop" and not any(n is m for m in ast.walk(pn))]
    flags["stopAssignedTwiceOutside"] = len(outer_stop) == 2
    if stop_cond is None or ready_cond is None or classify is None:
        missing = [n for n, v in (("stop condition", stop_cond), ("zero test", ready_cond), ("prepare_nodes tests", classify)) if v is None]
        raise TranslateError(F, "cannot locate " + ", ".join(missing) + " (shape of process_node / prepare_nodes changed)")
    # translate the three conditions
    # stop condition: `max_errors is not None and error_count > max_errors`
    if not (isinstance(stop_cond, ast.BoolOp) and isinstance(stop_cond.op, ast.And) and len(stop_cond.values) == 2
            and _same(stop_cond.values[0], "max_errors is not None")):
        raise TranslateError(F, "stop condition is not `max_errors is not None and ...`: " + ast.unparse(stop_cond))
    ex = Expr(F, {"error_count": ("errorCount", "Nat"), "max_errors": ("m", "Nat")})
    stop_l = ex.tr(stop_cond.values[1])[0]
    ex = Expr(F, {"remaining_pred_count_mapping[successor]": ("r", "Nat")})
    ready_l = ex.tr(ready_cond)[0]
    ex = Expr(F, {"count": ("count", "Nat")})
    c0 = ex.tr(classify[0])[0]
    c1 = ex.tr(classify[1])[0]
    names = sorted(flags)
    out = [PRELUDE, "namespace Uberjob.Gen.Engine", "",
           "/-- Structural facts about run_function_on_graph.py (see harness/translate.py:gen_engine). -/",
           "structure Skeleton where"]
    out += [f"  {n} : Bool" for n in names]
    out += ["deriving Repr", "", "def skeleton : Skeleton where"]
    out += [f"  {n} := {'true' if flags[n] else 'false'}" for n in names]
    out += ["", "/-- Every fact has the value the hand-written `Engine` model assumes. -/",
            "def Skeleton.faithful (k : Skeleton) : Bool :=", "  " + " && ".join(f"k.{n}" for n in names), "",
            "/-- `" + ast.unparse(stop_cond) + "` -/",
            "def stopCond (errorCount : Nat) (maxErrors : Option Nat) : Bool :=",
            "  match maxErrors with", "  | none => false", f"  | some m => {stop_l}", "",
            "/-- `" + ast.unparse(ready_cond) + "` -/",
            f"def readyCond (r : Nat) : Bool := {ready_l}", "",
            "inductive Kind where", "  | source | single | multi", "deriving DecidableEq, Repr", "",
            "/-- prepare_nodes: `if " + ast.unparse(classify[0]) + "` / `elif " + ast.unparse(classify[1]) + "` / else -/",
            "def classify (count : Nat) : Kind :=",
            f"  if {c0} then .source else if {c1} then .single else .multi", "",
            "end Uberjob.Gen.Engine", ""]
    return "\n".join(out), {"flags": flags, "notes": notes, "source_hash": _h(_dump(tree))}


FRAGMENTS = {
    "Engine": gen_engine,
}


def _load_plugins():
    """Every module harness/gen/<name>.py may define FRAGMENTS = {"LeanModuleName": fn} (fn() -> (lean text, info))."""
    import importlib
    import pkgutil
    try:
        import harness.gen as pkg
    except ImportError:
        return
    for m in sorted(pkgutil.iter_modules(pkg.__path__), key=lambda m: m.name):
        mod = importlib.import_module("harness.gen." + m.name)
        for k, fn in getattr(mod, "FRAGMENTS", {}).items():
            FRAGMENTS.setdefault(k, fn)


def regenerate(only=None):
    """Regenerate Gen/*.lean.  Returns ({name: info}, {name: TranslateError}); a fragment that cannot be
    translated keeps its previous file and is reported (a broken correspondence for the properties using it)."""
    os.makedirs(GEN_DIR, exist_ok=True)
    _load_plugins()
    infos, errors = {}, {}
    for name, fn in FRAGMENTS.items():
        if only and name not in only:
            continue
        try:
            text, info = fn()
        except TranslateError as e:
            errors[name] = e
            continue
        except Exception as e:  # an unexpected shape deep inside a matcher
            errors[name] = TranslateError(name, f"{type(e).__name__}: {e}")
            continue
        path = os.path.join(GEN_DIR, name + ".lean")
        old = open(path).read() if os.path.exists(path) else None
        if old != text:
            with open(path, "w") as f:
                f.write(text)
        info["changed"] = old != text
        info["gen_hash"] = _h(text)
        infos[name] = info
    return infos, errors


if __name__ == "__main__":
    import json
    import sys
    sys.path.insert(0, os.path.dirname(os.path.dirname(os.path.abspath(__file__))))
    infos, errors = regenerate(sys.argv[1:] or None)
    print(json.dumps(infos, indent=1, default=str))
    for k, e in errors.items():
        print("TranslateError:", k, e)
    sys.exit(3 if errors else 0)
