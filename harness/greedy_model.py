"""T2 for the model of the default scheduler's priorities (lean/UberjobModel/Model/Greedy.lean, driver `greedy`).

For generated graphs - the graphs of generated user plans (calls, literals, argument / keyword / plain-dependency edges, parallel
edges) and the graphs the engine is really handed (physical plans of generated cache histories' plans, dry run) - the REAL
`greedy.get_priority_mapping(graph)` must give every node a priority, and the nodes in priority order must be what the model's
`order` computes from: the graph relabelled in a topological order, `graph.pred[v]` in its iteration order, the argument edges,
and the pseudo-sinks in the order the library's own condensation helpers put them.  The model's set of pseudo-sinks must be the
library's."""
from __future__ import annotations

import random

import networkx as nx

import uberjob
from uberjob._execution import greedy
from uberjob._util.networkx_util import topological_sort
from uberjob.graph import Dependency

from harness import plans


def request(graph):
    """(driver line, expected reply) for one graph, or None if it is not a DAG"""
    if not nx.is_directed_acyclic_graph(graph):
        return None
    label = {v: i for i, v in enumerate(nx.topological_sort(graph))}
    n = len(label)
    preds = " ".join("%d:%s" % (label[v], ",".join(str(label[p]) for p in graph.pred[v])) for v in graph.nodes if len(graph.pred[v]))
    args = sorted({(label[u], label[v]) for u, v, k in graph.edges(keys=True) if type(k) is not Dependency})
    cond, mapping = greedy.get_condensation_graph_and_mapping(graph)
    sinks = [node for rep in topological_sort(cond) for node in mapping[rep]
             if all(type(k) is Dependency for _, _, k in graph.out_edges(node, keys=True))]
    line = "greedy %d | %s | %s | %s" % (n, preds, " ".join("%d>%d" % e for e in args), " ".join(str(label[s]) for s in sinks))
    pm = greedy.get_priority_mapping(graph)
    if set(pm) != set(graph.nodes) or sorted(pm.values()) != list(range(n)):
        return line, "real: priorities %r do not number every node once" % sorted(pm.values())[:20], None
    order = [label[v] for v in sorted(pm, key=pm.get)]
    return line, "ok order=%s sinks=%s" % (" ".join(map(str, order)), " ".join(map(str, sorted(label[s] for s in sinks)))), n


def explore_greedy(ctx, n_plans):
    rng = random.Random(ctx.seed * 3119 + 11)
    lines, wants, dis = [], [], []
    stats = {"greedy_graphs": 0, "greedy_nodes": 0, "greedy_with_dependency_edges": 0, "greedy_physical_plans": 0}
    for i in range(n_plans):
        spec = plans.gen_spec(rng, nmax=9 if ctx.tier == "quick" else 16)
        plan, nodes, _ = plans.build(spec, plans.Rec(), {})
        graphs = [plan.graph]
        if i % 3 == 0 and nodes:
            # ... and the graph the engine is handed for this plan (a physical plan, after pruning)
            try:
                phys, _ = uberjob.run(plan, output=[nodes[k] for k in sorted(nodes)][:2], dry_run=True, progress=None)
                graphs.append(phys.graph)
                stats["greedy_physical_plans"] += 1
            except Exception:      # noqa: BLE001 - cyclic or otherwise rejected plans are not the subject here
                pass
        for g in graphs:
            r = request(g)
            if r is None:
                continue
            line, want, n = r
            if n is None:
                dis.append({"layer": "greedy", "what": want, "request": line})
                continue
            lines.append(line)
            wants.append(want)
            stats["greedy_graphs"] += 1
            stats["greedy_nodes"] += n
            stats["greedy_with_dependency_edges"] += any(type(k) is Dependency for _, _, k in g.edges(keys=True))
    if ctx.driver is not None and lines and not dis:
        for line, want, got in zip(lines, wants, ctx.driver.batch(lines)):
            if got.strip() != want:
                dis.append({"layer": "greedy", "what": "the default scheduler's priorities: model vs greedy.get_priority_mapping",
                            "request": line, "model": got.strip()[:300], "impl": want[:300]})
                break
    return {"violations": [], "disagreements": dis[:2], "coverage": stats}
