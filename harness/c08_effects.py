"""C08 / C03 on calls that work through SIDE EFFECTS, the documented use of `add_dependency`: a stored call `load` fills a table
(its stored value is only a marker), a stored call `summary` reads the table and is tied to `load` by `add_dependency` alone,
`report` is computed from `summary`.  The cache histories elsewhere use pure calls (Herbrand terms over ARGUMENT edges), for
which an ordering-only edge carries no value; here it does.  Deterministic, real library, in-memory stores on a logical clock:
run 0 completes, the raw input changes, run 1 is cut at one chosen point, run 2 is clean — afterwards every stored value and the
output must be what a from-scratch run on the new input gives, and a call whose store was completely written before the cut
must not run again."""
import datetime as dt

import uberjob
from uberjob import ValueStore

T0 = dt.datetime(2021, 1, 1, tzinfo=dt.timezone.utc)


class World:
    def __init__(self):
        self.clock = 0
        self.table = {}
        self.ran = []
        self.fail = None          # (name, "call" | "write-before" | "write-after")

    def tick(self):
        self.clock += 1
        return T0 + dt.timedelta(seconds=self.clock)


class Cut(Exception):
    pass


class Mem(ValueStore):
    def __init__(self, world, name):
        self.w, self.name, self.v, self.t = world, name, None, None

    def read(self):
        if self.t is None:
            raise FileNotFoundError(self.name)
        return self.v

    def write(self, value):
        if self.w.fail == (self.name, "write-before"):
            raise Cut(f"write of {self.name} fails before taking effect")
        self.v, self.t = value, self.w.tick()
        if self.w.fail == (self.name, "write-after"):
            raise Cut(f"write of {self.name} fails after taking effect")

    def get_modified_time(self):
        return self.t


def build(world, stores, variant):
    """-> plan, registry, output node.  Variants: 0 direct; 1 `summary` also takes a stored configuration as an argument;
    2 an unstored call sits between `load` and `summary` on the ordering path; 3 the ordering goes through a literal token."""
    plan, reg = uberjob.Plan(), uberjob.Registry()

    def call(name, fn, *args):
        def f(*a):
            if world.fail == (name, "call"):
                raise Cut(f"{name} fails")
            world.ran.append(name)
            return fn(*a)
        f.__name__ = name
        return plan.call(f, *args)

    def load_fn(raw):
        world.table["rows"] = [raw, raw * 2]
        return f"loaded {raw}"

    raw = reg.source(plan, stores["raw"])
    load = call("load", load_fn, raw)
    reg.add(load, stores["load"])
    if variant == 1:
        cfg = call("cfg", lambda: 100)
        reg.add(cfg, stores["cfg"])
        summary = call("summary", lambda c: c + sum(world.table["rows"]), cfg)
    else:
        summary = call("summary", lambda: sum(world.table["rows"]))
    if variant == 2:
        mid = call("check", lambda: world.table["rows"][0])
        plan.add_dependency(load, mid)
        plan.add_dependency(mid, summary)
    elif variant == 3:
        token = plan.lit("loaded")
        plan.add_dependency(load, token)
        plan.add_dependency(token, summary)
    else:
        plan.add_dependency(load, summary)
    reg.add(summary, stores["summary"])
    report = call("report", lambda s: f"total={s}", summary)
    reg.add(report, stores["report"])
    return plan, reg, report


NAMES = ("raw", "load", "cfg", "summary", "report")
CUTS = [(n, k) for n in ("summary", "report") for k in ("call", "write-before", "write-after")] + [("load", "write-after")]


def play(variant, cut, workers):
    world = World()
    stores = {n: Mem(world, n) for n in NAMES}
    stores["raw"].write(5)
    plan, reg, out = build(world, stores, variant)
    kw = dict(registry=reg, progress=None, max_workers=workers)
    uberjob.run(plan, output=out, **kw)
    stores["raw"].write(10)
    world.fail = cut
    del world.ran[:]
    try:
        uberjob.run(plan, output=out, **kw)
        cut_happened = False
    except Exception:       # noqa: BLE001
        cut_happened = True
    ran1 = list(world.ran)
    written1 = {n for n in NAMES if n != "raw" and stores[n].t is not None and stores[n].t > stores["raw"].t}
    world.fail = None
    del world.ran[:]
    got = uberjob.run(plan, output=out, **kw)
    ran2 = list(world.ran)
    # from scratch on the new input
    w2 = World()
    s2 = {n: Mem(w2, n) for n in NAMES}
    s2["raw"].write(10)
    p2, r2, o2 = build(w2, s2, variant)
    want = uberjob.run(p2, output=o2, registry=r2, progress=None, max_workers=1)
    bad = []
    if got != want:
        bad.append(f"the run after the cut returned {got!r}; from scratch: {want!r}")
    for n in NAMES:
        if stores[n].t is not None and s2[n].t is not None and stores[n].v != s2[n].v:
            bad.append(f"stored value {n!r} is {stores[n].v!r} after the repairing run; from scratch: {s2[n].v!r}")
    # "completely written before the cut" and consistent: written in run 1 by a call that itself ran in run 1
    for n in sorted(written1):
        if n in ran1 and n in ran2 and cut != (n, "write-after"):
            bad.append(f"{n!r} was completely written before the cut and was computed again by the next run")
    return bad, cut_happened


def side_effect_cases(ctx, replay=None):
    viol, done, cuts = [], 0, 0
    cases = [tuple(replay["effect_case"])] if replay else [(v, c, w) for v in (0, 1, 2, 3) for c in range(len(CUTS)) for w in (1, 3)]
    for v, c, w in cases:
        bad, happened = play(v, CUTS[c], w)
        done += 1
        cuts += happened
        if bad:
            viol.append({"property": "C08", "what": f"side-effect plan (variant {v}: load fills a table, summary reads it and is tied to "
                         f"load by add_dependency only), input changed, run cut at {CUTS[c][0]}/{CUTS[c][1]}, max_workers={w}: " + bad[0],
                         "replay_fn": "side_effects", "effect_case": [v, c, w]})
            break
    return {"violations": viol, "coverage": {"side_effect_histories": done, "side_effect_cuts_taken": cuts}}
