"""T2 for the JSON model (lean/UberjobModel/Model/Json.lean, driver `json enc` / `json dec`).

* ENCODER: for generated JSON values (None, bool, ints of every size class, finite floats as `repr` writes them, strings over every code-point
  class incl. control characters, lone surrogates and surrogate PAIRS, lists and dicts nested up to depth 6, empty
  containers) the text the REAL `JsonFileStore(path).write(v)` leaves in the file must be, code point for code point, the
  model's `render` with the options the translator read off the source (`json enc gen gen`); and the model's other layouts
  (`compact`, `indent:0|1|2|7`, ensure_ascii on/off) must be `json.dumps(v, indent=…, ensure_ascii=…)`.
* DECODER: what the REAL `JsonFileStore(path).read()` returns for arbitrary file content - encoder outputs, encoder outputs
  with characters deleted / inserted / replaced from a JSON-biased alphabet, and a fixed list of boundary texts (every
  escape, upper/lower-case hex, surrogate pairs and halves, duplicate keys, leading zeros, `-0`, white space of every kind,
  trailing commas, BOM, raw control characters, truncated literals, extra data) - must be the model's `parse`: the same
  value (type-strict, dict order included; a float by the float its text denotes, sign of zero included) or a rejection on
  both sides.  Inputs on which the model answers `float` (one of the three non-finite literals: outside the model) are skipped
  and counted.
"""
from __future__ import annotations

import json
import os

from harness.props import _store_common as sc


def cps(s):
    return " ".join(str(ord(c)) for c in s)


def show_str(s):
    """as Uberjob.TextCodecDrv.showStr"""
    if len(s) <= 4096:
        return cps(s)
    return "#%d:%d" % (len(s), sc.hash_nats(ord(c) for c in s))


def has_nonfinite(v):
    """NaN / Infinity / -Infinity somewhere inside: the three float literals the model leaves out"""
    if isinstance(v, float):
        return v != v or v in (float("inf"), float("-inf"))
    if isinstance(v, (list, tuple)):
        return any(has_nonfinite(x) for x in v)
    if isinstance(v, dict):
        return any(has_nonfinite(x) for x in v.values())
    return False


def from_tokens(ts):
    """the driver's prefix notation -> a Python value (floats through float(text))"""
    def go(i):
        t = ts[i]
        if t == "n":
            return None, i + 1
        if t == "t":
            return True, i + 1
        if t == "f":
            return False, i + 1
        if t.startswith("i"):
            return int(t[1:]), i + 1
        if t.startswith("F"):
            return float(t[1:]), i + 1
        if t == "S":
            k = int(ts[i + 1])
            return "".join(chr(int(c)) for c in ts[i + 2:i + 2 + k]), i + 2 + k
        if t == "A":
            k, j, out = int(ts[i + 1]), i + 2, []
            for _ in range(k):
                x, j = go(j)
                out.append(x)
            return out, j
        if t == "O":
            k, j, out = int(ts[i + 1]), i + 2, {}
            for _ in range(k):
                key, j = go(j)
                x, j = go(j)
                out[key] = x
            return out, j
        raise ValueError(t)
    v, j = go(0)
    if j != len(ts):
        raise ValueError("trailing tokens")
    return v


def same(a, b):
    """type-strict, order-strict equality; floats by their repr (so that 0.0 and -0.0 differ)"""
    if type(a) is not type(b):
        return False
    if type(a) is float:
        return repr(a) == repr(b)
    if type(a) is list:
        return len(a) == len(b) and all(same(x, y) for x, y in zip(a, b))
    if type(a) is dict:
        return list(a.keys()) == list(b.keys()) and all(same(a[k], b[k]) for k in a)
    return a == b


def term(v):
    """the driver's prefix notation"""
    if v is None:
        return ["n"]
    if v is True:
        return ["t"]
    if v is False:
        return ["f"]
    if type(v) is int:
        return ["i%d" % v]
    if type(v) is float:
        if has_nonfinite(v):
            raise TypeError(v)
        return ["F" + repr(v)]
    if type(v) is str:
        return ["S", str(len(v))] + [str(ord(c)) for c in v]
    if type(v) is list:
        out = ["A", str(len(v))]
        for x in v:
            out += term(x)
        return out
    if type(v) is dict:
        out = ["O", str(len(v))]
        for k, x in v.items():
            if type(k) is not str:
                raise TypeError(k)
            out += term(k) + term(x)
        return out
    raise TypeError(type(v))


def gen_str(rng, n):
    """any Python str: pairs of surrogates allowed (the encoder is exact on them too)"""
    if rng.random() < 0.25:
        return "".join(rng.choice(['"', "\\", "/", "\b", "\f", "\n", "\r", "\t", "\x00", "\x1f", " ", "~", "\x7f", "\x80", "\xff",
                                   "\u2028", "\ud800", "\udbff", "\udc00", "\udfff", "\uffff", "\U00010000", "\U0010ffff", "a"])
                       for _ in range(rng.randint(0, n)))
    return sc.gen_text(rng, "utf-8", n, allow_surrogate=rng.random() < 0.3)


def gen_value(rng, depth=0):
    k = rng.random()
    if depth >= 6 or k < 0.5:
        c = rng.randrange(8)
        if c == 0:
            return None
        if c == 1:
            return rng.random() < 0.5
        if c == 2:
            return rng.choice([0, 1, -1, 9, 10, -10, 99, 100, 2 ** 31, -2 ** 63, 10 ** 30, -(10 ** 40) + 1, rng.randint(-10 ** 6, 10 ** 6),
                               rng.randint(-10 ** 25, 10 ** 25)])
        if c == 3:
            return rng.choice([0.0, -0.0, 1.0, 1.5, -2.5e-07, 1e300, 1e+16, 1e16 + 2.0, 5e-324, 1.7976931348623157e308, 0.1, 100.0, 1e22, 1e21,
                               123456789.123, rng.uniform(-1e9, 1e9), rng.random() * 10 ** rng.randint(-30, 30), float(rng.randint(-1000, 1000))])
        return gen_str(rng, 12)
    if k < 0.76:
        return [gen_value(rng, depth + 1) for _ in range(rng.choice([0, 1, 1, 2, 3, 5]))]
    d = {}
    for _ in range(rng.choice([0, 1, 1, 2, 3, 5])):
        d[gen_str(rng, 6)] = gen_value(rng, depth + 1)
    return d


FIXED_TEXTS = [
    "", " ", "null", " null ", "\tnull\r\n", "nul", "nulll", "true", "false", "tru", "fals", "True", "None", "NaN", "Infinity", "-Infinity",
    "-Inf", "N", "I", "-", "-a", "0", "-0", "00", "01", "-01", "1", "10", "1234567890123456789012345678901234567890", "-12", "+1", "1 2", "1,",
    "1.", "1.5", "1e5", "1E5", "1e", "0.0", "0e0", "-0.0", "[1.5]", "{\"a\": 1e3}", "1x", "0x10", "1_0", "٣",
    "\"\"", "\"a\"", "\"a", "\"", "\"a\"b", "\"\\\"\"", "\"\\\\\"", "\"\\/\"", "\"\\b\\f\\n\\r\\t\"", "\"\\a\"", "\"\\x41\"", "\"\\u0041\"",
    "\"\\u00e9\"", "\"\\u00E9\"", "\"\\uD83D\\uDE00\"", "\"\\ud83d\\ude00\"", "\"\\ud83d\"", "\"\\ude00\"", "\"\\ude00\\ud83d\"", "\"\\ud83d\\u0041\"",
    "\"\\ud83dx\"", "\"\\ud83d\\n\"", "\"\\ud83d\\ud83d\\ude00\"", "\"\\ud83d\\ude0\"", "\"\\ud83d\\ude0g\"", "\"\\ud83d\\u\"", "\"\\ud83d\\", "\"\\ud83d\\ude00",
    "\"\\u004\"", "\"\\u004g\"", "\"\\u 041\"", "\"\\u+041\"", "\"\\u0x41\"", "\"\\U0041\"", "\"\\u\"", "\"\\", "\"a\nb\"", "\"a\tb\"", "\"a\x00b\"", "\"a\x1fb\"",
    "\"a\x7fb\"", "\"\u00e9\"", "\"\U0001f600\"", "\"\u2028\"", "'a'", "\"a\" \"b\"",
    "[]", "[ ]", "[\n]", "[1]", "[1,2]", "[1, 2]", "[1 ,2]", "[ 1 , 2 ]", "[1,]", "[,1]", "[,]", "[1,,2]", "[1 2]", "[", "]", "[1", "[1,", "[[]]", "[[],[]]",
    "[[[[[[[[[[1]]]]]]]]]]", "[null, true, false]", "[\"a\", \"b\"]", "[1]]", "[1] x", "[1]\n\n",
    "{}", "{ }", "{\"a\":1}", "{\"a\" : 1}", "{\"a\":1,\"b\":2}", "{\"a\":1,}", "{,}", "{\"a\"}", "{\"a\":}", "{\"a\" 1}", "{a:1}", "{1:1}", "{\"a\":1 \"b\":2}",
    "{\"a\":1,\"a\":2}", "{\"a\":1,\"b\":2,\"a\":3}", "{\"a\":{\"a\":1,\"a\":2},\"a\":3}", "{\"\":1}", "{\"a\":1", "{", "}", "{\"a\":[1,{\"b\":null}]}", "{\"\\u0061\":1,\"a\":2}",
    "{\"a\":1}}", "{\n    \"k\": [\n        1,\n        2\n    ]\n}", "\ufeff1", "\ufeff", "1\ufeff", "\u00a01", "\u20281", "\x0b1", "\x0c1", "1\x00", "\x001",
]

ALPHABET = list("[]{},:\"\\ \n\t\r0123456789-+.eEnulltruefalsNaIinity/bfrtuUxdD8cC09aAfF") + ["\x00", "\x1f", "\x7f", "\u00e9", "\U0001f600", "\ufeff"]


def mutate(rng, s):
    s = list(s)
    for _ in range(rng.choice([1, 1, 1, 2, 3])):
        k = rng.random()
        pos = rng.randint(0, len(s))
        if k < 0.35 and s:
            del s[min(pos, len(s) - 1)]
        elif k < 0.7:
            s.insert(pos, rng.choice(ALPHABET))
        elif s:
            s[min(pos, len(s) - 1)] = rng.choice(ALPHABET)
    return "".join(s)


def universal(text):
    return text.replace("\r\n", "\n").replace("\r", "\n")


def real_read(text):
    """what the REAL JsonFileStore.read() does with a file holding `text` (utf-8); None if the text cannot be a utf-8 file"""
    try:
        raw = text.encode("utf-8")
    except UnicodeEncodeError:
        return None
    with sc.scratch_dir("c12j") as d:
        p = os.path.join(d, "value")
        with open(p, "wb") as f:
            f.write(raw)
        try:
            return ("ok", sc.make_store("JsonFileStore", p, "utf-8").read())
        except json.JSONDecodeError:
            return ("err", None)
        except RecursionError:
            return ("limit", None)
        except ValueError as e:          # the int <-> str digit limit
            return ("limit", None) if "limit" in str(e) else ("raise", repr(e))


def explore_json(ctx, rng, stats, disagreements, n_values, n_mut):
    if ctx.driver is None:
        return
    values = [gen_value(rng) for _ in range(n_values)]
    values += [[1.5, -0.0, 1e300, {"x": 5e-324}], 2.5, [], {}, [[]], {"": {}}, "", "\ud800\udc00", {"\ud800": "\udc00"}, sc.nested_json(60), 10 ** 4000, -(10 ** 200), ["\x7f\x80"],
               {"k": [1, {"z": None, "a": [True, False]}]}]
    # ---- encoder: the real store's file == render with the source's options
    lines, want, meta = [], [], []
    for v in values:
        with sc.scratch_dir("c12j") as d:
            p = os.path.join(d, "value")
            sc.make_store("JsonFileStore", p, "utf-8").write(v)
            with open(p, encoding="utf-8", newline="") as f:
                text = f.read()
        lines.append("json enc gen gen | " + " ".join(term(v)))
        want.append("ok " + show_str(text))
        meta.append(("store", v))
        lay, n, asc = rng.choice([("compact", None, True), ("compact", None, False), ("indent:0", 0, True), ("indent:1", 1, False),
                                  ("indent:2", 2, True), ("indent:7", 7, False), ("indent:4", 4, False)])
        lines.append("json enc %s %d | " % (lay, asc) + " ".join(term(v)))
        want.append("ok " + show_str(json.dumps(v, indent=n, ensure_ascii=asc)))
        meta.append((lay + (" ascii" if asc else " unicode"), v))
    for ln, w, (how, v), got in zip(lines, want, meta, ctx.driver.batch(lines)):
        stats["json_encoder_comparisons"] = stats.get("json_encoder_comparisons", 0) + 1
        if got.strip() != w.strip():
            disagreements.append({"layer": "json-encoder", "case": {"how": how, "value": json.dumps(v)[:400]}, "impl": w[:300], "model": got.strip()[:300]})
            return
    # ---- decoder
    texts = list(FIXED_TEXTS)
    dumped = [json.dumps(v, indent=rng.choice([None, 4, 4, 1]), ensure_ascii=rng.random() < 0.7) for v in values if len(str(v)) < 3000]
    texts += dumped
    for _ in range(n_mut):
        texts.append(mutate(rng, rng.choice(dumped) if rng.random() < 0.8 else rng.choice(FIXED_TEXTS)))
    lines, real, kept = [], [], []
    for t in texts:
        r = real_read(t)
        if r is None:
            try:
                r = ("ok", json.loads(t))
            except json.JSONDecodeError:
                r = ("err", None)
            except (RecursionError, ValueError):
                r = ("limit", None)
            fed = t
        else:
            fed = universal(t)       # the file is opened with universal newlines (Gen.TextCodec.jsonReadNewline)
        if r[0] == "limit":
            stats["json_decoder_cpython_limits"] = stats.get("json_decoder_cpython_limits", 0) + 1
            continue
        lines.append("json dec | " + cps(fed))
        real.append(r)
        kept.append(t)
    for t, r, got in zip(kept, real, ctx.driver.batch(lines)):
        got = got.strip()
        if got == "float":
            stats["json_decoder_float_skipped"] = stats.get("json_decoder_float_skipped", 0) + 1
            continue
        agree = None
        if r[0] == "ok":
            w = "ok " + json.dumps(r[1])[:200]
            if got.startswith("ok "):       # (a literal too large for a double is read as inf; so is the model's text, by float())
                try:
                    agree = same(from_tokens(got[3:].split()), r[1])
                except (ValueError, IndexError):
                    agree = False
            else:
                agree = False
        else:
            w = r[0] if r[0] == "err" else "raise " + str(r[1])
            agree = got == w
        stats["json_decoder_comparisons"] = stats.get("json_decoder_comparisons", 0) + 1
        stats["json_decoder_" + ("accepts" if r[0] == "ok" else "rejects")] = stats.get("json_decoder_" + ("accepts" if r[0] == "ok" else "rejects"), 0) + 1
        stats["json_decoder_floats"] = stats.get("json_decoder_floats", 0) + (" F" in got or got.startswith("ok F"))
        if not agree:
            disagreements.append({"layer": "json-decoder", "case": {"text": [ord(c) for c in t][:400]}, "impl": w[:300], "model": got[:300]})
            return
