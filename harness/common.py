"""Shared plumbing of ./check: paths, Lean build/audit, driver process, evidence, violations, known findings."""
from __future__ import annotations

import fcntl
import hashlib
import json
import os
import re
import subprocess
import sys
import time

VERIF = os.path.dirname(os.path.dirname(os.path.abspath(__file__)))
LEAN = os.path.join(VERIF, "lean")
DRIVER = os.path.join(LEAN, ".lake", "build", "bin", "driver")
# runs against a scratch copy of the repository (VERIF_REPO set: seeded changes, sweeps) must not overwrite the evidence
# and replays of the registered checks
_SCRATCH = os.environ.get("VERIF_REPO") not in (None, "", "/repo")
EVIDENCE = os.path.join("/tmp/verif_scratch_out", "evidence") if _SCRATCH else os.path.join(VERIF, "evidence")
REPLAYS = os.path.join("/tmp/verif_scratch_out", "replays") if _SCRATCH else os.path.join(VERIF, "replays")
REPO = os.environ.get("VERIF_REPO", "/repo")
ALLOWED_AXIOMS = {"propext", "Classical.choice", "Quot.sound"}
FORBIDDEN = re.compile(r"\b(sorry|admit|native_decide|bv_decide|implemented_by|unsafe)\b|^\s*axiom\s|maxHeartbeats\s+0\b")

TRUSTED_BASE = [
    "Lean 4.33.0 kernel (thorough tier: leanchecker re-check of the property modules)",
    "axioms allowed in property theorems: propext, Classical.choice, Quot.sound (audited with #print axioms on every run); "
    "no sorry/admit/axiom/native_decide/bv_decide/implemented_by/unsafe (grep on every run)",
    "T1 translator harness/translate.py: pinned-shape ast->Lean for the listed fragments (Gen/*.lean regenerated on every run)",
    "T2/T3 harness: generators, canonicalisation, cooperative scheduler harness/coop.py, trace recorder",
    "modelled not verified: CPython (GIL atomicity of single dict/set/list ops, queue.Queue, threading, heapq, random, exceptions/finally), "
    "networkx MultiDiGraph adjacency, the OS file API; user call functions return or raise in finite time",
]


class Broken(Exception):
    """A proof obligation or a correspondence no longer checks (not by itself a violation)."""

    def __init__(self, kind, name, detail=""):
        super().__init__(f"{kind}:{name}")
        self.kind, self.name, self.detail = kind, name, detail


def assert_working_tree():
    import uberjob
    want = os.path.join(REPO, "src")
    if not os.path.abspath(uberjob.__file__).startswith(want):
        print(f"check: uberjob imported from {uberjob.__file__}, expected {want} (set PYTHONPATH={want})", file=sys.stderr)
        sys.exit(2)


class _Flock:
    def __init__(self, path):
        self.path = path

    def __enter__(self):
        self.f = open(self.path, "w")
        fcntl.flock(self.f, fcntl.LOCK_EX)

    def __exit__(self, *a):
        fcntl.flock(self.f, fcntl.LOCK_UN)
        self.f.close()


def lake_lock():
    return _Flock(os.path.join(LEAN, ".verif-lock"))


def sh(cmd, cwd=None, timeout=None, env=None):
    return subprocess.run(cmd, shell=isinstance(cmd, str), cwd=cwd, capture_output=True, text=True, timeout=timeout, env=env)


def lake_build(targets, timeout=1500):
    """Returns (ok, output, failing declarations/modules)."""
    with lake_lock():
        r = sh(["lake", "build"] + list(targets), cwd=LEAN, timeout=timeout)
    out = r.stdout + r.stderr
    bad = []
    if r.returncode != 0:
        for m in re.finditer(r"error: ([\w/\.]+\.lean):(\d+):(\d+)", out):
            bad.append((m.group(1), int(m.group(2))))
    return r.returncode == 0, out, bad


def decl_at(path, line):
    """Name of the theorem/def enclosing `line` of a Lean file (for reporting a broken obligation)."""
    try:
        src = open(os.path.join(LEAN, path)).read().splitlines()
    except OSError:
        return f"{path}:{line}"
    for i in range(min(line, len(src)) - 1, -1, -1):
        m = re.match(r"\s*(?:@\[[^\]]*\]\s*)?(?:private\s+|protected\s+)?(theorem|lemma|def|example|instance|abbrev)\s+([^\s:({\[]+)?", src[i])
        if m:
            return f"{m.group(2) or 'example'} ({path}:{line})"
    return f"{path}:{line}"


def audit(prop_module_file):
    """Run the Audit file (one `#print axioms` per property theorem); returns {theorem: [axioms]}."""
    with lake_lock():
        r = sh(["lake", "env", "lean", prop_module_file], cwd=LEAN, timeout=600)
    out = r.stdout + r.stderr
    res = {}
    for m in re.finditer(r"'([^']+)' depends on axioms: \[([^\]]*)\]", out):
        res[m.group(1)] = [a.strip() for a in m.group(2).replace("\n", " ").split(",") if a.strip()]
    for m in re.finditer(r"'([^']+)' does not depend on any axioms", out):
        res[m.group(1)] = []
    return res, out, r.returncode


def import_closure(module):
    """Files (relative to lean/) that `module` transitively imports from this project, itself included."""
    seen, todo = [], [module]
    while todo:
        m = todo.pop()
        rel = m.replace(".", "/") + ".lean"
        if rel in seen or not os.path.exists(os.path.join(LEAN, rel)):
            continue
        seen.append(rel)
        for line in open(os.path.join(LEAN, rel)):
            mm = re.match(r"\s*(?:public\s+)?import\s+(UberjobModel\.[\w\.]+)", line)
            if mm:
                todo.append(mm.group(1))
    return seen


def grep_forbidden(prop=None):
    """Forbidden tokens in every project file the property's theorems depend on (and in the driver's closure)."""
    hits = []
    files = import_closure(f"UberjobModel.Props.{prop}") if prop else None
    if files is not None:
        for line in open(os.path.join(LEAN, "Driver.lean")):
            mm = re.match(r"\s*import\s+(UberjobModel\.[\w\.]+)", line)
            if mm:
                for f in import_closure(mm.group(1)):
                    if f not in files:
                        files.append(f)
        files.append("Driver.lean")
        walk = [(LEAN, None, files)]
    else:
        walk = os.walk(LEAN)
    for root, _, fl in walk:
        if ".lake" in root:
            continue
        for fn in fl:
            if not fn.endswith(".lean"):
                continue
            p = os.path.join(root, fn)
            incomment = 0
            for i, line in enumerate(open(p), 1):
                code = line
                # strip block comments (coarse but sufficient: our sources do not nest them on one line)
                out = ""
                j = 0
                while j < len(code):
                    if code.startswith("/-", j):
                        incomment += 1
                        j += 2
                    elif code.startswith("-/", j) and incomment:
                        incomment -= 1
                        j += 2
                    else:
                        if not incomment:
                            out += code[j]
                        j += 1
                out = out.split("--")[0]
                out = re.sub(r'"(?:[^"\\]|\\.)*"', '""', out)
                if FORBIDDEN.search(out):
                    hits.append(f"{os.path.relpath(p, LEAN)}:{i}: {line.strip()}")
    return hits


class Driver:
    """One driver process; requests are batched."""

    def __init__(self):
        if not os.path.exists(DRIVER):
            raise Broken("build", "driver", "driver executable missing")

    def batch(self, lines):
        r = subprocess.run([DRIVER], input="\n".join(lines) + "\n", capture_output=True, text=True, timeout=600)
        out = r.stdout.splitlines()
        if len(out) != len(lines):
            raise Broken("correspondence", "driver-protocol", f"{len(lines)} requests, {len(out)} replies; stderr={r.stderr[:300]}")
        return out


def stable_hash(obj):
    return hashlib.sha256(json.dumps(obj, sort_keys=True, default=str).encode()).hexdigest()[:12]


def write_replay(prop, payload):
    os.makedirs(REPLAYS, exist_ok=True)
    path = os.path.join(REPLAYS, f"{prop}-{stable_hash(payload)}.json")
    with open(path, "w") as f:
        json.dump(payload, f, indent=1, default=str)
    return path


def load_known():
    p = os.path.join(VERIF, "known_findings.json")
    if not os.path.exists(p):
        return []
    return json.load(open(p)).get("findings", [])


def write_evidence(prop, tier, seed, coverage, wall, violations=0, assumptions=None, level="proof"):
    os.makedirs(EVIDENCE, exist_ok=True)
    ev = {
        "property_id": prop, "tier": tier, "seed": int(seed), "level": level,
        "coverage": coverage, "assumptions": assumptions or [], "wall_s": round(wall, 2), "violations": violations,
    }
    with open(os.path.join(EVIDENCE, f"{prop}.json"), "w") as f:
        json.dump(ev, f, indent=1, default=str)
    return ev


class Timer:
    def __init__(self):
        self.t0 = time.time()

    def s(self):
        return time.time() - self.t0


# ----------------------------------------------------------------------------------------------------------------------
# real-thread runs of the library must not be able to hang the check: C07 (termination) is decided here, not by a time-out of
# whoever called the check
HUNG = []


def bounded(fn, seconds=30.0):
    """Run `fn()` on a daemon thread.  ("ok", value) / ("raised", exception) / ("hung", stacks of the threads that are still
    there) after `seconds`.  A hung run is recorded in HUNG: the check then leaves through os._exit."""
    import sys
    import threading
    import traceback
    box = {}

    def body():
        try:
            box["ok"] = fn()
        except BaseException as e:      # noqa: BLE001
            box["raised"] = e

    before = set(threading.enumerate())
    t = threading.Thread(target=body, daemon=True, name="bounded-run")
    t.start()
    t.join(seconds)
    if t.is_alive():
        frames = sys._current_frames()
        stacks = []
        for th in threading.enumerate():
            if th not in before and th.ident in frames:
                top = traceback.extract_stack(frames[th.ident])[-3:]
                stacks.append("%s: %s" % (th.name, " < ".join("%s:%d %s" % (os.path.basename(f.filename), f.lineno, f.name) for f in reversed(top))))
        HUNG.append(stacks)
        return "hung", stacks
    if "raised" in box:
        return "raised", box["raised"]
    return "ok", box.get("ok")
