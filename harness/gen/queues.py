"""T1 fragment: the ready-queue classes of scheduler.py (what `queue.get()` may return and what `put` does)."""
from harness.translate import PRELUDE, TranslateError, _dump, _find_class, _find_func, _h, _module, _same


def gen_queues():
    F = "Queues"
    t = _module("_execution/scheduler.py")
    facts = {}
    rq = _find_class(t, "RandomQueue", F)
    facts["randomInit"] = _same(_find_func(rq, "__init__", F), '''
def __init__(self, initial_items):
    super().__init__()
    self.queue = list(initial_items)
    random.shuffle(self.queue)
    self.unfinished_tasks = len(self.queue)
''')
    facts["randomPut"] = _same(_find_func(rq, "_put", F), '''
def _put(self, item):
    # Online Fisher-Yates shuffle
    self.queue.append(item)
    i = random.randrange(len(self.queue))
    self.queue[i], self.queue[-1] = self.queue[-1], self.queue[i]
''')
    facts["randomGet"] = _same(_find_func(rq, "_get", F), "def _get(self):\n    return self.queue.pop()")
    facts["randomQsize"] = _same(_find_func(rq, "_qsize", F), "def _qsize(self):\n    return len(self.queue)")
    pq = _find_class(t, "PriorityQueue", F)
    facts["priorityInit"] = _same(_find_func(pq, "__init__", F), '''
def __init__(self, initial_items, priority):
    super().__init__()
    self.queue = [KeyValuePair(priority(item), item) for item in initial_items]
    heapify(self.queue)
    self.unfinished_tasks = len(self.queue)
    self.priority = priority
''')
    facts["priorityPut"] = _same(_find_func(pq, "_put", F),
                                 "def _put(self, item):\n    heappush(self.queue, KeyValuePair(self.priority(item), item))")
    facts["priorityGet"] = _same(_find_func(pq, "_get", F), "def _get(self):\n    return heappop(self.queue).value")
    facts["simpleQueue"] = _same(_find_func(t, "create_simple_queue", F), '''
def create_simple_queue(initial_items):
    queue = Queue()
    queue.queue = deque(initial_items)
    queue.unfinished_tasks = len(queue.queue)
    return queue
''')
    facts["createQueue"] = _same(_find_func(t, "create_queue", F), '''
def create_queue(graph, initial_items, scheduler):
    scheduler = scheduler or "default"
    if scheduler == "cheap":
        return create_simple_queue(initial_items)
    if scheduler == "random":
        return RandomQueue(initial_items)
    if scheduler == "default":
        priority_mapping = greedy.get_priority_mapping(graph)
        # The priority mapping has priorities [0, n).
        # Setting the default priority to -1 gives the DONE sentinel highest priority.
        return PriorityQueue(initial_items, lambda node: priority_mapping.get(node, -1))
    raise ValueError(f"Invalid scheduler {scheduler!r}")
''')
    names = sorted(facts)
    out = [PRELUDE, "namespace Uberjob.Gen.Queues", "", "structure Facts where"]
    out += [f"  {n} : Bool" for n in names]
    out += ["deriving Repr", "", "def facts : Facts where"]
    out += [f"  {n} := {'true' if facts[n] else 'false'}" for n in names]
    out += ["", "def Facts.ok (k : Facts) : Bool :=", "  " + " && ".join(f"k.{n}" for n in names), "",
            "end Uberjob.Gen.Queues", ""]
    return "\n".join(out), {"flags": facts, "source_hash": _h(_dump(t))}


FRAGMENTS = {"Queues": gen_queues}
