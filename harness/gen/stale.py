"""T1 fragment: the stale condition of `_get_stale_nodes.process_no_stale_ancestor` (caching.py) and the
literal-pruning inequality of `_prune_literal_if_trivial` (pruning.py)."""
import ast

from harness.translate import PRELUDE, Expr, TranslateError, _dump, _find_func, _h, _module, _same


def gen_stale():
    F = "Stale"
    tree = _module("_transformations/caching.py")
    gs = _find_func(tree, "_get_stale_nodes", F)
    pn = _find_func(gs, "process_no_stale_ancestor", F)
    body = pn.body
    facts = {}
    # shape of process_no_stale_ancestor
    ok = (len(body) == 6
          and _same(body[0], """
max_ancestor_modified_time = safe_max(
    modified_time_lookup[predecessor].value
    for predecessor in plan.graph.predecessors(node)
)""")
          and _same(body[1], "value_store = registry.get(node)")
          and _same(body[2], """
if value_store is None:
    modified_time_lookup[node].value = max_ancestor_modified_time
    return""")
          and _same(body[3], "modified_time = _to_naive_utc_time(retry(value_store.get_modified_time)())")
          and _same(body[4], """
if modified_time is None:
    stale_lookup[node].value = True
    return""")
          and isinstance(body[5], ast.If)
          and _same(body[5].body, "stale_lookup[node].value = True\nreturn") and not body[5].orelse)
    if not ok or len(body) != 6:
        # the last statement `modified_time_lookup[node].value = modified_time` makes 7 statements
        pass
    if not (len(body) == 7 and _same(body[6], "modified_time_lookup[node].value = modified_time")
            and isinstance(body[5], ast.If) and _same(body[5].body, "stale_lookup[node].value = True\nreturn")
            and not body[5].orelse
            and _same(body[1], "value_store = registry.get(node)")
            and _same(body[3], "modified_time = _to_naive_utc_time(retry(value_store.get_modified_time)())")):
        raise TranslateError(F, "process_no_stale_ancestor no longer has the pinned shape")
    facts["unregisteredPassesAncestorTime"] = _same(body[2], """
if value_store is None:
    modified_time_lookup[node].value = max_ancestor_modified_time
    return""")
    facts["missingIsStale"] = _same(body[4], """
if modified_time is None:
    stale_lookup[node].value = True
    return""")
    facts["ancestorTimeIsSafeMaxOfPreds"] = _same(body[0], """
max_ancestor_modified_time = safe_max(
    modified_time_lookup[predecessor].value
    for predecessor in plan.graph.predecessors(node)
)""")
    cond = body[5].test
    ex = Expr(F, {
        "max_ancestor_modified_time": ("anc", "OptT"),
        "modified_time": ("(some mt)", "OptT"),
        "fresh_time": ("fresh", "OptT"),
        "registry.mapping[node].is_source": ("isSource", "Bool"),
    })
    cond_l = ex.tr(cond)[0]
    # process(): stale if any predecessor is stale, else process_no_stale_ancestor
    pr = _find_func(gs, "process", F)
    facts["staleAncestorPropagates"] = _same(pr, """
def process(node):
    has_stale_ancestor = any(
        stale_lookup[predecessor].value
        for predecessor in plan.graph.predecessors(node)
    )
    if has_stale_ancestor:
        stale_lookup[node].value = True
    else:
        process_no_stale_ancestor(node)
""")
    facts["freshTimeConverted"] = any(_same(s, "fresh_time = _to_naive_utc_time(fresh_time)") for s in gs.body)
    facts["prunesUnregisteredSourceLiteralsOnCopy"] = any(_same(s, """
plan = prune_source_literals(
    plan, inplace=False, predicate=lambda node: node not in registry
)""") for s in gs.body)
    facts["returnsStaleSet"] = _same(gs.body[-1], "return {k for k, v in stale_lookup.items() if v.value}")
    facts["staleCheckUsesCheapScheduler"] = any(_same(s, """
run_function_on_graph(
    plan.graph, process_with_callbacks, worker_count=max_workers, scheduler="cheap"
)""") for s in gs.body)
    util = _module("_util/__init__.py")
    sm = _find_func(util, "safe_max", F)
    facts["safeMaxShape"] = _same(sm, """
def safe_max(*args):
    iterable = args[0] if len(args) == 1 else args
    return max((value for value in iterable if value is not None), default=None)
""")
    # pruning inequality
    pr_tree = _module("_transformations/pruning.py")
    pl = _find_func(pr_tree, "_prune_literal_if_trivial", F)
    keep = None
    for s in pl.body:
        if isinstance(s, ast.If) and _same(s.body, "return") and not s.orelse and isinstance(s.test, ast.Compare) \
                and {n.id for n in ast.walk(s.test) if isinstance(n, ast.Name)} == {"m", "n"}:
            keep = s.test
    if keep is None:
        raise TranslateError(F, "cannot locate the `if m * n > m + n: return` test in _prune_literal_if_trivial")
    keep_l = Expr(F, {"m": ("m", "Nat"), "n": ("n", "Nat")}).tr(keep)[0]
    facts["pruneLiteralShape"] = _same(pl, """
def _prune_literal_if_trivial(plan, literal):
    if not all(
        type(dependency) is Dependency
        for _, _, dependency in plan.graph.out_edges(literal, keys=True)
    ):
        return

    predecessors = list(plan.graph.predecessors(literal))
    successors = list(plan.graph.successors(literal))

    m = len(predecessors)
    n = len(successors)

    if %s:
        return

    for predecessor, successor in itertools.product(predecessors, successors):
        plan.graph.add_edge(predecessor, successor, Dependency())
    plan.graph.remove_node(literal)
""" % ast.unparse(keep))
    psl = _find_func(pr_tree, "prune_source_literals", F)
    facts["pruneSourceLiteralsShape"] = _same(psl, """
def prune_source_literals(plan, *, inplace, predicate=None):
    plan = get_mutable_plan(plan, inplace=inplace)
    graph = plan.graph
    source_literals = [
        node for node in graph if type(node) is Literal and is_source_node(graph, node)
    ]
    if predicate:
        source_literals = [node for node in source_literals if predicate(node)]
    for node in source_literals:
        graph.remove_node(node)
    return plan
""")
    nu = _module("_util/networkx_util.py")
    isn = _find_func(nu, "is_source_node", F)
    facts["isSourceNodeShape"] = _same(isn, """
def is_source_node(graph, node):
    return not graph.pred[node]
""") or _same(isn, """
def is_source_node(graph, node):
    return graph.in_degree(node) == 0
""")
    names = sorted(facts)
    out = [PRELUDE, "namespace Uberjob.Gen.Stale", "",
           "/-- `safe_max`: maximum of the values that are not None, None if there is none. -/",
           "def safeMax : List (Option Int) → Option Int",
           "  | [] => none",
           "  | none :: t => safeMax t",
           "  | some a :: t => match safeMax t with",
           "    | none => some a",
           "    | some b => some (if a < b then b else a)", "",
           "/-- `a > b` on optional times; `none` never occurs on the left where the source uses it",
           "    (the maximum includes `modified_time`, which is not None there). -/",
           "def optGt : Option Int → Option Int → Bool",
           "  | some a, some b => decide (a > b)",
           "  | _, _ => false", "",
           "/-- `" + " ".join(ast.unparse(cond).split()) + "` -/",
           "def staleCond (mt : Int) (anc fresh : Option Int) (isSource : Bool) : Bool :=",
           "  " + cond_l, "",
           "/-- `_prune_literal_if_trivial` keeps the literal iff `" + ast.unparse(keep) + "` -/",
           "def keepLiteral (m n : Nat) : Bool := " + keep_l, "",
           "structure Facts where"]
    out += [f"  {n} : Bool" for n in names]
    out += ["deriving Repr", "", "def facts : Facts where"]
    out += [f"  {n} := {'true' if facts[n] else 'false'}" for n in names]
    out += ["", "def Facts.ok (k : Facts) : Bool :=", "  " + " && ".join(f"k.{n}" for n in names), "",
            "end Uberjob.Gen.Stale", ""]
    return "\n".join(out), {"flags": facts, "source_hash": _h(_dump(gs) + _dump(pl) + _dump(sm))}


FRAGMENTS = {"Stale": gen_stale}
