"""T1 plug-in for C16: src/uberjob/_execution/run_physical.py (+ the Slot class of _util/__init__.py)
->  lean/UberjobModel/Gen/Refs.lean  (namespace Uberjob.Gen.Refs).

Records WHICH REFERENCES uberjob creates to result slots and WHERE it drops them:
result_lookup maps a Literal to itself and every other node to a fresh Slot; a BoundCall holds the slots of its
argument predecessors and its own result slot; bound_call_lookup wraps each BoundCall in a Slot; the wrapper is
emptied (`bound_call.value = None`) in a `finally` after the call; the slot table is a local of
`_create_bound_call_lookup_and_output_slot` that nothing captures or returns; `prep_run_physical` returns
(bound_call_lookup, output_slot, process, plan) and `run_physical` keeps output_slot / process.
"""
from __future__ import annotations

import ast

from harness.translate import PRELUDE, TranslateError, _dump, _find_class, _find_func, _h, _module, _same

F = "Refs"


def _names_loaded(node):
    return {n.id for n in ast.walk(node) if isinstance(n, ast.Name) and isinstance(n.ctx, ast.Load)}


def _names_stored(node):
    out = set()
    for n in ast.walk(node):
        if isinstance(n, ast.Name) and isinstance(n.ctx, (ast.Store, ast.Del)):
            out.add(n.id)
        elif isinstance(n, ast.arg):
            out.add(n.arg)
    return out


def _drop_position(process):
    """Where is `bound_call.value = None` relative to the `try` that contains the call?
    -> ('finally' | 'else' | 'after' | 'body'), the Try node."""
    drops = [n for n in ast.walk(process) if isinstance(n, ast.Assign) and _same(n, "bound_call.value = None")]
    if len(drops) != 1:
        raise TranslateError(F, f"expected exactly one `bound_call.value = None` in process, found {len(drops)}")
    d = drops[0]
    tries = [n for n in ast.walk(process) if isinstance(n, ast.Try)
             and any(_same(c, "bound_call.value.run(node.fn, retry)") for s in n.body for c in ast.walk(s))]
    if len(tries) != 1:
        raise TranslateError(F, "cannot find the single try whose body runs `bound_call.value.run(node.fn, retry)`")
    t = tries[0]

    def inside(stmts):
        return any(d is c for s in stmts for c in ast.walk(s))

    if inside(t.finalbody):
        # it must be a top-level statement of the finally (not under an `if`)
        if not any(d is s for s in t.finalbody):
            raise TranslateError(F, "`bound_call.value = None` is nested inside the finally block")
        return "finally", t
    if inside(t.orelse):
        return "else", t
    if inside(t.body):
        return "body", t
    for h in t.handlers:
        if inside(h.body):
            raise TranslateError(F, "`bound_call.value = None` sits in an except handler")
    return "after", t


def gen_refs():
    tree = _module("_execution/run_physical.py")
    util = _module("_util/__init__.py")
    flags = {}
    notes = {}

    # ---- Slot / BoundCall classes
    slot = _find_class(util, "Slot", F)
    flags["slotClassShape"] = _same(slot, '''
class Slot:
    __slots__ = ("value",)

    def __init__(self, value=None):
        self.value = value
''')
    bc = _find_class(tree, "BoundCall", F)
    flags["boundCallClassShape"] = _same(bc, '''
class BoundCall:
    __slots__ = ("args", "kwargs", "result")

    def __init__(self, args, kwargs, result):
        self.args = args
        self.kwargs = kwargs
        self.result = result

    def run(self, fn, retry):
        args = [arg.value for arg in self.args]
        kwargs = {name: arg.value for name, arg in self.kwargs.items()}
        self.result.value = retry(fn)(*args, **kwargs)
''')
    # ---- _create_bound_call: the BoundCall holds result_lookup[predecessor] for every argument and result_lookup[call]
    cbc = _find_func(tree, "_create_bound_call", F)
    flags["boundCallHoldsArgAndResultSlots"] = _same(cbc, '''
def _create_bound_call(graph, call, result_lookup):
    args, kwargs = get_argument_nodes(graph, call)
    args = [result_lookup[predecessor] for predecessor in args]
    kwargs = {name: result_lookup[predecessor] for name, predecessor in kwargs.items()}
    result = result_lookup[call]
    return BoundCall(args, kwargs, result)
''')
    # ---- _create_bound_call_lookup_and_output_slot
    cr = _find_func(tree, "_create_bound_call_lookup_and_output_slot", F)
    body = [s for s in cr.body if not (isinstance(s, ast.Expr) and isinstance(s.value, ast.Constant))]
    if len(body) != 4:
        raise TranslateError(F, f"_create_bound_call_lookup_and_output_slot has {len(body)} statements, expected 4")
    s_tab, s_look, s_out, s_ret = body
    if not (isinstance(s_tab, ast.Assign) and len(s_tab.targets) == 1 and isinstance(s_tab.targets[0], ast.Name)
            and isinstance(s_tab.value, ast.DictComp)):
        raise TranslateError(F, "first statement is not `<table> = {… for node in plan.graph.nodes()}`")
    table = s_tab.targets[0].id
    dc = s_tab.value
    flags["tableOverAllNodes"] = (len(dc.generators) == 1 and _same(dc.generators[0].iter, "plan.graph.nodes()")
                                  and isinstance(dc.generators[0].target, ast.Name)
                                  and dc.generators[0].target.id == "node" and not dc.generators[0].ifs
                                  and _same(dc.key, "node"))
    v = dc.value
    if not isinstance(v, ast.IfExp):
        raise TranslateError(F, "table value is not a conditional expression: " + ast.unparse(v))
    flags["literalIsSelf"] = _same(v.test, "type(node) is Literal") and _same(v.body, "node")
    flags["otherNodesGetFreshSlot"] = _same(v.orelse, "Slot(None)")
    flags["lookupWrapsBoundCallInSlot"] = _same(s_look, f'''
bound_call_lookup = {{
    node: Slot(_create_bound_call(plan.graph, node, {table}))
    for node in plan.graph.nodes()
    if type(node) is Call
}}
''')
    flags["outputSlotIsTableEntry"] = _same(s_out, f"output_slot = {table}[output_node] if output_node else None")
    flags["createReturnsLookupAndOutput"] = _same(s_ret, "return bound_call_lookup, output_slot")
    # the table is a plain local: loaded only in the two places above, never stored elsewhere, no nested def/lambda,
    # not global/nonlocal
    uses = [n for n in ast.walk(cr) if isinstance(n, ast.Name) and n.id == table]
    nested = [n for n in ast.walk(cr) if n is not cr and isinstance(n, (ast.FunctionDef, ast.Lambda, ast.ClassDef))]
    decl = [n for n in ast.walk(cr) if isinstance(n, (ast.Global, ast.Nonlocal))]
    flags["tableIsLocal"] = (len(uses) == 3 and not nested and not decl and table not in _names_loaded(s_ret)
                             and not cr.decorator_list)
    notes["table"] = table
    # ---- prep_run_physical
    prep = _find_func(tree, "prep_run_physical", F)
    pbody = prep.body
    flags["prepUnpacksCreate"] = any(_same(s, '''
bound_call_lookup, output_slot = _create_bound_call_lookup_and_output_slot(plan, output_node)
''') for s in pbody)
    flags["prepReturnShape"] = _same(pbody[-1], "return PrepRunPhysical(bound_call_lookup, output_slot, process, plan)")
    process = _find_func(prep, "process", F)
    pos, t = _drop_position(process)
    notes["dropPosition"] = pos
    flags["dropInFinally"] = pos == "finally"
    flags["entryReadFromLookup"] = any(_same(s, "bound_call = bound_call_lookup[node]") for s in ast.walk(process))
    flags["callAloneInTry"] = _same(t.body, "bound_call.value.run(node.fn, retry)")
    # free variables of `process` (what its closure keeps alive): names it loads that are bound in prep_run_physical
    bound_in_prep = _names_stored(ast.Module(body=[s for s in pbody if s is not process], type_ignores=[])) | {
        a.arg for a in prep.args.args + prep.args.kwonlyargs}
    own = _names_stored(process)
    free = sorted((_names_loaded(process) - own) & bound_in_prep)
    notes["processFreeVars"] = free
    flags["processCapturesOnlyLookup"] = free == ["bound_call_lookup", "progress_observer", "retry"]
    # `process` never touches `.result` / `.args` / `.kwargs` of a BoundCall itself and stores nothing else
    attrs = sorted({n.attr for n in ast.walk(process) if isinstance(n, ast.Attribute)})
    notes["processAttrs"] = attrs
    flags["processAttrsPinned"] = attrs == ["__traceback__", "fn", "increment_completed", "increment_failed",
                                            "increment_running", "run", "tb_next", "value"]
    # ---- run_physical
    rp = _find_func(tree, "run_physical", F)
    rb = [s for s in rp.body if not (isinstance(s, ast.Expr) and isinstance(s.value, ast.Constant))]
    flags["runPhysicalShape"] = len(rb) == 3 and _same(rb[0], '''
_, output_slot, process, plan = prep_run_physical(
    plan, output_node=output_node, retry=retry, inplace=inplace, progress_observer=progress_observer)
''') and _same(rb[1], '''
run_function_on_graph(plan.graph, process, worker_count=max_workers, max_errors=max_errors, scheduler=scheduler)
''') and _same(rb[2], "return output_slot.value if output_slot else None")
    # ---- no module-level mutable state in run_physical.py (nothing could retain results between or during runs)
    top_assign = [s for s in tree.body if isinstance(s, (ast.Assign, ast.AugAssign, ast.AnnAssign))
                  and not _same(s, '__all__ = ["prep_run_physical", "run_physical"]')]
    flags["noModuleState"] = not top_assign

    drop_on_ok = pos in ("finally", "else", "after", "body")
    drop_on_fail = pos == "finally"
    names = sorted(flags)
    out = [PRELUDE, "namespace Uberjob.Gen.Refs", "",
           "/-- Structural facts about run_physical.py (see harness/gen/refs.py). -/",
           "structure Facts where"]
    out += [f"  {n} : Bool" for n in names]
    out += ["deriving Repr, DecidableEq", "", "def facts : Facts where"]
    out += [f"  {n} := {'true' if flags[n] else 'false'}" for n in names]
    out += ["", "/-- Every fact has the value the hand-written `Refs` model assumes. -/",
            "def Facts.faithful (k : Facts) : Bool :=", "  " + " && ".join(f"k.{n}" for n in names), "",
            f"/-- `bound_call.value = None` sits in the `{pos}` part of the try around the call. -/",
            f"def dropOnOk : Bool := {'true' if drop_on_ok else 'false'}",
            f"def dropOnFail : Bool := {'true' if drop_on_fail else 'false'}",
            "/-- the slot table (`" + table + "`) is a plain local of `_create_bound_call_lookup_and_output_slot`: not returned,",
            "    not captured by a closure, not stored anywhere. -/",
            f"def tableLocal : Bool := {'true' if flags['tableIsLocal'] and flags['createReturnsLookupAndOutput'] else 'false'}",
            "", "end Uberjob.Gen.Refs", ""]
    return "\n".join(out), {"flags": flags, "notes": notes, "source_hash": _h(_dump(tree) + _dump(slot))}


FRAGMENTS = {"Refs": gen_refs}
