"""T1 plug-in for C13: where the run / render paths copy the caller's Plan and which objects they write afterwards
->  lean/UberjobModel/Gen/Purity.lean  (namespace Uberjob.Gen.Purity).

Extracted from the AST of _run.py, _transformations/{__init__,caching,pruning}.py, _execution/run_physical.py,
_plan.py, _registry.py, _rendering.py:

* the `inplace` flag every transformation is given, in program order (the Lean `runProg` is built from them);
* `run`: the first statement that touches `plan` after validation is `plan = get_mutable_plan(plan, inplace=False)`;
  `plan` is only ever rebound to the result of a transformation of that copy;
* `_get_stale_nodes` prunes `prune_source_literals(plan, inplace=False, …)`, i.e. a further copy;
* `_add_value_store`: the only attribute assignment is `call.scope = …` on the value `plan._call(...)` just returned;
* no function on the run path writes a Registry / RegistryValue;
* `Plan.copy` = new Plan with `graph.copy()`; `Registry.copy` copies every RegistryValue; `get_mutable_plan`;
* `render` copies the GRAPH (`MultiDiGraph.copy`) before filtering/grouping and mutates only that copy.

Anything of an unknown shape raises TranslateError.
"""
from __future__ import annotations

import ast

from harness.translate import PRELUDE, TranslateError, _dump, _find_class, _find_func, _h, _module, _same

F = "Purity"

GRAPH_MUTATORS = {"add_node", "add_nodes_from", "remove_node", "remove_nodes_from", "add_edge", "add_edges_from",
                  "add_weighted_edges_from", "remove_edge", "remove_edges_from", "clear", "clear_edges", "update"}
DICT_MUTATORS = {"pop", "popitem", "clear", "update", "setdefault", "__setitem__", "__delitem__"}


def _method(tree, cls, name):
    c = _find_class(tree, cls, F)
    for n in c.body:
        if isinstance(n, ast.FunctionDef) and n.name == name:
            return n
    raise TranslateError(F, f"method {cls}.{name} not found")


def _body(fn):
    return [s for s in fn.body if not (isinstance(s, ast.Expr) and isinstance(s.value, ast.Constant)
                                        and isinstance(s.value.value, str))]


def _uses(node, name):
    return any(isinstance(n, ast.Name) and n.id == name for n in ast.walk(node))


def _calls_named(node, fname):
    return [n for n in ast.walk(node) if isinstance(n, ast.Call) and isinstance(n.func, ast.Name) and n.func.id == fname]


def _inplace_of(call, what):
    """The `inplace=` keyword of a call: True / False / 'param' (the enclosing function's own flag is handed on)."""
    for k in call.keywords:
        if k.arg == "inplace":
            if isinstance(k.value, ast.Constant) and isinstance(k.value.value, bool):
                return k.value.value
            if isinstance(k.value, ast.Name) and k.value.id == "inplace":
                return "param"
            raise TranslateError(F, f"{what}: inplace={ast.unparse(k.value)} is neither a constant nor the parameter")
    raise TranslateError(F, f"{what}: no inplace= keyword in {ast.unparse(call)[:80]}")


def _one(calls, what):
    if len(calls) != 1:
        raise TranslateError(F, f"{what}: expected exactly one call, found {len(calls)}")
    return calls[0]


def _attr_assign_targets(fn):
    """Every `x.attr = …`, `x.attr op= …`, `x[...] = …`, `del x.attr`, `setattr(...)` inside fn."""
    out = []
    for n in ast.walk(fn):
        tg = []
        if isinstance(n, ast.Assign):
            tg = n.targets
        elif isinstance(n, (ast.AugAssign, ast.AnnAssign)):
            tg = [n.target]
        elif isinstance(n, ast.Delete):
            tg = n.targets
        elif isinstance(n, (ast.For, ast.comprehension)):
            tg = [n.target]
        elif isinstance(n, ast.With):
            tg = [i.optional_vars for i in n.items if i.optional_vars is not None]
        elif isinstance(n, ast.Call) and isinstance(n.func, ast.Name) and n.func.id in ("setattr", "delattr"):
            out.append(ast.unparse(n))
        for t in tg:
            for x in ast.walk(t):
                if isinstance(x, (ast.Attribute, ast.Subscript)) and isinstance(x.ctx, (ast.Store, ast.Del)):
                    out.append(ast.unparse(x))
    return sorted(out)


def _mutating_graph_calls(fn):
    """receiver texts of every `<recv>.<graph mutator>(…)` call inside fn"""
    out = []
    for n in ast.walk(fn):
        if isinstance(n, ast.Call) and isinstance(n.func, ast.Attribute) and n.func.attr in GRAPH_MUTATORS:
            out.append(ast.unparse(n.func.value) + "." + n.func.attr)
    return sorted(out)


def _registry_writes(tree):
    """Anything in the module that could write a Registry or a RegistryValue."""
    hits = []
    for n in ast.walk(tree):
        if isinstance(n, ast.Call) and isinstance(n.func, ast.Attribute):
            recv = ast.unparse(n.func.value)
            if n.func.attr in ("add", "source") and "registry" in recv.lower():
                hits.append(ast.unparse(n)[:60])
            if n.func.attr in DICT_MUTATORS and "mapping" in recv:
                hits.append(ast.unparse(n)[:60])
        tg = []
        if isinstance(n, ast.Assign):
            tg = n.targets
        elif isinstance(n, (ast.AugAssign, ast.AnnAssign)):
            tg = [n.target]
        elif isinstance(n, ast.Delete):
            tg = n.targets
        for t in tg:
            for x in ast.walk(t):
                if isinstance(x, ast.Attribute) and isinstance(x.ctx, (ast.Store, ast.Del)) and (
                        x.attr in ("mapping", "value_store", "is_source", "stack_frame") or "registry" in ast.unparse(x.value).lower()):
                    hits.append(ast.unparse(x))
                if isinstance(x, ast.Subscript) and isinstance(x.ctx, (ast.Store, ast.Del)) and (
                        "mapping" in ast.unparse(x.value) or "registry" in ast.unparse(x.value).lower()):
                    hits.append(ast.unparse(x))
    return hits


def gen_purity():
    runm = _module("_run.py")
    trans = _module("_transformations/__init__.py")
    cach = _module("_transformations/caching.py")
    prun = _module("_transformations/pruning.py")
    phys = _module("_execution/run_physical.py")
    planm = _module("_plan.py")
    regm = _module("_registry.py")
    rend = _module("_rendering.py")
    flags, notes, vals = {}, {}, {}

    # ------------------------------------------------------------------ get_mutable_plan / Plan.copy / Registry.copy
    flags["getMutablePlanShape"] = _same(_find_func(trans, "get_mutable_plan", F), '''
def get_mutable_plan(plan, *, inplace):
    return plan if inplace else plan.copy()
''')
    flags["planCopyShape"] = _same(_method(planm, "Plan", "copy"), '''
def copy(self):
    new_plan = Plan()
    new_plan.graph = self.graph.copy()
    return new_plan
''')
    init = _method(planm, "Plan", "__init__")
    init = ast.FunctionDef(name=init.name, args=init.args, body=_body(init), decorator_list=init.decorator_list,
                           returns=None, type_comment=None, lineno=0, col_offset=0,
                           **({"type_params": []} if hasattr(init, "type_params") else {}))
    flags["planInitShape"] = _same(init, '''
def __init__(self):
    self.graph = Graph()
    self._scope = ()
    self._scope_lock = RLock()
''')
    flags["planScopeShape"] = _same(_method(planm, "Plan", "scope"), '''
@contextmanager
def scope(self, *args):
    with self._scope_lock:
        parent_scope = self._scope
        child_scope = parent_scope + args
        self._scope = child_scope
        try:
            yield
        finally:
            if self._scope != child_scope:
                raise Exception("Plan scopes must be entered and exited in stack order.")
            self._scope = parent_scope
''')
    flags["graphIsMultiDiGraph"] = any(_same(s, "Graph = nx.MultiDiGraph") for s in _module("graph.py").body)
    flags["registryCopyShape"] = _same(_method(regm, "Registry", "copy"), '''
def copy(self):
    new_registry = Registry()
    new_registry.mapping = {
        node: copy.copy(registry_value)
        for node, registry_value in self.mapping.items()
    }
    return new_registry
''') and any(_same(s, "import copy") for s in regm.body)
    flags["registryValueShape"] = _same(_find_class(regm, "RegistryValue", F), '''
class RegistryValue:
    __slots__ = ("value_store", "is_source", "stack_frame")

    def __init__(self, value_store, *, is_source, stack_frame):
        self.value_store = value_store
        self.is_source = is_source
        self.stack_frame = stack_frame
''')
    # Plan methods write only `self.graph` (through add_node/add_edge) and `self._scope`; nodes they touch are new
    plan_cls = _find_class(planm, "Plan", F)
    plan_writes = sorted({t for m in plan_cls.body if isinstance(m, ast.FunctionDef) for t in _attr_assign_targets(m)})
    notes["planAttrWrites"] = plan_writes
    flags["planMethodsWriteOnlySelf"] = plan_writes == ["new_plan.graph", "self._scope", "self._scope_lock", "self.graph"]
    plan_mut = sorted({t for m in plan_cls.body if isinstance(m, ast.FunctionDef) for t in _mutating_graph_calls(m)})
    notes["planGraphMutators"] = plan_mut
    flags["planMethodsMutateOwnGraph"] = plan_mut == ["self.graph.add_edge", "self.graph.add_node"]

    # ------------------------------------------------------------------ run
    run = _find_func(runm, "run", F)
    body = _body(run)
    touching = [s for s in body if _uses(s, "plan")]
    if len(touching) < 2:
        raise TranslateError(F, "run: fewer than two statements mention `plan`")
    flags["runValidatesPlanFirst"] = _same(touching[0], 'assert_is_instance(plan, "plan", Plan)')
    first = touching[1]
    is_copy_stmt = (isinstance(first, ast.Assign) and len(first.targets) == 1
                    and isinstance(first.targets[0], ast.Name) and first.targets[0].id == "plan"
                    and isinstance(first.value, ast.Call) and isinstance(first.value.func, ast.Name)
                    and first.value.func.id == "get_mutable_plan" and len(first.value.args) == 1
                    and _same(first.value.args[0], "plan"))
    if not is_copy_stmt:
        raise TranslateError(F, "run: the first statement touching `plan` after validation is not "
                                "`plan = get_mutable_plan(plan, inplace=…)`: " + ast.unparse(first)[:100])
    vals["runFirstInplace"] = _inplace_of(first.value, "run/get_mutable_plan")
    if vals["runFirstInplace"] == "param":
        raise TranslateError(F, "run has no inplace parameter")
    # every (re)binding of `plan` in run
    binds = []
    for n in ast.walk(run):
        if isinstance(n, ast.Assign):
            for t in n.targets:
                if any(isinstance(x, ast.Name) and x.id == "plan" and isinstance(x.ctx, ast.Store) for x in ast.walk(t)):
                    binds.append(ast.unparse(n.value.func) if isinstance(n.value, ast.Call) else ast.unparse(n.value))
        elif isinstance(n, (ast.AugAssign, ast.AnnAssign, ast.For, ast.With, ast.NamedExpr)):
            t = n.target if not isinstance(n, ast.With) else None
            if t is not None and any(isinstance(x, ast.Name) and x.id == "plan" for x in ast.walk(t)):
                binds.append("?" + type(n).__name__)
    notes["runPlanBindings"] = binds
    flags["runRebindsPlanOnlyFromCopy"] = binds == ["get_mutable_plan", "plan_with_value_stores", "transform_physical"]
    nested = [n for n in ast.walk(run) if n is not run and isinstance(n, (ast.FunctionDef, ast.Lambda, ast.ClassDef))]
    flags["runHasNoClosure"] = not nested
    pw = _one(_calls_named(run, "plan_with_value_stores"), "run/plan_with_value_stores")
    pp = _one(_calls_named(run, "prune_plan"), "run/prune_plan")
    rph = _one(_calls_named(run, "run_physical"), "run/run_physical")
    vals["runPwvsInplace"] = _inplace_of(pw, "run/plan_with_value_stores")
    vals["runPruneInplace"] = _inplace_of(pp, "run/prune_plan")
    vals["runPhysInplace"] = _inplace_of(rph, "run/run_physical")
    flags["runPassesWorkingPlan"] = all(len(c.args) >= 1 and _same(c.args[0], "plan") for c in (pw, pp, rph))
    flags["runGatherOnWorkingPlan"] = len([n for n in ast.walk(run) if isinstance(n, ast.Call) and _same(
        n.func, "plan._gather")]) == 1
    # the registry is only validated, tested for truth and handed to plan_with_value_stores
    reg_uses = [ast.unparse(s)[:50] for s in ast.walk(run) if isinstance(s, ast.Name) and s.id == "registry"]
    flags["runReadsRegistryOnly"] = len(reg_uses) == 3 and not _registry_writes(run)
    flags["runAttrWritesNone"] = _attr_assign_targets(run) == []
    # order of the pieces inside `with progress_observer:`
    order = []
    for n in ast.walk(run):
        if isinstance(n, ast.Call) and isinstance(n.func, ast.Name) and n.func.id in (
                "get_mutable_plan", "plan_with_value_stores", "prune_plan", "transform_physical", "_update_run_totals",
                "run_physical"):
            order.append((n.lineno, n.col_offset, n.func.id))
    order = [x[2] for x in sorted(order)]
    notes["runOrder"] = order
    flags["runOrder"] = order == ["get_mutable_plan", "plan_with_value_stores", "prune_plan", "transform_physical",
                                  "_update_run_totals", "run_physical"]
    flags["dryRunReturnsWorkingPlan"] = any(_same(n, "if dry_run:\n    return plan, redirected_output_node")
                                            for n in ast.walk(run))

    # ------------------------------------------------------------------ plan_with_value_stores / _get_stale_nodes / _add_value_store
    pwvs = _find_func(cach, "plan_with_value_stores", F)
    gm = _one(_calls_named(pwvs, "get_mutable_plan"), "plan_with_value_stores/get_mutable_plan")
    vals["pwvsCopyInplace"] = _inplace_of(gm, "plan_with_value_stores/get_mutable_plan")
    pb = _body(pwvs)
    flags["pwvsShape"] = (_same(pb[0], "_update_stale_totals(plan, registry, progress_observer)")
                          and _same(pb[1], "plan = get_mutable_plan(plan, inplace=inplace)")
                          and isinstance(pb[2], ast.Assign) and isinstance(pb[2].value, ast.Call)
                          and _same(pb[2].value.func, "_get_stale_nodes")
                          and len(pb[2].value.args) == 2 and _same(pb[2].value.args[0], "plan"))
    vals["pwvsPruneInplace"] = _inplace_of(_one(_calls_named(pwvs, "prune_plan"), "plan_with_value_stores/prune_plan"),
                                           "plan_with_value_stores/prune_plan")
    avs_calls = _calls_named(pwvs, "_add_value_store")
    flags["pwvsAddsStoresToWorkingPlan"] = len(avs_calls) == 1 and _same(avs_calls[0].args[0], "plan")
    flags["pwvsLoopsOverRegistryMapping"] = any(isinstance(n, ast.For) and _same(n.iter, "registry.mapping.items()")
                                                for n in ast.walk(pwvs))
    order = sorted((n.lineno, n.col_offset, n.func.id) for n in ast.walk(pwvs) if isinstance(n, ast.Call)
                   and isinstance(n.func, ast.Name) and n.func.id in ("get_mutable_plan", "_get_stale_nodes",
                                                                      "_add_value_store", "prune_plan"))
    flags["pwvsOrder"] = [x[2] for x in order] == ["get_mutable_plan", "_get_stale_nodes", "_add_value_store", "prune_plan"]
    flags["pwvsMutatesNothingItself"] = _mutating_graph_calls(pwvs) == [] and _attr_assign_targets(pwvs) == [
        "read_node_lookup[node]"]

    gsn = _find_func(cach, "_get_stale_nodes", F)
    gb = _body(gsn)
    st0 = gb[0]
    if not (isinstance(st0, ast.Assign) and len(st0.targets) == 1 and isinstance(st0.targets[0], ast.Name)
            and st0.targets[0].id == "plan" and isinstance(st0.value, ast.Call) and isinstance(st0.value.func, ast.Name)
            and st0.value.func.id == "prune_source_literals" and len(st0.value.args) == 1
            and _same(st0.value.args[0], "plan")):
        raise TranslateError(F, "_get_stale_nodes does not start with `plan = prune_source_literals(plan, …)`")
    vals["staleInplace"] = _inplace_of(st0.value, "_get_stale_nodes/prune_source_literals")
    flags["staleCheckMutatesNothingElse"] = _mutating_graph_calls(gsn) == [] and all(
        t.endswith(".value") or t == "exception.__traceback__" for t in _attr_assign_targets(gsn))
    notes["staleAttrWrites"] = _attr_assign_targets(gsn)

    avs = _find_func(cach, "_add_value_store", F)
    aw = _attr_assign_targets(avs)
    notes["addValueStoreAttrWrites"] = aw
    nc = _find_func(avs, "nested_call", F)
    flags["scopeAssignOnlyOnFreshCall"] = aw == ["call.scope"] and _same(nc, '''
def nested_call(*args):
    call = plan._call(registry_value.stack_frame, *args)
    if type(node) is Call:
        call.scope = get_full_call_scope(node)
    return call
''')
    am = _mutating_graph_calls(avs)
    notes["addValueStoreGraphMutators"] = am
    flags["addValueStoreMutatesWorkingPlanOnly"] = bool(am) and all(x.startswith("plan.graph.") for x in am)
    flags["addValueStoreScopeOnWorkingPlan"] = any(isinstance(n, ast.With) and len(n.items) == 1 and _same(
        n.items[0].context_expr, "plan.scope(*node.scope)") for n in ast.walk(avs))

    # ------------------------------------------------------------------ pruning / run_physical
    pr = _find_func(prun, "prune_plan", F)
    vals["prunePlanCopyInplace"] = _inplace_of(_one(_calls_named(pr, "get_mutable_plan"), "prune_plan/get_mutable_plan"),
                                               "prune_plan/get_mutable_plan")
    prb = _body(pr)
    idx_copy = next((i for i, s in enumerate(prb) if _same(s, "plan = get_mutable_plan(plan, inplace=inplace)")), None)
    idx_mut = next((i for i, s in enumerate(prb) if _mutating_graph_calls(s) or _calls_named(s, "_prune_literal_if_trivial")), None)
    flags["prunePlanCopiesBeforeMutating"] = idx_copy is not None and idx_mut is not None and idx_copy < idx_mut
    flags["prunePlanMutatesWorkingPlanOnly"] = all(x.startswith("plan.graph.") for x in _mutating_graph_calls(pr) + _mutating_graph_calls(
        _find_func(prun, "_prune_literal_if_trivial", F))) and _attr_assign_targets(pr) == []
    psl = _find_func(prun, "prune_source_literals", F)
    pslb = _body(psl)
    vals["pruneSrcCopyInplace"] = _inplace_of(_one(_calls_named(psl, "get_mutable_plan"), "prune_source_literals"),
                                              "prune_source_literals")
    flags["pruneSrcCopiesFirst"] = _same(pslb[0], "plan = get_mutable_plan(plan, inplace=inplace)") and _same(
        pslb[1], "graph = plan.graph") and _mutating_graph_calls(psl) == ["graph.remove_node"]
    prep = _find_func(phys, "prep_run_physical", F)
    vals["prepPruneSrcInplace"] = _inplace_of(_one(_calls_named(prep, "prune_source_literals"), "prep_run_physical"),
                                              "prep_run_physical")
    rp = _find_func(phys, "run_physical", F)
    vals["runPhysicalPrepInplace"] = _inplace_of(_one(_calls_named(rp, "prep_run_physical"), "run_physical"), "run_physical")
    flags["runPhysicalMutatesNothingElse"] = _mutating_graph_calls(phys) == []

    # ------------------------------------------------------------------ nobody on the run path writes a registry
    rw = {name: _registry_writes(t) for name, t in (("_run", runm), ("caching", cach), ("pruning", prun),
                                                     ("run_physical", phys), ("_rendering", rend), ("transformations", trans))}
    notes["registryWrites"] = {k: v for k, v in rw.items() if v}
    flags["noRegistryWrites"] = not any(rw.values())

    # ------------------------------------------------------------------ render
    rd = _find_func(rend, "render", F)
    rb = _body(rd)
    idx = next((i for i, s in enumerate(rb) if _same(s, "graph = (plan.graph if isinstance(plan, Plan) else plan).copy()")), None)
    if idx is None:
        raise TranslateError(F, "render: `graph = (plan.graph if isinstance(plan, Plan) else plan).copy()` not found")
    before, after = rb[:idx], rb[idx + 1:]
    flags["renderCopiesGraphBeforeAnyMutation"] = all(not _mutating_graph_calls(s) for s in before)
    flags["renderNeverUsesPlanAfterCopy"] = not any(_uses(s, "plan") for s in after)
    rmut = sorted({x for s in after for x in _mutating_graph_calls(s)})
    notes["renderMutators"] = rmut
    local_sets = {"predecessors.update", "successors.update"}       # `predecessors = set()` / `successors = set()`
    sets_are_local = all(any(_same(n, f"{v} = set()") for n in ast.walk(rd)) for v in ("predecessors", "successors"))
    flags["renderMutatesOnlyTheCopy"] = bool(rmut) and sets_are_local and all(
        x.startswith("graph.") or x in local_sets for x in rmut)
    flags["renderAttrWritesNone"] = _attr_assign_targets(rd) == []
    ds = _find_func(rend, "default_style", F)
    flags["styleReadsRegistryOnly"] = _attr_assign_targets(ds) == [] and not _registry_writes(ds)

    # ------------------------------------------------------------------ emit
    def resolve(v, param):
        return param if v == "param" else v

    # the flags in program order, with "param" resolved to what the caller passes
    run_first = vals["runFirstInplace"]
    pwvs_copy = resolve(vals["pwvsCopyInplace"], vals["runPwvsInplace"])
    stale_copy = resolve(vals["pruneSrcCopyInplace"], vals["staleInplace"])
    pwvs_prune = resolve(vals["prunePlanCopyInplace"], vals["pwvsPruneInplace"])
    run_prune = resolve(vals["prunePlanCopyInplace"], vals["runPruneInplace"])
    phys_inpl = resolve(vals["pruneSrcCopyInplace"], resolve(vals["prepPruneSrcInplace"],
                                                             resolve(vals["runPhysicalPrepInplace"], vals["runPhysInplace"])))
    prog = {"runFirstInplace": run_first, "pwvsInplace": pwvs_copy, "staleInplace": stale_copy,
            "pwvsPruneInplace": pwvs_prune, "runPruneInplace": run_prune, "physInplace": phys_inpl}
    for k, v in prog.items():
        if not isinstance(v, bool):
            raise TranslateError(F, f"cannot resolve {k}: {v!r}")
    notes["inplace"] = dict(vals)
    names = sorted(flags)
    b = lambda x: "true" if x else "false"  # noqa: E731
    out = [PRELUDE, "namespace Uberjob.Gen.Purity", "",
           "/-- Structural facts about the run / render paths (see harness/gen/purity.py). -/",
           "structure Facts where"]
    out += [f"  {n} : Bool" for n in names]
    out += ["deriving Repr, DecidableEq", "", "def facts : Facts where"]
    out += [f"  {n} := {b(flags[n])}" for n in names]
    out += ["", "/-- Every fact has the value the hand-written `Heap` model assumes. -/",
            "def Facts.faithful (k : Facts) : Bool :=", "  " + " && ".join(f"k.{n}" for n in names), "",
            "/-- The `inplace` flag each plan transformation on the run path ends up with (callee parameters resolved",
            "    to what the caller passes), in program order; `scopeFreshOnly` / `registryWrites` / `renderCopies` select",
            "    the semantics of the corresponding instruction of the model. -/",
            "structure Flow where"]
    flow = dict(prog)
    flow["scopeFreshOnly"] = flags["scopeAssignOnlyOnFreshCall"]
    flow["registryWrites"] = not flags["noRegistryWrites"]
    flow["renderCopies"] = flags["renderCopiesGraphBeforeAnyMutation"] and flags["renderNeverUsesPlanAfterCopy"] and flags[
        "renderMutatesOnlyTheCopy"]
    fnames = list(flow)
    out += [f"  {n} : Bool" for n in fnames]
    out += ["deriving Repr, DecidableEq", "", "def flow : Flow where"]
    out += [f"  {n} := {b(flow[n])}" for n in fnames]
    out += ["", "end Uberjob.Gen.Purity", ""]
    src_hash = _h("".join(_dump(t) for t in (runm, trans, cach, prun, phys, planm, regm, rend)))
    return "\n".join(out), {"flags": flags, "notes": notes, "flow": flow, "source_hash": src_hash}


FRAGMENTS = {"Purity": gen_purity}
