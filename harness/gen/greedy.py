"""T1 plug-in for the default scheduler's priorities (C07): src/uberjob/_execution/greedy.py and `create_queue` of scheduler.py
->  lean/UberjobModel/Gen/Greedy.lean  (namespace Uberjob.Gen.Greedy).

Pinned shapes (flags, so that a change shows as a broken `C07_greedy_source_shape` and starts the failing-input search):
`pred_search` statement for statement (what `Greedy.search` models); the end of `get_priority_mapping` - the pseudo-sinks taken in
the topological order of the condensation, a pseudo-sink being a node all of whose out-edges are Dependency edges, the mapping
`{node: index for index, node in enumerate(pred_search(graph, pseudo_sinks))}`; and the default branch of `create_queue`
(`priority_mapping.get(node, -1)`).  The condensation itself (networkx union-find, strongly connected components,
`topological_sort`) is library code and stays outside the model: its result is an input of `Greedy.order`."""
from __future__ import annotations

import ast

from harness.translate import PRELUDE, TranslateError, _dump, _find_func, _h, _module, _same

F = "Greedy"


def gen_greedy():
    tree = _module("_execution/greedy.py")
    sch = _module("_execution/scheduler.py")
    ps = _find_func(tree, "pred_search", F)
    pm = _find_func(tree, "get_priority_mapping", F)
    cq = _find_func(sch, "create_queue", F)
    flags = {}
    flags["predSearchShape"] = _same(ps, '''
def pred_search(graph, nodes):
    visited = set()
    nodes.reverse()
    while nodes:
        node = nodes.pop()
        if node in visited:
            continue
        yield node
        for predecessor in graph.pred[node]:
            nodes.append(predecessor)
        visited.add(node)
''')
    body = [s for s in pm.body if not (isinstance(s, ast.Expr) and isinstance(s.value, ast.Constant))]
    flags["priorityMappingShape"] = len(body) == 3 and _same(body, '''
condensation_graph, representative_to_component_mapping = get_condensation_graph_and_mapping(graph)
pseudo_sinks = [
    node
    for representative in topological_sort(condensation_graph)
    for node in representative_to_component_mapping[representative]
    if all(type(edge_key) is Dependency for u, v, edge_key in graph.out_edges(node, keys=True))
]
return {node: index for index, node in enumerate(pred_search(graph, pseudo_sinks))}
''')
    default = [s for s in cq.body if isinstance(s, ast.If) and _same(s.test, 'scheduler == "default"')]
    flags["defaultQueueShape"] = len(default) == 1 and _same(default[0].body, '''
priority_mapping = greedy.get_priority_mapping(graph)
return PriorityQueue(initial_items, lambda node: priority_mapping.get(node, -1))
''')
    out = [PRELUDE, "namespace Uberjob.Gen.Greedy", "",
           "/-- `pred_search` of greedy.py is, statement for statement, the loop `Greedy.search` models -/",
           f"def predSearchShape : Bool := {'true' if flags['predSearchShape'] else 'false'}",
           "/-- `get_priority_mapping` ends with: pseudo-sinks (nodes all of whose out-edges are Dependency edges) in the topological",
           "    order of the condensation, then `{node: index for index, node in enumerate(pred_search(graph, pseudo_sinks))}` -/",
           f"def priorityMappingShape : Bool := {'true' if flags['priorityMappingShape'] else 'false'}",
           "/-- `create_queue(..., 'default')`: `PriorityQueue(initial_items, lambda node: priority_mapping.get(node, -1))` -/",
           f"def defaultQueueShape : Bool := {'true' if flags['defaultQueueShape'] else 'false'}", "",
           "end Uberjob.Gen.Greedy", ""]
    return "\n".join(out), {"flags": flags, "source_hash": _h(_dump(tree) + _dump(cq))}


FRAGMENTS = {"Greedy": gen_greedy}
