"""T1 plug-in for C19: src/uberjob/_util/traceback.py and every place that captures or hands on a symbolic
stack frame  ->  lean/UberjobModel/Gen/Traceback.lean  (namespace Uberjob.Gen.Traceback).

Template-with-holes: each function is compared structurally (`_same`) with a template whose holes are filled
with the text of the very sub-expressions that were extracted and translated, so "everything except the holes
is unchanged, and the holes are what the Lean definitions say" is checked on every run.
"""
from __future__ import annotations

import ast

from harness.translate import (PRELUDE, Expr, TranslateError, _dump, _find_class, _find_func, _h, _module, _same,
                               lean_str)

F = "Traceback"


def _method(tree, cls, name):
    c = _find_class(tree, cls, F)
    for n in c.body:
        if isinstance(n, ast.FunctionDef) and n.name == name:
            return n
    raise TranslateError(F, f"method {cls}.{name} not found")


def _own_scope_nodes(fn):
    """Nodes executed in the function's own frame.  Nested defs/lambdas/generator expressions run in their own
    frame and are excluded; list/set/dict comprehensions are excluded too (conservative: inlined only from 3.12)."""
    out = []

    def walk(n, top):
        if not top and isinstance(n, (ast.FunctionDef, ast.AsyncFunctionDef, ast.Lambda, ast.GeneratorExp,
                                      ast.ListComp, ast.SetComp, ast.DictComp, ast.ClassDef)):
            return
        out.append(n)
        for c in ast.iter_child_nodes(n):
            walk(c, False)

    for s in fn.body:
        walk(s, False)
    return out


def _is_capture(n):
    return isinstance(n, ast.Call) and isinstance(n.func, ast.Name) and n.func.id == "get_stack_frame"


def _direct_capture(tree, fn, what):
    """The API function calls `get_stack_frame()` exactly once, without arguments, in its own frame, is not
    decorated (a wrapper would add a frame) and the name is the one imported from uberjob._util.traceback."""
    all_caps = [n for n in ast.walk(fn) if _is_capture(n)]
    own = [n for n in _own_scope_nodes(fn) if _is_capture(n)]
    if len(all_caps) != 1:
        raise TranslateError(F, f"{what}: expected exactly one get_stack_frame call, found {len(all_caps)}")
    c = all_caps[0]
    if c.args or c.keywords:
        raise TranslateError(F, f"{what}: get_stack_frame is called with arguments: {ast.unparse(c)}")
    imported = any(
        isinstance(s, ast.ImportFrom) and s.module == "uberjob._util.traceback" and s.level == 0
        and any(a.name == "get_stack_frame" and a.asname is None for a in s.names) for s in tree.body)
    rebound = any(isinstance(n, (ast.FunctionDef, ast.ClassDef)) and n.name == "get_stack_frame" for n in tree.body) or any(
        isinstance(s, ast.Assign) and any(isinstance(t, ast.Name) and t.id == "get_stack_frame" for t in s.targets)
        for s in tree.body)
    return len(own) == 1 and not fn.decorator_list and imported and not rebound


def _has_stmt(fn, code):
    return any(_same(s, code) for s in fn.body)


def gen_traceback():
    tb = _module("_util/traceback.py")
    plan = _module("_plan.py")
    reg = _module("_registry.py")
    cach = _module("_transformations/caching.py")
    runm = _module("_run.py")
    errs = _module("_errors.py")
    phys = _module("_execution/run_physical.py")
    graph = _module("graph.py")
    flags = {}

    # ---- MAX_TRACEBACK_DEPTH -----------------------------------------------------------------------------------
    maxd = [s for s in tb.body if isinstance(s, ast.Assign) and len(s.targets) == 1
            and isinstance(s.targets[0], ast.Name) and s.targets[0].id == "MAX_TRACEBACK_DEPTH"]
    if len(maxd) != 1 or not (isinstance(maxd[0].value, ast.Constant) and type(maxd[0].value.value) is int
                              and maxd[0].value.value >= 0):
        raise TranslateError(F, "MAX_TRACEBACK_DEPTH is not a single non-negative integer constant")
    max_depth = maxd[0].value.value

    # ---- get_stack_frame ---------------------------------------------------------------------------------------
    gsf = _find_func(tb, "get_stack_frame", F)
    a = gsf.args
    if not (len(a.args) == 1 and a.args[0].arg == "initial_depth" and len(a.defaults) == 1 and not a.posonlyargs
            and not a.kwonlyargs and a.vararg is None and a.kwarg is None
            and isinstance(a.defaults[0], ast.Constant) and type(a.defaults[0].value) is int and a.defaults[0].value >= 0):
        raise TranslateError(F, "get_stack_frame(initial_depth=<non-negative int>) expected")
    initial_depth = a.defaults[0].value
    rec = next((s for s in gsf.body if isinstance(s, ast.FunctionDef) and s.name == "recurse"), None)
    if rec is None or len(rec.body) != 3 or not isinstance(rec.body[1], ast.If) or not isinstance(rec.body[2], ast.Return):
        raise TranslateError(F, "get_stack_frame.recurse: expected `if not frame / if <test> / return StackFrame(...)`")
    test = rec.body[1].test
    ret = rec.body[2].value
    outer = None
    if isinstance(ret, ast.Call):
        outer = next((k.value for k in ret.keywords if k.arg == "outer"), None)
    if not (isinstance(outer, ast.Call) and isinstance(outer.func, ast.Name) and outer.func.id == "recurse"
            and len(outer.args) == 2 and not outer.keywords):
        raise TranslateError(F, "get_stack_frame.recurse: cannot locate outer=recurse(frame.f_back, <depth expr>)")
    dec = outer.args[1]
    template = f'''
def get_stack_frame(initial_depth={initial_depth}):
    def recurse(frame, depth):
        if not frame:
            return None
        if {ast.unparse(test)}:
            return TruncatedStackFrame
        return StackFrame(
            name=frame.f_code.co_name,
            path=frame.f_code.co_filename,
            line=frame.f_lineno,
            outer=recurse(frame.f_back, {ast.unparse(dec)}),
        )

    initial_frame = inspect.currentframe()
    for _ in range(initial_depth):
        initial_frame = initial_frame.f_back
    return recurse(initial_frame, MAX_TRACEBACK_DEPTH)
'''
    if not _same(gsf, template):
        raise TranslateError(F, "get_stack_frame no longer has the pinned shape (walk initial_depth f_back links, then recurse)")
    ex = Expr(F, {"depth": ("depth", "Int")})
    test_l, tt = ex.tr(test)
    if tt != "Bool":
        raise TranslateError(F, f"truncation test is not a comparison: {ast.unparse(test)}")
    dec_l, dt_ = ex.tr(dec)
    if dt_ != "Int":
        raise TranslateError(F, f"depth argument of the recursive call is not an integer expression of depth: {ast.unparse(dec)}")
    for n in ast.walk(test):
        if isinstance(n, ast.Name) and n.id != "depth":
            raise TranslateError(F, f"truncation test mentions {n.id}")
    for n in ast.walk(dec):
        if isinstance(n, ast.Name) and n.id != "depth":
            raise TranslateError(F, f"depth expression mentions {n.id}")
    flags["inspectIsStdlib"] = any(isinstance(s, ast.Import) and any(x.name == "inspect" and x.asname is None for x in s.names)
                                   for s in tb.body)
    # the truncation marker is a singleton that is truthy (the render loop relies on `while stack_frame`)
    tcls = _find_class(tb, "TruncatedStackFrameType", F)
    flags["truncatedMarkerTruthy"] = not any(isinstance(n, ast.FunctionDef) and n.name in ("__bool__", "__len__") for n in tcls.body)
    scls = _find_class(tb, "StackFrame", F)
    flags["stackFrameTruthy"] = not any(isinstance(n, ast.FunctionDef) and n.name in ("__bool__", "__len__") for n in scls.body)
    flags["stackFrameStoresFields"] = _same(_method(tb, "StackFrame", "__init__"), '''
def __init__(self, *, name, path, line, outer=None):
    self.name = name
    self.path = path
    self.line = line
    self.outer = outer
''')

    # ---- render_symbolic_traceback -----------------------------------------------------------------------------
    rs = _find_func(tb, "render_symbolic_traceback", F)
    consts = {}
    try:
        loop = rs.body[1]
        cut_test = loop.body[1].test                      # "<cut>" in stack_frame.path
        consts["cut"] = cut_test.left.value
        fmt = rs.body[2]
        consts["trunc"] = fmt.body[0].body[0].value.value
        fstr = fmt.body[1].value
        header = rs.body[3].value.args[0].elts[0].value
        consts["header"] = header
        consts["sep"] = rs.body[3].value.func.value.value
    except (AttributeError, IndexError, TypeError):
        raise TranslateError(F, "render_symbolic_traceback no longer has the pinned shape")
    if not all(isinstance(v, str) for v in consts.values()) or not isinstance(fstr, ast.JoinedStr):
        raise TranslateError(F, "render_symbolic_traceback: string constants not found where expected")
    template = f'''
def render_symbolic_traceback(stack_frame):
    stack_frames = []
    while stack_frame:
        if stack_frame is TruncatedStackFrame:
            stack_frames.append(stack_frame)
            break
        if {consts["cut"]!r} in stack_frame.path:
            break
        stack_frames.append(stack_frame)
        stack_frame = stack_frame.outer

    def format_stack_frame(s):
        if s is TruncatedStackFrame:
            return {consts["trunc"]!r}
        return {ast.unparse(fstr)}

    return {consts["sep"]!r}.join(
        [
            {consts["header"]!r},
            *(
                format_stack_frame(stack_frame)
                for stack_frame in reversed(stack_frames)
            ),
        ]
    )
'''
    if not _same(rs, template):
        raise TranslateError(F, "render_symbolic_traceback no longer has the pinned shape (collect loop, reversed, join)")
    if consts["sep"] != "\n":
        raise TranslateError(F, "render_symbolic_traceback joins with something other than a newline")
    exf = Expr(F, {"s.path": ("path", "String"), "s.line": ("line", "Nat"), "s.name": ("name", "String")})
    fmt_l, _ = exf.tr(fstr)

    # ---- call sites: which API functions capture directly ------------------------------------------------------
    sites = {
        "planCall": (plan, _method(plan, "Plan", "call")),
        "planGather": (plan, _method(plan, "Plan", "gather")),
        "planUnpack": (plan, _method(plan, "Plan", "unpack")),
        "registryAdd": (reg, _method(reg, "Registry", "add")),
        "registrySource": (reg, _method(reg, "Registry", "source")),
        "run": (runm, _find_func(runm, "run", F)),
    }
    direct = {k: _direct_capture(t, fn, k) for k, (t, fn) in sites.items()}
    # what the captured frame is used for at each site
    uses = {
        "planCall": _same(sites["planCall"][1].body[-1], "return self._call(get_stack_frame(), fn, *args, **kwargs)"),
        "planGather": _same(sites["planGather"][1].body[-1], "return self._gather(get_stack_frame(), value)"),
        "planUnpack": _same(sites["planUnpack"][1].body[-3:], '''
stack_frame = get_stack_frame()
t = self._call(stack_frame, _builtins.unpack, iterable, length)
return tuple(self._call(stack_frame, operator.getitem, t, index) for index in range(length))
'''),
        "registryAdd": _same(sites["registryAdd"][1].body[-1],
                             "self.mapping[node] = RegistryValue(value_store, is_source=False, stack_frame=get_stack_frame())"),
        "registrySource": _same(sites["registrySource"][1].body[-4:], '''
stack_frame = get_stack_frame()
node = plan._call(stack_frame, source)
self.mapping[node] = RegistryValue(value_store, is_source=True, stack_frame=stack_frame)
return node
'''),
        "run": _has_stmt(sites["run"][1], "output_node = plan._gather(get_stack_frame(), output) if output is not None else None"),
    }
    # nested symbolic calls receive the frame that was already captured
    nested = {
        "callNode": False, "callArgGather": False, "callKwargGather": False, "gatherNested": False,
        "unpackTuple": uses["planUnpack"], "unpackGetitem": uses["planUnpack"],
        "sourceCall": uses["registrySource"], "sourceEntry": uses["registrySource"],
        "storeCall": False,
    }
    pc = _method(plan, "Plan", "_call")
    whole_call = _same(pc, '''
def _call(self, stack_frame, fn, *args, **kwargs):
    call = Call(fn, scope=self._scope, stack_frame=stack_frame)
    self.graph.add_node(call)
    for index, arg in enumerate(args):
        self.graph.add_edge(self._gather(stack_frame, arg), call, PositionalArg(index))
    for index, (name, arg) in enumerate(kwargs.items()):
        self.graph.add_edge(self._gather(stack_frame, arg), call, KeywordArg(name, index))
    return call
''')
    nested["callNode"] = nested["callArgGather"] = nested["callKwargGather"] = whole_call
    pg = _method(plan, "Plan", "_gather")
    nested["gatherNested"] = _same(pg, '''
def _gather(self, stack_frame, value):
    def recurse(root):
        root_type = type(root)
        gather_fn = GATHER_LOOKUP.get(root_type)
        if gather_fn is not None:
            items = root.items() if root_type is dict else root
            children = [recurse(item) for item in items]
            if any(isinstance(child, Node) for child in children):
                return self._call(stack_frame, gather_fn, *children)
        return root

    value = recurse(value)
    return value if isinstance(value, Node) else self.lit(value)
''')
    avs = _find_func(cach, "_add_value_store", F)
    nc = next((s for s in avs.body if isinstance(s, ast.FunctionDef) and s.name == "nested_call"), None)
    nested_ok = nc is not None and _same(nc, '''
def nested_call(*args):
    call = plan._call(registry_value.stack_frame, *args)
    if type(node) is Call:
        call.scope = get_full_call_scope(node)
    return call
''')
    # every symbolic call created by _add_value_store goes through nested_call (no other _call / Call( in it)
    others = [n for n in ast.walk(avs) if isinstance(n, ast.Call) and (
        (isinstance(n.func, ast.Attribute) and n.func.attr in ("_call", "call", "gather", "_gather"))
        or (isinstance(n.func, ast.Name) and n.func.id == "Call"))]
    reads = [n for n in ast.walk(avs) if isinstance(n, ast.Assign) and _same(
        n, "read_node = nested_call(value_store.__class__.read, value_store_lit)")]
    writes = [n for n in ast.walk(avs) if isinstance(n, ast.Assign) and _same(
        n, "write_node = nested_call(value_store.__class__.write, value_store_lit, node)")]
    nested["storeCall"] = bool(nested_ok and len(others) == 1 and len(reads) == 1 and len(writes) == 1)
    flags["registryValueStoresFrame"] = _same(_method(reg, "RegistryValue", "__init__"), '''
def __init__(self, value_store, *, is_source, stack_frame):
    self.value_store = value_store
    self.is_source = is_source
    self.stack_frame = stack_frame
''')
    flags["callStoresFrame"] = _same(_method(graph, "Call", "__init__"), '''
def __init__(self, fn, *, scope=(), stack_frame=None):
    self.fn = fn
    self.stack_frame = stack_frame
    super().__init__(scope=scope)
''')
    flags["storeEntriesFromRegistryMapping"] = any(
        isinstance(n, ast.For) and _same(n.iter, "registry.mapping.items()") and any(
            _same(s, "write_node, read_node = _add_value_store(plan, node, registry_value, is_stale=is_stale)") for s in n.body)
        for n in ast.walk(_find_func(cach, "plan_with_value_stores", F)))

    # ---- the error path ----------------------------------------------------------------------------------------
    flags["callErrorRendersCallFrame"] = _same(_method(errs, "CallError", "__init__"), '''
def __init__(self, call):
    super().__init__(
        "\\n".join(
            [
                f"An exception was raised in a symbolic call to {fully_qualified_name(call.fn)}.",
                render_symbolic_traceback(call.stack_frame),
            ]
        )
    )
    self.call = call
''')
    run_fn = sites["run"][1]
    tr = next((s for s in run_fn.body if isinstance(s, ast.Try)), None)
    flags["runRaisesCallErrorOfNode"] = bool(
        tr and len(tr.handlers) == 1 and not tr.finalbody and not tr.orelse
        and _same(tr.handlers[0].type, "NodeError") and tr.handlers[0].name == "e"
        and _same(tr.handlers[0].body, "raise CallError(e.node) from e.__cause__"))
    flags["nodeErrorKeepsNode"] = _same(_method(errs, "NodeError", "__init__"), '''
def __init__(self, node):
    super().__init__(f"An exception was raised during execution of the following node: {node!r}.")
    self.node = node
''')
    pwc = _find_func(cach, "process_with_callbacks", F)
    flags["staleRaisesNodeErrorOfNode"] = False
    flags["staleWrapsOnlyCalls"] = False
    if len(pwc.body) == 1 and isinstance(pwc.body[0], ast.If) and _same(pwc.body[0].test, "type(node) is Call"):
        i = pwc.body[0]
        flags["staleWrapsOnlyCalls"] = _same(i.orelse, "process(node)")
        t2 = next((s for s in i.body if isinstance(s, ast.Try)), None)
        flags["staleRaisesNodeErrorOfNode"] = bool(
            t2 and _same(t2.body, "process(node)") and len(t2.handlers) == 1 and _same(t2.handlers[0].type, "Exception")
            and _same(t2.handlers[0].body[-1], "raise NodeError(node) from exception"))
    pr = _find_func(_find_func(phys, "prep_run_physical", F), "process", F)
    flags["runRaisesNodeErrorOfNode"] = False
    flags["runProcessesOnlyCalls"] = False
    if len(pr.body) == 1 and isinstance(pr.body[0], ast.If) and _same(pr.body[0].test, "type(node) is Call") and not pr.body[0].orelse:
        flags["runProcessesOnlyCalls"] = True
        t3 = next((s for s in pr.body[0].body if isinstance(s, ast.Try)), None)
        flags["runRaisesNodeErrorOfNode"] = bool(
            t3 and _same(t3.body, "bound_call.value.run(node.fn, retry)") and len(t3.handlers) == 1
            and _same(t3.handlers[0].type, "Exception")
            and _same(t3.handlers[0].body[-1], "raise NodeError(node) from exception"))
    # the modified-time query sits in `process`, reached for EVERY registered node (Call or not)
    pns = _find_func(cach, "process_no_stale_ancestor", F)
    flags["mtimeQueriedForEveryRegisteredNode"] = any(
        isinstance(n, ast.Call) and _same(n, "retry(value_store.get_modified_time)()") for n in ast.walk(pns)) and any(
        _same(s, "value_store = registry.get(node)") for s in pns.body)

    for k, v in uses.items():
        flags["use_" + k] = v

    # ---- emit --------------------------------------------------------------------------------------------------
    site_names = list(sites)
    nested_names = list(nested)
    names = sorted(flags)
    b = lambda v: "true" if v else "false"  # noqa: E731
    out = [PRELUDE, "namespace Uberjob.Gen.Traceback", "",
           "/-- `MAX_TRACEBACK_DEPTH` -/", f"def maxDepth : Nat := {max_depth}", "",
           "/-- default of `initial_depth` in `get_stack_frame(initial_depth=…)` -/",
           f"def initialDepth : Nat := {initial_depth}", "",
           f"/-- the truncation test of `get_stack_frame.recurse`: `{ast.unparse(test)}` -/",
           f"def truncTest (depth : Int) : Bool := {test_l}", "",
           f"/-- the depth handed to the recursive call: `{ast.unparse(dec)}` -/",
           f"def nextDepth (depth : Int) : Int := {dec_l}", "",
           "/-- `format_stack_frame` of the truncation marker -/", f"def truncatedText : String := {lean_str(consts['trunc'])}", "",
           "/-- first line of the rendered symbolic traceback -/", f"def headerText : String := {lean_str(consts['header'])}", "",
           "/-- rendering stops at the first frame whose path contains this text -/",
           f"def ipythonCut : String := {lean_str(consts['cut'])}", "",
           f"/-- `{ast.unparse(fstr)}` -/",
           f"def formatFrame (path : String) (line : Nat) (name : String) : String := {fmt_l}", "",
           "/-- The API functions that capture a symbolic stack frame. -/",
           "inductive Site where", "  | " + " | ".join(site_names), "deriving DecidableEq, Repr", "",
           "/-- The function calls `get_stack_frame()` exactly once, without arguments, in its own frame, and is not",
           "    wrapped by a decorator: the stack seen by `inspect.currentframe()` is",
           "    `get_stack_frame :: <the API function> :: <its caller> :: …`. -/",
           "def siteDirect : Site → Bool"]
    out += [f"  | .{k} => {b(direct[k])}" for k in site_names]
    out += ["", "/-- Places where a symbolic call (or a registry entry) is created from an ALREADY captured frame. -/",
            "inductive Nested where", "  | " + " | ".join(nested_names), "deriving DecidableEq, Repr", "",
            "/-- The frame stored there is the one handed in (`stack_frame` / `registry_value.stack_frame`), not a new capture. -/",
            "def passesFrame : Nested → Bool"]
    out += [f"  | .{k} => {b(nested[k])}" for k in nested_names]
    out += ["", "/-- Further structural facts (see harness/gen/traceback.py). -/", "structure Facts where"]
    out += [f"  {n} : Bool" for n in names]
    out += ["deriving Repr", "", "def facts : Facts where"]
    out += [f"  {n} := {b(flags[n])}" for n in names]
    out += ["", "def Facts.faithful (k : Facts) : Bool :=", "  " + " && ".join(f"k.{n}" for n in names), "",
            "end Uberjob.Gen.Traceback", ""]
    info = {"flags": flags, "direct": direct, "nested": nested, "max_depth": max_depth, "initial_depth": initial_depth,
            "consts": consts,
            "source_hash": _h("".join(_dump(t) for t in (tb, plan, reg, cach, runm, errs, phys)))}
    return "\n".join(out), info


FRAGMENTS = {"Traceback": gen_traceback}
