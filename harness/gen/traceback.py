"""T1 plug-in for C19: src/uberjob/_util/traceback.py and every place that captures or hands on a symbolic
stack frame  ->  lean/UberjobModel/Gen/Traceback.lean  (namespace Uberjob.Gen.Traceback).

Template-with-holes: each function is compared structurally (`_same`) with a template whose holes are filled
with the text of the very sub-expressions that were extracted and translated, so "everything except the holes
is unchanged, and the holes are what the Lean definitions say" is checked on every run.
"""
from __future__ import annotations

import ast

from harness.translate import (PRELUDE, Expr, TranslateError, _dump, _find_class, _find_func, _h, _module, _same,
                               lean_str)

F = "Traceback"


def _method(tree, cls, name):
    c = _find_class(tree, cls, F)
    for n in c.body:
        if isinstance(n, ast.FunctionDef) and n.name == name:
            return n
    raise TranslateError(F, f"method {cls}.{name} not found")


def _own_scope_nodes(fn):
    """Nodes executed in the function's own frame.  Nested defs/lambdas/generator expressions run in their own
    frame and are excluded; list/set/dict comprehensions are excluded too (conservative: inlined only from 3.12)."""
    out = []

    def walk(n, top):
        if not top and isinstance(n, (ast.FunctionDef, ast.AsyncFunctionDef, ast.Lambda, ast.GeneratorExp,
                                      ast.ListComp, ast.SetComp, ast.DictComp, ast.ClassDef)):
            return
        out.append(n)
        for c in ast.iter_child_nodes(n):
            walk(c, False)

    for s in fn.body:
        walk(s, False)
    return out


def _is_capture(n):
    return isinstance(n, ast.Call) and isinstance(n.func, ast.Name) and n.func.id == "get_stack_frame"


def _direct_capture(tree, fn, what):
    """The API function calls `get_stack_frame()` exactly once, without arguments, in its own frame, is not
    decorated (a wrapper would add a frame) and the name is the one imported from uberjob._util.traceback."""
    all_caps = [n for n in ast.walk(fn) if _is_capture(n)]
    own = [n for n in _own_scope_nodes(fn) if _is_capture(n)]
    if len(all_caps) != 1:
        raise TranslateError(F, f"{what}: expected exactly one get_stack_frame call, found {len(all_caps)}")
    c = all_caps[0]
    if c.args or c.keywords:
        raise TranslateError(F, f"{what}: get_stack_frame is called with arguments: {ast.unparse(c)}")
    imported = any(
        isinstance(s, ast.ImportFrom) and s.module == "uberjob._util.traceback" and s.level == 0
        and any(a.name == "get_stack_frame" and a.asname is None for a in s.names) for s in tree.body)
    rebound = any(isinstance(n, (ast.FunctionDef, ast.ClassDef)) and n.name == "get_stack_frame" for n in tree.body) or any(
        isinstance(s, ast.Assign) and any(isinstance(t, ast.Name) and t.id == "get_stack_frame" for t in s.targets)
        for s in tree.body)
    return len(own) == 1 and not fn.decorator_list and imported and not rebound


def gen_traceback():
    tb = _module("_util/traceback.py")
    plan = _module("_plan.py")
    reg = _module("_registry.py")
    cach = _module("_transformations/caching.py")
    runm = _module("_run.py")
    errs = _module("_errors.py")
    phys = _module("_execution/run_physical.py")
    graph = _module("graph.py")
    flags = {}

    # ---- MAX_TRACEBACK_DEPTH -----------------------------------------------------------------------------------
    maxd = [s for s in tb.body if isinstance(s, ast.Assign) and len(s.targets) == 1
            and isinstance(s.targets[0], ast.Name) and s.targets[0].id == "MAX_TRACEBACK_DEPTH"]
    if len(maxd) != 1 or not (isinstance(maxd[0].value, ast.Constant) and type(maxd[0].value.value) is int
                              and maxd[0].value.value >= 0):
        raise TranslateError(F, "MAX_TRACEBACK_DEPTH is not a single non-negative integer constant")
    max_depth = maxd[0].value.value

    # ---- get_stack_frame ---------------------------------------------------------------------------------------
    gsf = _find_func(tb, "get_stack_frame", F)
    a = gsf.args
    if not (len(a.args) == 1 and a.args[0].arg == "initial_depth" and len(a.defaults) == 1 and not a.posonlyargs
            and not a.kwonlyargs and a.vararg is None and a.kwarg is None
            and isinstance(a.defaults[0], ast.Constant) and type(a.defaults[0].value) is int and a.defaults[0].value >= 0):
        raise TranslateError(F, "get_stack_frame(initial_depth=<non-negative int>) expected")
    initial_depth = a.defaults[0].value
    rec = next((s for s in gsf.body if isinstance(s, ast.FunctionDef) and s.name == "recurse"), None)
    if rec is None or len(rec.body) != 3 or not isinstance(rec.body[1], ast.If) or not isinstance(rec.body[2], ast.Return):
        raise TranslateError(F, "get_stack_frame.recurse: expected `if not frame / if <test> / return StackFrame(...)`")
    test = rec.body[1].test
    ret = rec.body[2].value
    outer = None
    if isinstance(ret, ast.Call):
        outer = next((k.value for k in ret.keywords if k.arg == "outer"), None)
    if not (isinstance(outer, ast.Call) and isinstance(outer.func, ast.Name) and outer.func.id == "recurse"
            and len(outer.args) == 2 and not outer.keywords):
        raise TranslateError(F, "get_stack_frame.recurse: cannot locate outer=recurse(frame.f_back, <depth expr>)")
    dec = outer.args[1]
    template = f'''
def get_stack_frame(initial_depth={initial_depth}):
    def recurse(frame, depth):
        if not frame:
            return None
        if {ast.unparse(test)}:
            return TruncatedStackFrame
        return StackFrame(
            name=frame.f_code.co_name,
            path=frame.f_code.co_filename,
            line=frame.f_lineno,
            outer=recurse(frame.f_back, {ast.unparse(dec)}),
        )

    initial_frame = inspect.currentframe()
    for _ in range(initial_depth):
        initial_frame = initial_frame.f_back
    return recurse(initial_frame, MAX_TRACEBACK_DEPTH)
'''
    if not _same(gsf, template):
        raise TranslateError(F, "get_stack_frame no longer has the pinned shape (walk initial_depth f_back links, then recurse)")
    ex = Expr(F, {"depth": ("depth", "Int")})
    test_l, tt = ex.tr(test)
    if tt != "Bool":
        raise TranslateError(F, f"truncation test is not a comparison: {ast.unparse(test)}")
    dec_l, dt_ = ex.tr(dec)
    if dt_ != "Int":
        raise TranslateError(F, f"depth argument of the recursive call is not an integer expression of depth: {ast.unparse(dec)}")
    for n in ast.walk(test):
        if isinstance(n, ast.Name) and n.id != "depth":
            raise TranslateError(F, f"truncation test mentions {n.id}")
    for n in ast.walk(dec):
        if isinstance(n, ast.Name) and n.id != "depth":
            raise TranslateError(F, f"depth expression mentions {n.id}")
    flags["inspectIsStdlib"] = any(isinstance(s, ast.Import) and any(x.name == "inspect" and x.asname is None for x in s.names)
                                   for s in tb.body)
    # the truncation marker is a singleton that is truthy (the render loop relies on `while stack_frame`)
    tcls = _find_class(tb, "TruncatedStackFrameType", F)
    flags["truncatedMarkerTruthy"] = not any(isinstance(n, ast.FunctionDef) and n.name in ("__bool__", "__len__") for n in tcls.body)
    scls = _find_class(tb, "StackFrame", F)
    flags["stackFrameTruthy"] = not any(isinstance(n, ast.FunctionDef) and n.name in ("__bool__", "__len__") for n in scls.body)
    flags["stackFrameStoresFields"] = _same(_method(tb, "StackFrame", "__init__"), '''
def __init__(self, *, name, path, line, outer=None):
    self.name = name
    self.path = path
    self.line = line
    self.outer = outer
''')

    # ---- render_symbolic_traceback -----------------------------------------------------------------------------
    rs = _find_func(tb, "render_symbolic_traceback", F)
    consts = {}
    try:
        loop = rs.body[1]
        cut_test = loop.body[1].test                      # "<cut>" in stack_frame.path
        consts["cut"] = cut_test.left.value
        fmt = rs.body[2]
        consts["trunc"] = fmt.body[0].body[0].value.value
        fstr = fmt.body[1].value
        header = rs.body[3].value.args[0].elts[0].value
        consts["header"] = header
        consts["sep"] = rs.body[3].value.func.value.value
    except (AttributeError, IndexError, TypeError):
        raise TranslateError(F, "render_symbolic_traceback no longer has the pinned shape")
    if not all(isinstance(v, str) for v in consts.values()) or not isinstance(fstr, ast.JoinedStr):
        raise TranslateError(F, "render_symbolic_traceback: string constants not found where expected")
    template = f'''
def render_symbolic_traceback(stack_frame):
    stack_frames = []
    while stack_frame:
        if stack_frame is TruncatedStackFrame:
            stack_frames.append(stack_frame)
            break
        if {consts["cut"]!r} in stack_frame.path:
            break
        stack_frames.append(stack_frame)
        stack_frame = stack_frame.outer

    def format_stack_frame(s):
        if s is TruncatedStackFrame:
            return {consts["trunc"]!r}
        return {ast.unparse(fstr)}

    return {consts["sep"]!r}.join(
        [
            {consts["header"]!r},
            *(
                format_stack_frame(stack_frame)
                for stack_frame in reversed(stack_frames)
            ),
        ]
    )
'''
    if not _same(rs, template):
        raise TranslateError(F, "render_symbolic_traceback no longer has the pinned shape (collect loop, reversed, join)")
    if consts["sep"] != "\n":
        raise TranslateError(F, "render_symbolic_traceback joins with something other than a newline")
    exf = Expr(F, {"s.path": ("path", "String"), "s.line": ("line", "Nat"), "s.name": ("name", "String")})
    fmt_l, _ = exf.tr(fstr)

    # ---- call sites: which API functions capture directly ------------------------------------------------------
    sites = {
        "planCall": (plan, _method(plan, "Plan", "call")),
        "planGather": (plan, _method(plan, "Plan", "gather")),
        "planUnpack": (plan, _method(plan, "Plan", "unpack")),
        "registryAdd": (reg, _method(reg, "Registry", "add")),
        "registrySource": (reg, _method(reg, "Registry", "source")),
        "run": (runm, _find_func(runm, "run", F)),
    }
    direct = {k: _direct_capture(t, fn, k) for k, (t, fn) in sites.items()}
    # what the captured frame is used for at each site.  Only the threading of the frame is pinned here, not the
    # rest of these functions (argument binding, edge keys, scopes, … belong to other properties).
    def calls_to(fn, *attrs):
        return [n for n in ast.walk(fn) if isinstance(n, ast.Call) and isinstance(n.func, ast.Attribute) and n.func.attr in attrs]

    def first_arg_is(call, code):
        return bool(call.args) and _same(call.args[0], code)

    def kw_is(call, kw, code):
        return any(k.arg == kw and _same(k.value, code) for k in call.keywords)

    def ctor_calls(fn, name):
        return [n for n in ast.walk(fn) if isinstance(n, ast.Call) and isinstance(n.func, ast.Name) and n.func.id == name]

    def assigned_once_from_capture(fn, var):
        asg = [n for n in ast.walk(fn) if isinstance(n, (ast.Assign, ast.AugAssign, ast.AnnAssign, ast.NamedExpr, ast.For, ast.comprehension))
               and any(isinstance(t, ast.Name) and t.id == var for t in ast.walk(
                   n.target if hasattr(n, "target") else ast.Tuple(elts=list(n.targets), ctx=ast.Store())))]
        return len(asg) == 1 and isinstance(asg[0], ast.Assign) and asg[0] in fn.body and _same(asg[0], f"{var} = get_stack_frame()")

    def param_not_rebound(fn, var):
        return not any(isinstance(n, ast.Name) and n.id == var and isinstance(n.ctx, (ast.Store, ast.Del)) for n in ast.walk(fn))

    f_call, f_gather, f_unpack = sites["planCall"][1], sites["planGather"][1], sites["planUnpack"][1]
    f_add, f_source, f_run = sites["registryAdd"][1], sites["registrySource"][1], sites["run"][1]
    c1 = calls_to(f_call, "_call")
    c2 = calls_to(f_gather, "_gather")
    c3 = calls_to(f_unpack, "_call")
    rv_add = ctor_calls(f_add, "RegistryValue")
    c5 = calls_to(f_source, "_call")
    rv_src = ctor_calls(f_source, "RegistryValue")
    c6 = calls_to(f_run, "_gather", "gather", "_call", "call")
    uses = {
        "planCall": len(c1) == 1 and first_arg_is(c1[0], "get_stack_frame()") and isinstance(f_call.body[-1], ast.Return)
        and f_call.body[-1].value is c1[0] and not calls_to(f_call, "_gather", "gather", "call"),
        "planGather": len(c2) == 1 and first_arg_is(c2[0], "get_stack_frame()") and isinstance(f_gather.body[-1], ast.Return)
        and f_gather.body[-1].value is c2[0] and not calls_to(f_gather, "_call", "gather", "call"),
        "planUnpack": assigned_once_from_capture(f_unpack, "stack_frame") and len(c3) == 2
        and all(first_arg_is(c, "stack_frame") for c in c3) and not calls_to(f_unpack, "_gather", "gather", "call")
        and any(_same(c.args[1], "_builtins.unpack") for c in c3 if len(c.args) > 1)
        and any(_same(c.args[1], "operator.getitem") for c in c3 if len(c.args) > 1),
        "registryAdd": len(rv_add) == 1 and kw_is(rv_add[0], "stack_frame", "get_stack_frame()")
        and any(isinstance(st, ast.Assign) and st.value is rv_add[0] and ast.unparse(st.targets[0]) == "self.mapping[node]" for st in f_add.body),
        "registrySource": assigned_once_from_capture(f_source, "stack_frame") and len(c5) == 1
        and first_arg_is(c5[0], "stack_frame") and len(c5[0].args) > 1 and _same(c5[0].args[1], "source")
        and len(rv_src) == 1 and kw_is(rv_src[0], "stack_frame", "stack_frame") and kw_is(rv_src[0], "is_source", "True")
        and not calls_to(f_source, "_gather", "gather", "call"),
        "run": len(c6) == 1 and c6[0].func.attr == "_gather" and first_arg_is(c6[0], "get_stack_frame()")
        and len(c6[0].args) == 2 and _same(c6[0].args[1], "output"),
    }
    # nested symbolic calls receive the frame that was already captured
    nested = {
        "callNode": False, "callArgGather": False, "callKwargGather": False, "gatherNested": False,
        "unpackTuple": uses["planUnpack"], "unpackGetitem": uses["planUnpack"],
        "sourceCall": uses["registrySource"], "sourceEntry": uses["registrySource"],
        "storeCall": False,
    }
    pc = _method(plan, "Plan", "_call")
    pc_args = [a_.arg for a_ in pc.args.args]
    mk = ctor_calls(pc, "Call")
    gs_in_call = calls_to(pc, "_gather")
    no_capture_in_call = not any(_is_capture(n) for n in ast.walk(pc)) and param_not_rebound(pc, "stack_frame") \
        and pc_args[:2] == ["self", "stack_frame"] and not calls_to(pc, "gather", "call", "_call")
    nested["callNode"] = no_capture_in_call and len(mk) == 1 and kw_is(mk[0], "stack_frame", "stack_frame") \
        and isinstance(pc.body[-1], ast.Return) and any(isinstance(st, ast.Assign) and st.value is mk[0]
                                                   and ast.unparse(st.targets[0]) == ast.unparse(pc.body[-1].value) for st in pc.body)
    # one _gather per positional and one per keyword argument, each handed the same frame
    loops = [st for st in pc.body if isinstance(st, ast.For)]
    pos = [c for lp in loops if "kwargs" not in ast.unparse(lp.iter) for c in calls_to(lp, "_gather")]
    kws = [c for lp in loops if "kwargs" in ast.unparse(lp.iter) for c in calls_to(lp, "_gather")]
    nested["callArgGather"] = no_capture_in_call and len(pos) == 1 and first_arg_is(pos[0], "stack_frame")
    nested["callKwargGather"] = no_capture_in_call and len(kws) == 1 and first_arg_is(kws[0], "stack_frame") \
        and len(gs_in_call) == 2
    pg = _method(plan, "Plan", "_gather")
    cg = calls_to(pg, "_call")
    nested["gatherNested"] = (not any(_is_capture(n) for n in ast.walk(pg)) and param_not_rebound(pg, "stack_frame")
                              and [a_.arg for a_ in pg.args.args][:2] == ["self", "stack_frame"]
                              and len(cg) == 1 and first_arg_is(cg[0], "stack_frame")
                              and not calls_to(pg, "gather", "call", "_gather"))
    avs = _find_func(cach, "_add_value_store", F)
    nc = next((s_ for s_ in avs.body if isinstance(s_, ast.FunctionDef) and s_.name == "nested_call"), None)
    nested_ok = False
    if nc is not None:
        inner = calls_to(nc, "_call")
        nested_ok = (len(inner) == 1 and _same(inner[0].func, "plan._call") and first_arg_is(inner[0], "registry_value.stack_frame")
                     and isinstance(nc.body[0], ast.Assign) and nc.body[0].value is inner[0]
                     and isinstance(nc.body[-1], ast.Return) and _same(nc.body[-1].value, ast.unparse(nc.body[0].targets[0]))
                     and not any(isinstance(n, ast.Attribute) and n.attr == "stack_frame" and isinstance(n.ctx, ast.Store)
                                 for n in ast.walk(nc)))
    # every symbolic call created by _add_value_store goes through nested_call (no other _call / Call( in it)
    others = [n for n in ast.walk(avs) if isinstance(n, ast.Call) and (
        (isinstance(n.func, ast.Attribute) and n.func.attr in ("_call", "call", "gather", "_gather"))
        or (isinstance(n.func, ast.Name) and n.func.id == "Call"))]
    uses_nested = [n for n in ast.walk(avs) if isinstance(n, ast.Call) and isinstance(n.func, ast.Name) and n.func.id == "nested_call"]
    reads = [n for n in uses_nested if n.args and _same(n.args[0], "value_store.__class__.read")]
    writes = [n for n in uses_nested if n.args and _same(n.args[0], "value_store.__class__.write")]
    rv_param = any(a_.arg == "registry_value" for a_ in avs.args.args) and param_not_rebound(avs, "registry_value")
    nested["storeCall"] = bool(nested_ok and rv_param and len(others) == 1 and len(reads) == 1 and len(writes) == 1
                               and len(uses_nested) == 2)
    flags["registryValueStoresFrame"] = _same(_method(reg, "RegistryValue", "__init__"), '''
def __init__(self, value_store, *, is_source, stack_frame):
    self.value_store = value_store
    self.is_source = is_source
    self.stack_frame = stack_frame
''')
    flags["callStoresFrame"] = _same(_method(graph, "Call", "__init__"), '''
def __init__(self, fn, *, scope=(), stack_frame=None):
    self.fn = fn
    self.stack_frame = stack_frame
    super().__init__(scope=scope)
''')
    flags["storeEntriesFromRegistryMapping"] = any(
        isinstance(n, ast.For) and _same(n.iter, "registry.mapping.items()")
        and [x.id for x in ast.walk(n.target) if isinstance(x, ast.Name)] == ["node", "registry_value"] and any(
            isinstance(c, ast.Call) and isinstance(c.func, ast.Name) and c.func.id == "_add_value_store" and len(c.args) >= 3
            and _same(c.args[1], "node") and _same(c.args[2], "registry_value") for c in ast.walk(n))
        for n in ast.walk(_find_func(cach, "plan_with_value_stores", F)))

    # ---- the error path ----------------------------------------------------------------------------------------
    flags["callErrorRendersCallFrame"] = _same(_method(errs, "CallError", "__init__"), '''
def __init__(self, call):
    super().__init__(
        "\\n".join(
            [
                f"An exception was raised in a symbolic call to {fully_qualified_name(call.fn)}.",
                render_symbolic_traceback(call.stack_frame),
            ]
        )
    )
    self.call = call
''')
    run_fn = sites["run"][1]
    tr = next((s for s in run_fn.body if isinstance(s, ast.Try)), None)
    flags["runRaisesCallErrorOfNode"] = bool(
        tr and len(tr.handlers) == 1 and not tr.finalbody and not tr.orelse
        and _same(tr.handlers[0].type, "NodeError") and tr.handlers[0].name == "e"
        and _same(tr.handlers[0].body, "raise CallError(e.node) from e.__cause__"))
    flags["nodeErrorKeepsNode"] = _same(_method(errs, "NodeError", "__init__"), '''
def __init__(self, node):
    super().__init__(f"An exception was raised during execution of the following node: {node!r}.")
    self.node = node
''')
    pwc = _find_func(cach, "process_with_callbacks", F)
    flags["staleRaisesNodeErrorOfNode"] = False
    # Not part of `faithful` (nothing in C19 needs it; it is what makes finding F5 possible): nodes that are not
    # calls are processed outside the try, so their failure is wrapped by the engine, with a non-Call node.
    stale_non_calls_unwrapped = False
    if len(pwc.body) == 1 and isinstance(pwc.body[0], ast.If) and _same(pwc.body[0].test, "type(node) is Call"):
        i = pwc.body[0]
        stale_non_calls_unwrapped = bool(i.orelse) and not any(isinstance(n, ast.Try) for s_ in i.orelse for n in ast.walk(s_))
        t2 = next((s for s in i.body if isinstance(s, ast.Try)), None)
        flags["staleRaisesNodeErrorOfNode"] = bool(
            t2 and len(t2.handlers) == 1 and _same(t2.handlers[0].type, "Exception") and not t2.finalbody
            and _same(t2.handlers[0].body[-1], "raise NodeError(node) from exception"))
    pr = _find_func(_find_func(phys, "prep_run_physical", F), "process", F)
    flags["runRaisesNodeErrorOfNode"] = False
    flags["runProcessesOnlyCalls"] = False
    if len(pr.body) == 1 and isinstance(pr.body[0], ast.If) and _same(pr.body[0].test, "type(node) is Call") and not pr.body[0].orelse:
        flags["runProcessesOnlyCalls"] = True
        t3 = next((s for s in pr.body[0].body if isinstance(s, ast.Try)), None)
        flags["runRaisesNodeErrorOfNode"] = bool(
            t3 and len(t3.handlers) == 1
            and _same(t3.handlers[0].type, "Exception")
            and _same(t3.handlers[0].body[-1], "raise NodeError(node) from exception"))
    # the modified-time query sits in `process`, reached for EVERY registered node (Call or not)
    pns = _find_func(cach, "process_no_stale_ancestor", F)
    flags["mtimeQueriedForEveryRegisteredNode"] = any(
        isinstance(n, ast.Attribute) and n.attr == "get_modified_time" and _same(n.value, "value_store") for n in ast.walk(pns)) and any(
        _same(s, "value_store = registry.get(node)") for s in pns.body)

    for k, v in uses.items():
        flags["use_" + k] = v

    # ---- emit --------------------------------------------------------------------------------------------------
    site_names = list(sites)
    nested_names = list(nested)
    names = sorted(flags)
    b = lambda v: "true" if v else "false"  # noqa: E731
    out = [PRELUDE, "namespace Uberjob.Gen.Traceback", "",
           "/-- `MAX_TRACEBACK_DEPTH` -/", f"def maxDepth : Nat := {max_depth}", "",
           "/-- default of `initial_depth` in `get_stack_frame(initial_depth=…)` -/",
           f"def initialDepth : Nat := {initial_depth}", "",
           f"/-- the truncation test of `get_stack_frame.recurse`: `{ast.unparse(test)}` -/",
           f"def truncTest (depth : Int) : Bool := {test_l}", "",
           f"/-- the depth handed to the recursive call: `{ast.unparse(dec)}` -/",
           f"def nextDepth (depth : Int) : Int := {dec_l}", "",
           "/-- `format_stack_frame` of the truncation marker -/", f"def truncatedText : String := {lean_str(consts['trunc'])}", "",
           "/-- first line of the rendered symbolic traceback -/", f"def headerText : String := {lean_str(consts['header'])}", "",
           "/-- rendering stops at the first frame whose path contains this text -/",
           f"def ipythonCut : String := {lean_str(consts['cut'])}", "",
           f"/-- `{ast.unparse(fstr)}` -/",
           f"def formatFrame (path : String) (line : Nat) (name : String) : String := {fmt_l}", "",
           "/-- The API functions that capture a symbolic stack frame. -/",
           "inductive Site where", "  | " + " | ".join(site_names), "deriving DecidableEq, Repr", "",
           "/-- The function calls `get_stack_frame()` exactly once, without arguments, in its own frame, and is not",
           "    wrapped by a decorator: the stack seen by `inspect.currentframe()` is",
           "    `get_stack_frame :: <the API function> :: <its caller> :: …`. -/",
           "def siteDirect : Site → Bool"]
    out += [f"  | .{k} => {b(direct[k])}" for k in site_names]
    out += ["", "/-- Places where a symbolic call (or a registry entry) is created from an ALREADY captured frame. -/",
            "inductive Nested where", "  | " + " | ".join(nested_names), "deriving DecidableEq, Repr", "",
            "/-- The frame stored there is the one handed in (`stack_frame` / `registry_value.stack_frame`), not a new capture. -/",
            "def passesFrame : Nested → Bool"]
    out += [f"  | .{k} => {b(nested[k])}" for k in nested_names]
    out += ["", "/-- Further structural facts (see harness/gen/traceback.py). -/", "structure Facts where"]
    out += [f"  {n} : Bool" for n in names]
    out += ["deriving Repr", "", "def facts : Facts where"]
    out += [f"  {n} := {b(flags[n])}" for n in names]
    out += ["", "def Facts.faithful (k : Facts) : Bool :=", "  " + " && ".join(f"k.{n}" for n in names), "",
            "/-- In the stale check, nodes that are not calls are processed outside the `try` that raises `NodeError(node)`",
            "    (informational: the precondition of finding F5; not part of `faithful`). -/",
            f"def staleNonCallsUnwrapped : Bool := {b(stale_non_calls_unwrapped)}", "",
            "end Uberjob.Gen.Traceback", ""]
    info = {"flags": flags, "stale_non_calls_unwrapped": stale_non_calls_unwrapped, "direct": direct, "nested": nested, "max_depth": max_depth, "initial_depth": initial_depth,
            "consts": consts,
            "source_hash": _h("".join(_dump(t) for t in (tb, plan, reg, cach, runm, errs, phys)))}
    return "\n".join(out), info


FRAGMENTS = {"Traceback": gen_traceback}
