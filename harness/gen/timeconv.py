"""T1 fragment `TimeConv`: which naive/aware handling `_to_naive_utc_time` (caching.py) has, and where the
stale check applies it.

Two shapes of `_to_naive_utc_time` are recognised (anything else is a TranslateError, never a default):

* `.convertLocal` —  `value.astimezone(dt.timezone.utc).replace(tzinfo=None) if value else value`
  (a naive datetime is read as local time, PEP 495 `fold` honoured, and converted like an aware one);
* `.keepNaive`    —  `... if value and value.tzinfo else value`
  (aware values are converted to naive UTC, naive values are used as they are — finding F3).

The application sites are recorded as Boolean facts (`Sites`): `fresh_time` is converted once, before any
comparison; the result of the only `get_modified_time` query is converted before it is compared or stored;
`modified_time_lookup` is only ever fed converted values; the comparison is the only consumer.
"""
import ast

from harness.translate import PRELUDE, TranslateError, _dump, _find_func, _h, _module, _same

_CONVERT = "value.astimezone(dt.timezone.utc).replace(tzinfo=None)"


def _handling(fn, F):
    """The single statement of `_to_naive_utc_time` -> 'convertLocal' | 'keepNaive'."""
    body = [s for s in fn.body if not (isinstance(s, ast.Expr) and isinstance(s.value, ast.Constant))]
    args = fn.args
    if not (len(args.args) == 1 and args.args[0].arg == "value" and not args.vararg and not args.kwarg
            and not args.kwonlyargs and not args.posonlyargs and not args.defaults and not fn.decorator_list):
        raise TranslateError(F, "_to_naive_utc_time no longer takes exactly one parameter `value`")
    if len(body) != 1 or not isinstance(body[0], ast.Return) or not isinstance(body[0].value, ast.IfExp):
        raise TranslateError(F, "_to_naive_utc_time is not a single `return <a> if <c> else <b>`: "
                             + "; ".join(ast.unparse(s) for s in body))
    e = body[0].value
    if not _same(e.body, _CONVERT):
        raise TranslateError(F, "conversion branch is not `%s`: %s" % (_CONVERT, ast.unparse(e.body)))
    if not _same(e.orelse, "value"):
        raise TranslateError(F, "else branch is not `value`: " + ast.unparse(e.orelse))
    if _same(e.test, "value"):
        return "convertLocal", ast.unparse(e)
    if _same(e.test, "value and value.tzinfo"):
        return "keepNaive", ast.unparse(e)
    raise TranslateError(F, "unrecognised condition in _to_naive_utc_time: " + ast.unparse(e.test))


def _assign_values(tree, target_code):
    """Right-hand sides of every assignment to `target_code` (None for a form that is not a plain `x = e`)."""
    out = []
    for n in ast.walk(tree):
        if isinstance(n, ast.Assign):
            if any(ast.unparse(t) == target_code for t in n.targets):
                out.append(n.value if len(n.targets) == 1 else None)
            elif any(target_code in [ast.unparse(e) for e in ast.walk(t)] for t in n.targets):
                out.append(None)        # tuple-unpacking or similar: not a shape we recognise
        elif isinstance(n, (ast.AugAssign, ast.AnnAssign, ast.NamedExpr)) and ast.unparse(n.target) == target_code:
            out.append(None)
    return out


def gen_timeconv():
    F = "TimeConv"
    tree = _module("_transformations/caching.py")
    conv = _find_func(tree, "_to_naive_utc_time", F)
    handling, conv_src = _handling(conv, F)
    gs = _find_func(tree, "_get_stale_nodes", F)
    pn = _find_func(gs, "process_no_stale_ancestor", F)
    sites = {}
    # fresh_time: converted exactly once, as a statement of _get_stale_nodes placed before the nested functions
    idx_conv = [i for i, s in enumerate(gs.body) if _same(s, "fresh_time = _to_naive_utc_time(fresh_time)")]
    idx_defs = [i for i, s in enumerate(gs.body) if isinstance(s, ast.FunctionDef)]
    sites["freshTimeConvertedFirst"] = len(idx_conv) == 1 and bool(idx_defs) and idx_conv[0] < min(idx_defs)
    fresh_assigns = _assign_values(gs, "fresh_time")
    sites["freshTimeAssignedOnce"] = len(fresh_assigns) == 1
    # the only get_modified_time query, converted before anything else sees it
    queries = [n for n in ast.walk(gs) if isinstance(n, ast.Attribute) and n.attr == "get_modified_time"]
    sites["singleModifiedTimeQuery"] = len(queries) == 1
    mt_assigns = _assign_values(gs, "modified_time")
    sites["modifiedTimeConverted"] = (len(mt_assigns) == 1 and mt_assigns[0] is not None and _same(
        mt_assigns[0], "_to_naive_utc_time(retry(value_store.get_modified_time)())"))
    # the lookup that feeds max_ancestor_modified_time only ever receives converted values
    lk = _assign_values(gs, "modified_time_lookup[node].value")
    sites["lookupFedConvertedOnly"] = (len(lk) == 2 and all(v is not None for v in lk) and sorted(
        ast.unparse(v) for v in lk) == ["max_ancestor_modified_time", "modified_time"])
    anc = _assign_values(gs, "max_ancestor_modified_time")
    sites["ancestorTimeFromLookup"] = (len(anc) == 1 and anc[0] is not None and _same(anc[0], """
safe_max(
    modified_time_lookup[predecessor].value
    for predecessor in plan.graph.predecessors(node)
)"""))
    # the comparison is the only ordering of times in the function, and it is between converted values
    compares = [n for n in ast.walk(gs) if isinstance(n, ast.Compare)
                and any(isinstance(o, (ast.Gt, ast.Lt, ast.GtE, ast.LtE)) for o in n.ops)]
    sites["singleTimeComparison"] = (len(compares) == 1 and _same(
        compares[0], "safe_max(modified_time, max_ancestor_modified_time, fresh_time) > modified_time"))
    # exactly the two conversion calls
    calls = [n for n in ast.walk(gs) if isinstance(n, ast.Call) and _same(n.func, "_to_naive_utc_time")]
    sites["exactlyTwoConversionCalls"] = len(calls) == 2
    # the lookup slots start empty (None), so an unprocessed predecessor contributes nothing
    sites["lookupStartsEmpty"] = any(_same(
        s, "modified_time_lookup = {node: Slot() for node in plan.graph.nodes()}") for s in gs.body)
    # file stores report naive local time
    fs = _module("stores/_file_store.py")
    gm = _find_func(fs, "get_modified_time", F)
    sites["fileStoreNaiveLocal"] = _same(gm, """
def get_modified_time(path):
    try:
        t = os.path.getmtime(path)
    except OSError:
        return None
    return dt.datetime.fromtimestamp(t)
""")
    names = sorted(sites)
    out = [PRELUDE, "namespace Uberjob.Gen.TimeConv", "",
           "/-- What `_to_naive_utc_time` does with a naive datetime. -/",
           "inductive Handling where",
           "  /-- naive = local time, converted to UTC like an aware value (`fold` honoured) -/",
           "  | convertLocal",
           "  /-- naive values are used as they are (only aware ones are converted) -/",
           "  | keepNaive",
           "deriving DecidableEq, Repr", "",
           "/-- `" + " ".join(conv_src.split()) + "` -/",
           f"def naiveHandling : Handling := .{handling}", "",
           "/-- Where `_get_stale_nodes` applies the conversion (see harness/gen/timeconv.py). -/",
           "structure Sites where"]
    out += [f"  {n} : Bool" for n in names]
    out += ["deriving Repr", "", "def sites : Sites where"]
    out += [f"  {n} := {'true' if sites[n] else 'false'}" for n in names]
    out += ["", "/-- Every time that reaches the comparison went through `_to_naive_utc_time` exactly once. -/",
            "def Sites.allConverted (k : Sites) : Bool :=", "  " + " && ".join(f"k.{n}" for n in names), "",
            "end Uberjob.Gen.TimeConv", ""]
    return "\n".join(out), {"handling": handling, "flags": sites,
                            "source_hash": _h(_dump(conv) + _dump(gs) + _dump(gm))}


FRAGMENTS = {"TimeConv": gen_timeconv}
