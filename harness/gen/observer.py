"""T1 fragment: where and in which order uberjob.run talks to its ProgressObserver."""
import ast

from harness.translate import PRELUDE, TranslateError, _dump, _find_class, _find_func, _h, _module, _same


def gen_observer():
    F = "Observer"
    facts = {}
    run_t = _module("_run.py")
    run = _find_func(run_t, "run", F)
    tr = [s for s in run.body if isinstance(s, ast.Try)]
    facts["runBodyInsideWithObserver"] = (
        len(tr) == 1 and len(tr[0].body) == 1 and isinstance(tr[0].body[0], ast.With)
        and len(tr[0].body[0].items) == 1 and _same(tr[0].body[0].items[0].context_expr, "progress_observer")
        and tr[0].body[0].items[0].optional_vars is None)
    w = tr[0].body[0] if facts["runBodyInsideWithObserver"] else None
    # inside the `with`: (registry? plan_with_value_stores : prune_plan), transform_physical?, _update_run_totals, dry_run return, run_physical
    facts["runTotalsBeforeRunPhysical"] = False
    if w is not None:
        idx = {("totals" if _same(s, "_update_run_totals(plan, progress_observer)") else
                "runphys" if isinstance(s, ast.Return) and isinstance(s.value, ast.Call) and _same(s.value.func, "run_physical") else
                "other"): i for i, s in enumerate(w.body)}
        facts["runTotalsBeforeRunPhysical"] = "totals" in idx and "runphys" in idx and idx["totals"] < idx["runphys"]
        facts["observerHandedToRunPhysical"] = any(
            isinstance(s, ast.Return) and isinstance(s.value, ast.Call) and _same(s.value.func, "run_physical")
            and any(k.arg == "progress_observer" and _same(k.value, "progress_observer") for k in s.value.keywords)
            for s in w.body)
    else:
        facts["observerHandedToRunPhysical"] = False
    facts["runTotalsShape"] = _same(_find_func(run_t, "_update_run_totals", F), '''
def _update_run_totals(plan, progress_observer):
    scope_counts = collections.Counter(
        get_full_call_scope(node) for node in plan.graph.nodes() if type(node) is Call
    )
    for scope, count in scope_counts.items():
        progress_observer.increment_total(section="run", scope=scope, amount=count)
''')
    rp = _module("_execution/run_physical.py")
    prep = _find_func(rp, "prep_run_physical", F)
    facts["runProcessShape"] = _same(_find_func(prep, "process", F), '''
def process(node):
    if type(node) is Call:
        scope = get_full_call_scope(node)
        progress_observer.increment_running(section="run", scope=scope)
        bound_call = bound_call_lookup[node]
        try:
            bound_call.value.run(node.fn, retry)
        except Exception as exception:
            # Drop internal frames
            exception.__traceback__ = exception.__traceback__.tb_next.tb_next
            progress_observer.increment_failed(
                section="run",
                scope=scope,
                exception=create_chained_call_error(node, exception),
            )
            raise NodeError(node) from exception
        finally:
            bound_call.value = None
        progress_observer.increment_completed(section="run", scope=scope)
''')
    ca = _module("_transformations/caching.py")
    facts["staleTotalsShape"] = _same(_find_func(ca, "_update_stale_totals", F), '''
def _update_stale_totals(plan, registry, progress_observer):
    scope_counts = collections.Counter(
        _get_stale_scope(node, registry)
        for node in plan.graph.nodes()
        if type(node) is Call
    )
    for scope, count in scope_counts.items():
        progress_observer.increment_total(section="stale", scope=scope, amount=count)
''')
    gs = _find_func(ca, "_get_stale_nodes", F)
    facts["staleProcessShape"] = _same(_find_func(gs, "process_with_callbacks", F), '''
def process_with_callbacks(node):
    if type(node) is Call:
        scope = _get_stale_scope(node, registry)
        progress_observer.increment_running(section="stale", scope=scope)
        try:
            process(node)
        except Exception as exception:
            # Drop internal frames
            exception.__traceback__ = (
                exception.__traceback__.tb_next.tb_next.tb_next
            )
            progress_observer.increment_failed(
                section="stale",
                scope=scope,
                exception=create_chained_call_error(node, exception),
            )
            raise NodeError(node) from exception
        progress_observer.increment_completed(section="stale", scope=scope)
    else:
        process(node)
''')
    pw = _find_func(ca, "plan_with_value_stores", F)
    body = pw.body
    i_tot = next((i for i, s in enumerate(body) if _same(s, "_update_stale_totals(plan, registry, progress_observer)")), None)
    i_st = next((i for i, s in enumerate(body) if isinstance(s, ast.Assign) and isinstance(s.value, ast.Call)
                 and _same(s.value.func, "_get_stale_nodes")), None)
    facts["staleTotalsBeforeStaleCheck"] = i_tot is not None and i_st is not None and i_tot < i_st
    comp = _module("progress/_composite_progress_observer.py")
    cls = _find_class(comp, "CompositeProgressObserver", F)
    ok = True
    for name, call in [("increment_total", "progress_observer.increment_total(section=section, scope=scope, amount=amount)"),
                       ("increment_running", "progress_observer.increment_running(section=section, scope=scope)"),
                       ("increment_completed", "progress_observer.increment_completed(section=section, scope=scope)"),
                       ("increment_failed", "progress_observer.increment_failed(section=section, scope=scope, exception=exception)")]:
        fn = _find_func(cls, name, F)
        ok = ok and len(fn.body) == 1 and isinstance(fn.body[0], ast.For) and _same(fn.body[0].iter, "self._progress_observers") \
            and len(fn.body[0].body) == 1 and _same(fn.body[0].body[0], call)
    facts["compositeForwardsEach"] = ok
    facts["compositeEntersInOrderExitsReversed"] = _same(_find_func(cls, "__enter__", F), '''
def __enter__(self):
    with ExitStack() as stack:
        for progress_observer in self._progress_observers:
            stack.enter_context(progress_observer)
        self._stack = stack.pop_all()
''') and _same(_find_func(cls, "__exit__", F), '''
def __exit__(self, exc_type, exc_val, exc_tb):
    self._stack.__exit__(exc_type, exc_val, exc_tb)
''')
    names = sorted(facts)
    out = [PRELUDE, "namespace Uberjob.Gen.Observer", "", "structure Facts where"]
    out += [f"  {n} : Bool" for n in names]
    out += ["deriving Repr", "", "def facts : Facts where"]
    out += [f"  {n} := {'true' if facts[n] else 'false'}" for n in names]
    out += ["", "def Facts.ok (k : Facts) : Bool :=", "  " + " && ".join(f"k.{n}" for n in names), "",
            "end Uberjob.Gen.Observer", ""]
    return "\n".join(out), {"flags": facts, "source_hash": _h(_dump(run) + _dump(prep) + _dump(gs) + _dump(cls))}


FRAGMENTS = {"Observer": gen_observer}
