"""T1 plug-in for the retry part of C10: src/uberjob/_util/retry.py and every place `retry(...)` is applied
->  lean/UberjobModel/Gen/Retry.lean  (namespace Uberjob.Gen.Retry).

Template-with-holes as in harness/gen/traceback.py: `create_retry` is compared structurally with a template whose
holes (the `attempts < 1` test, the `attempts == 1` test, the `range(...)` argument, the is-last-attempt expression,
the default of `exc_type`) are filled with the text of the sub-expressions that are translated to Lean.
"""
from __future__ import annotations

import ast

from harness.translate import PRELUDE, Expr, TranslateError, _dump, _find_class, _find_func, _h, _module, _same

F = "Retry"


def _calls_named(tree, name):
    return [n for n in ast.walk(tree) if isinstance(n, ast.Call) and isinstance(n.func, ast.Name) and n.func.id == name]


def _kw_passes(call, kw, value):
    return any(k.arg == kw and _same(k.value, value) for k in call.keywords)


def gen_retry():
    rt = _module("_util/retry.py")
    runm = _module("_run.py")
    cach = _module("_transformations/caching.py")
    phys = _module("_execution/run_physical.py")
    flags = {}

    cr = _find_func(rt, "create_retry", F)
    a = cr.args
    if not (len(a.args) == 2 and a.args[0].arg == "attempts" and a.args[1].arg == "exc_type" and len(a.defaults) == 1
            and isinstance(a.defaults[0], ast.Name) and a.defaults[0].id in ("Exception", "BaseException")):
        raise TranslateError(F, "create_retry(attempts, exc_type=<Exception|BaseException>) expected")
    default_exc = a.defaults[0].id
    body = [s for s in cr.body if not (isinstance(s, ast.Expr) and isinstance(s.value, ast.Constant))]
    try:
        rej_if, id_if, inner = body[1], body[2], body[3]
        rej_test, id_test = rej_if.test, id_if.test
        wrapper = inner.body[0]
        loop = wrapper.body[0]
        range_arg = loop.iter.args[0]
        handler = loop.body[0].handlers[0]
        last_expr = handler.body[0].value
        msg = rej_if.body[0].exc.args[0].value
    except (AttributeError, IndexError, TypeError):
        raise TranslateError(F, "create_retry no longer has the pinned shape")
    template = f'''
def create_retry(attempts, exc_type={default_exc}):
    assert_is_instance(attempts, "attempts", int)
    if {ast.unparse(rej_test)}:
        raise ValueError({msg!r})
    if {ast.unparse(id_test)}:
        return identity

    def inner_retry(f):
        @wraps(f)
        def wrapper(*args, **kwargs):
            for attempt_index in range({ast.unparse(range_arg)}):
                try:
                    return f(*args, **kwargs)
                except exc_type:
                    is_last_attempt = {ast.unparse(last_expr)}
                    if is_last_attempt:
                        raise

        return wrapper

    return inner_retry
'''
    if not _same(cr, template):
        raise TranslateError(F, "create_retry no longer has the pinned shape (validate, identity for one attempt, "
                                "for/try/return/except/re-raise-on-last)")
    for what, node, allowed in (("rejection test", rej_test, {"attempts"}), ("identity test", id_test, {"attempts"}),
                                ("range argument", range_arg, {"attempts"}),
                                ("is-last-attempt expression", last_expr, {"attempts", "attempt_index"})):
        for n in ast.walk(node):
            if isinstance(n, ast.Name) and n.id not in allowed:
                raise TranslateError(F, f"{what} mentions {n.id}")
    ex = Expr(F, {"attempts": ("attempts", "Int"), "attempt_index": ("attemptIndex", "Int")})
    rej_l, t1 = ex.tr(rej_test)
    id_l, t2 = ex.tr(id_test)
    rng_l, t3 = ex.tr(range_arg)
    last_l, t4 = ex.tr(last_expr)
    if (t1, t2, t4) != ("Bool", "Bool", "Bool") or t3 not in ("Int", "Lit"):
        raise TranslateError(F, f"unexpected types of the translated expressions: {t1} {t2} {t3} {t4}")
    flags["identityIsIdentity"] = _same(_find_func(rt, "identity", F), "def identity(x):\n    return x")
    flags["wrapsKeepsMetadataOnly"] = any(
        isinstance(s, ast.ImportFrom) and s.module == "functools" and any(x.name == "wraps" and x.asname is None for x in s.names)
        for s in rt.body)

    # ---- where retry is applied --------------------------------------------------------------------------------
    co = _find_func(runm, "_coerce_retry", F)
    default_attempts = None
    if len(co.body) == 2 and _same(co.body[0], "if callable(retry):\n    return retry") and isinstance(co.body[1], ast.Return):
        v = co.body[1].value
        if (isinstance(v, ast.Call) and _same(v.func, "create_retry") and len(v.args) == 1 and not v.keywords
                and isinstance(v.args[0], ast.IfExp) and _same(v.args[0].test, "retry is None")
                and isinstance(v.args[0].body, ast.Constant) and type(v.args[0].body.value) is int
                and _same(v.args[0].orelse, "retry")):
            default_attempts = v.args[0].body.value
    if default_attempts is None:
        raise TranslateError(F, "_coerce_retry no longer is `if callable(retry): return retry; "
                                "return create_retry(<k> if retry is None else retry)`")
    flags["coerceRetryPassesCallables"] = True
    run_fn = _find_func(runm, "run", F)
    flags["runCoercesRetry"] = any(_same(n, "retry = _coerce_retry(retry)") for n in ast.walk(run_fn) if isinstance(n, ast.Assign)) \
        and len(_calls_named(run_fn, "_coerce_retry")) == 1
    pv = [c for c in _calls_named(run_fn, "plan_with_value_stores")]
    rp = [c for c in _calls_named(run_fn, "run_physical")]
    flags["runPassesRetryToStaleCheck"] = len(pv) == 1 and _kw_passes(pv[0], "retry", "retry")
    flags["runPassesRetryToRunPhysical"] = len(rp) == 1 and _kw_passes(rp[0], "retry", "retry")
    pws = _find_func(cach, "plan_with_value_stores", F)
    gs = _calls_named(pws, "_get_stale_nodes")
    flags["staleCheckReceivesRetry"] = len(gs) == 1 and _kw_passes(gs[0], "retry", "retry")
    pns = _find_func(cach, "process_no_stale_ancestor", F)
    # `retry(value_store.get_modified_time)()`: the decorated bound method is what gets called
    flags["mtimeQueryRetried"] = any(
        isinstance(n, ast.Call) and not n.args and not n.keywords and _same(n.func, "retry(value_store.get_modified_time)")
        for n in ast.walk(pns)) and sum(
        1 for n in ast.walk(pns) if isinstance(n, ast.Attribute) and n.attr == "get_modified_time") == 1
    flags["oneRetrySiteInCaching"] = len(_calls_named(cach, "retry")) == 1
    rph = _find_func(phys, "run_physical", F)
    pp = _calls_named(rph, "prep_run_physical")
    flags["runPhysicalPassesRetry"] = len(pp) == 1 and _kw_passes(pp[0], "retry", "retry")
    prep = _find_func(phys, "prep_run_physical", F)
    flags["retryDefaultsToIdentity"] = any(_same(s, "retry = retry or identity") for s in prep.body)
    proc = _find_func(prep, "process", F)
    flags["callRunsThroughRetry"] = sum(
        1 for n in ast.walk(proc) if isinstance(n, ast.Call) and _same(n, "bound_call.value.run(node.fn, retry)")) == 1 and not any(
        isinstance(n, ast.Call) and _same(n.func, "node.fn") for n in ast.walk(proc))
    bc = _find_class(phys, "BoundCall", F)
    brun = next((n for n in bc.body if isinstance(n, ast.FunctionDef) and n.name == "run"), None)
    # `self.result.value = retry(fn)(…)` is the only place `fn` is used
    flags["boundCallAppliesRetryToFn"] = brun is not None and [a_.arg for a_ in brun.args.args] == ["self", "fn", "retry"] and any(
        isinstance(st, ast.Assign) and ast.unparse(st.targets[0]) == "self.result.value" and isinstance(st.value, ast.Call)
        and _same(st.value.func, "retry(fn)") for st in brun.body) and sum(
        1 for n in ast.walk(brun) if isinstance(n, ast.Name) and n.id == "fn") == 1
    flags["oneRetrySiteInRunPhysical"] = len(_calls_named(phys, "retry")) == 1
    avs = _find_func(cach, "_add_value_store", F)
    uses_nested = [n for n in ast.walk(avs) if isinstance(n, ast.Call) and isinstance(n.func, ast.Name) and n.func.id == "nested_call"]
    flags["storeReadWriteAreCalls"] = (
        sum(1 for n in uses_nested if n.args and _same(n.args[0], "value_store.__class__.read")) == 1
        and sum(1 for n in uses_nested if n.args and _same(n.args[0], "value_store.__class__.write")) == 1)

    names = sorted(flags)
    b = lambda v: "true" if v else "false"  # noqa: E731
    out = [PRELUDE, "namespace Uberjob.Gen.Retry", "",
           "/-- The two exception classes that matter for `except exc_type`. -/",
           "inductive ExcClass where", "  | exception | baseException", "deriving DecidableEq, Repr", "",
           f"/-- default of `exc_type` in `create_retry`: `{default_exc}` -/",
           f"def defaultExcType : ExcClass := .{'exception' if default_exc == 'Exception' else 'baseException'}", "",
           f"/-- `if {ast.unparse(rej_test)}: raise ValueError(...)` -/",
           f"def rejects (attempts : Int) : Bool := {rej_l}", "",
           f"/-- `if {ast.unparse(id_test)}: return identity` -/",
           f"def isIdentity (attempts : Int) : Bool := {id_l}", "",
           f"/-- number of iterations of `for attempt_index in range({ast.unparse(range_arg)})` -/",
           f"def loopBound (attempts : Int) : Nat := (({rng_l} : Int)).toNat", "",
           f"/-- `is_last_attempt = {ast.unparse(last_expr)}` -/",
           f"def isLastAttempt (attemptIndex attempts : Int) : Bool := {last_l}", "",
           "/-- `_coerce_retry`: `create_retry(<this> if retry is None else retry)` -/",
           f"def defaultAttempts : Int := {default_attempts}", "",
           "/-- Where `run` applies the retry decorator (see harness/gen/retry.py). -/", "structure Facts where"]
    out += [f"  {n} : Bool" for n in names]
    out += ["deriving Repr", "", "def facts : Facts where"]
    out += [f"  {n} := {b(flags[n])}" for n in names]
    out += ["", "def Facts.faithful (k : Facts) : Bool :=", "  " + " && ".join(f"k.{n}" for n in names), "",
            "end Uberjob.Gen.Retry", ""]
    info = {"flags": flags, "default_exc": default_exc, "default_attempts": default_attempts,
            "source_hash": _h("".join(_dump(t) for t in (rt, runm, cach, phys)))}
    return "\n".join(out), info


FRAGMENTS = {"Retry": gen_retry}
