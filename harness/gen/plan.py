"""T1 plug-in for C02: `_plan.py` / `graph.py` / `_builtins.py` / `run_physical.py` -> lean/UberjobModel/Gen/Plan.lean.

Translated (the model computes with these definitions):
  * `_builtins.unpack`  ->  `unpackTake` (second argument of `islice`) and `unpackOk` (no length guard raises)
  * `GATHER_LOOKUP`     ->  `gatherLookup : Ty -> Option GFn` (the key set, and which built-in each key maps to)
  * `gather_list/tuple/set/dict`  ->  `gfnBuilds : GFn -> Ty` (which constructor the built-in applies to `args`)
Pinned (whole-shape facts recorded as Booleans of `skeleton`; the property theorems discharge
`skeleton.faithful` by `decide`): the body of `_gather.recurse` (lookup by `type(root)`, dict through `.items()`,
children in order, rebuild only if `any(isinstance(child, Node))`, otherwise the very `root`), `_gather`'s tail,
`_call` (call node, `enumerate(args)` -> `PositionalArg(index)`, `enumerate(kwargs.items())` -> `KeywordArg(name, index)`),
`Plan.lit`, `Plan.unpack`, the three edge-key classes, `get_argument_nodes` (placement by `edge_key.index`),
`BoundCall.run` / `_create_bound_call` / the result-slot table / the return of `run_physical`, the rewiring loop of
`_add_value_store` (edge key object re-used), `run`'s gather of `output` on the copy.
"""
from __future__ import annotations

import ast

from harness.translate import PRELUDE, Expr, TranslateError, _dump, _find_class, _find_func, _h, _module, _same

F = "plan"

TYPES = ["list", "tuple", "set", "dict"]          # the only exact types the model's PV can distinguish


def _method(cls, name):
    for s in cls.body:
        if isinstance(s, ast.FunctionDef) and s.name == name:
            return s
    raise TranslateError(F, f"method {cls.name}.{name} not found")


def _tr_unpack(tree):
    fn = _find_func(tree, "unpack", F)
    if [a.arg for a in fn.args.args] != ["iterable", "length"] or fn.args.vararg or fn.args.kwarg:
        raise TranslateError(F, "unpack: signature is not (iterable, length)")
    body = [s for s in fn.body if not (isinstance(s, ast.Expr) and isinstance(s.value, ast.Constant))]
    if len(body) < 2:
        raise TranslateError(F, "unpack: body too short")
    first, last = body[0], body[-1]
    # t = tuple(itertools.islice(iterable, <take>))
    ok = (isinstance(first, ast.Assign) and len(first.targets) == 1 and isinstance(first.targets[0], ast.Name)
          and isinstance(first.value, ast.Call) and _same(first.value.func, "tuple") and len(first.value.args) == 1
          and not first.value.keywords)
    if not ok:
        raise TranslateError(F, "unpack: first statement is not `t = tuple(...)`: " + ast.unparse(first))
    tname = first.targets[0].id
    inner = first.value.args[0]
    if not (isinstance(inner, ast.Call) and _same(inner.func, "itertools.islice") and len(inner.args) == 2
            and not inner.keywords and _same(inner.args[0], "iterable")):
        raise TranslateError(F, "unpack: not `itertools.islice(iterable, <n>)`: " + ast.unparse(inner))
    ex = Expr(F, {"length": ("length", "Nat")})
    take = ex.tr(inner.args[1])[0]
    if not (isinstance(last, ast.Return) and isinstance(last.value, ast.Name) and last.value.id == tname):
        raise TranslateError(F, "unpack: does not end with `return t`: " + ast.unparse(last))
    guards = []
    ex2 = Expr(F, {"length": ("length", "Nat"), f"len({tname})": ("len", "Nat")})
    for s in body[1:-1]:
        if not (isinstance(s, ast.If) and not s.orelse and len(s.body) == 1 and isinstance(s.body[0], ast.Raise)
                and isinstance(s.body[0].exc, ast.Call) and _same(s.body[0].exc.func, "ValueError")):
            raise TranslateError(F, "unpack: statement is not `if <cond>: raise ValueError(...)`: " + ast.unparse(s))
        guards.append((ast.unparse(s.test), ex2.truthy(s.test)))
    return take, ast.unparse(inner.args[1]), guards


def _tr_lookup(plan_tree, bi_tree):
    table = None
    for s in plan_tree.body:
        if (isinstance(s, ast.Assign) and len(s.targets) == 1 and isinstance(s.targets[0], ast.Name)
                and s.targets[0].id == "GATHER_LOOKUP"):
            table = s.value
    if not isinstance(table, ast.Dict):
        raise TranslateError(F, "GATHER_LOOKUP is not a module-level dict display")
    entries = {}
    for k, v in zip(table.keys, table.values):
        if not (isinstance(k, ast.Name) and k.id in TYPES):
            raise TranslateError(F, "GATHER_LOOKUP key outside {list, tuple, set, dict}: " + (ast.unparse(k) if k else "**"))
        if not (isinstance(v, ast.Attribute) and _same(v.value, "_builtins") and v.attr.startswith("gather_")
                and v.attr[len("gather_"):] in TYPES):
            raise TranslateError(F, "GATHER_LOOKUP value is not _builtins.gather_<type>: " + ast.unparse(v))
        if k.id in entries:
            raise TranslateError(F, "GATHER_LOOKUP has a duplicate key " + k.id)
        entries[k.id] = v.attr[len("gather_"):]
    builds = {}
    for t in TYPES:
        fn = _find_func(bi_tree, "gather_" + t, F)
        a = fn.args
        if not (a.vararg and a.vararg.arg == "args" and not a.args and not a.kwarg and not a.kwonlyargs):
            raise TranslateError(F, f"gather_{t}: signature is not (*args)")
        body = [s for s in fn.body if not (isinstance(s, ast.Expr) and isinstance(s.value, ast.Constant))]
        hit = [u for u in TYPES if len(body) == 1 and _same(body[0], f"return {u}(args)")]
        if not hit:
            raise TranslateError(F, f"gather_{t}: body is not `return <type>(args)`: " + ast.unparse(fn))
        builds[t] = hit[0]
    return entries, builds


RECURSE = '''
def recurse(root):
    root_type = type(root)
    gather_fn = GATHER_LOOKUP.get(root_type)
    if gather_fn is not None:
        items = root.items() if root_type is dict else root
        children = [recurse(item) for item in items]
        if any(isinstance(child, Node) for child in children):
            return self._call(stack_frame, gather_fn, *children)
    return root
'''

CALL = '''
def _call(self, stack_frame, fn, *args, **kwargs):
    call = Call(fn, scope=self._scope, stack_frame=stack_frame)
    self.graph.add_node(call)
    for index, arg in enumerate(args):
        self.graph.add_edge(self._gather(stack_frame, arg), call, PositionalArg(index))
    for index, (name, arg) in enumerate(kwargs.items()):
        self.graph.add_edge(self._gather(stack_frame, arg), call, KeywordArg(name, index))
    return call
'''

GET_ARGUMENT_NODES = '''
def get_argument_nodes(graph, call):
    in_edges = graph.in_edges(call, keys=True)

    args = []
    keyword_arg_pairs = []
    for _, _, edge_key in in_edges:
        if type(edge_key) is PositionalArg:
            args.append(None)
        elif type(edge_key) is KeywordArg:
            keyword_arg_pairs.append(None)

    for predecessor, _, edge_key in in_edges:
        if type(edge_key) is PositionalArg:
            args[edge_key.index] = predecessor
        elif type(edge_key) is KeywordArg:
            keyword_arg_pairs[edge_key.index] = edge_key.name, predecessor

    return args, dict(keyword_arg_pairs)
'''

BOUND_RUN = '''
def run(self, fn, retry):
    args = [arg.value for arg in self.args]
    kwargs = {name: arg.value for name, arg in self.kwargs.items()}
    self.result.value = retry(fn)(*args, **kwargs)
'''

CREATE_BOUND = '''
def _create_bound_call(graph, call, result_lookup):
    args, kwargs = get_argument_nodes(graph, call)
    args = [result_lookup[predecessor] for predecessor in args]
    kwargs = {name: result_lookup[predecessor] for name, predecessor in kwargs.items()}
    result = result_lookup[call]
    return BoundCall(args, kwargs, result)
'''

RESULT_LOOKUP = '''
result_lookup = {
    node: node if type(node) is Literal else Slot(None)
    for node in plan.graph.nodes()
}
'''

LIT = '''
def lit(self, value):
    if isinstance(value, Node):
        raise TypeError(f"The value is already a {Node.__name__}.")
    literal = Literal(value, scope=self._scope)
    self.graph.add_node(literal)
    return literal
'''

UNPACK_PLAN = '''
def unpack(self, iterable, length):
    if not isinstance(length, int) or length < 0:
        raise ValueError("length must be a non-negative integer.")
    stack_frame = get_stack_frame()
    t = self._call(stack_frame, _builtins.unpack, iterable, length)
    return tuple(
        self._call(stack_frame, operator.getitem, t, index)
        for index in range(length)
    )
'''

REWIRE = '''
for _, successor, dependency in out_edges:
    plan.graph.remove_edge(node, successor, dependency)
    dependency_type = type(dependency)
    if dependency_type in (PositionalArg, KeywordArg):
        plan.graph.add_edge(read_node, successor, dependency)
    elif is_stale:
        assert dependency_type is Dependency
        plan.graph.add_edge(write_node, successor, dependency)
'''

POS_EQ = "def __eq__(self, other):\n    return type(other) is PositionalArg and self.index == other.index"
KW_EQ = ("def __eq__(self, other):\n    return (type(other) is KeywordArg and self.index == other.index"
         " and self.name == other.name)")
DEP_EQ = "def __eq__(self, other):\n    return type(other) is Dependency"


def gen_plan():
    plan_tree = _module("_plan.py")
    bi_tree = _module("_builtins.py")
    graph_tree = _module("graph.py")
    rp_tree = _module("_execution/run_physical.py")
    run_tree = _module("_run.py")
    caching_tree = _module("_transformations/caching.py")

    take, take_src, guards = _tr_unpack(bi_tree)
    entries, builds = _tr_lookup(plan_tree, bi_tree)

    flags = {}
    plan_cls = _find_class(plan_tree, "Plan", F)
    g = _method(plan_cls, "_gather")
    gb = [s for s in g.body if not (isinstance(s, ast.Expr) and isinstance(s.value, ast.Constant))]
    flags["gatherRecurseShape"] = len(gb) == 3 and isinstance(gb[0], ast.FunctionDef) and _same(gb[0], RECURSE)
    flags["gatherTailLitUnlessNode"] = len(gb) == 3 and _same(gb[1], "value = recurse(value)") and _same(
        gb[2], "return value if isinstance(value, Node) else self.lit(value)")
    flags["gatherSignature"] = [a.arg for a in g.args.args] == ["self", "stack_frame", "value"]
    flags["callShape"] = _same(_method(plan_cls, "_call"), CALL)
    flags["litShape"] = _same(_method(plan_cls, "lit"), LIT)
    flags["unpackPlanShape"] = _same(_method(plan_cls, "unpack"), UNPACK_PLAN)
    gather_pub = _method(plan_cls, "gather")
    flags["publicGatherDelegates"] = _same([s for s in gather_pub.body if not (
        isinstance(s, ast.Expr) and isinstance(s.value, ast.Constant))], "return self._gather(get_stack_frame(), value)")
    call_pub = [s for s in _method(plan_cls, "call").body if not (isinstance(s, ast.Expr) and isinstance(s.value, ast.Constant))]
    flags["publicCallDelegates"] = bool(call_pub) and _same(
        call_pub[-1], "return self._call(get_stack_frame(), fn, *args, **kwargs)")
    # edge keys
    pos = _find_class(graph_tree, "PositionalArg", F)
    kw = _find_class(graph_tree, "KeywordArg", F)
    dep = _find_class(graph_tree, "Dependency", F)
    flags["posKeyEqByIndex"] = _same(_method(pos, "__eq__"), POS_EQ) and _same(
        _method(pos, "__init__"), "def __init__(self, index):\n    self.index = index")
    flags["kwKeyEqByNameAndIndex"] = _same(_method(kw, "__eq__"), KW_EQ) and _same(
        _method(kw, "__init__"), "def __init__(self, name, index):\n    self.name = name\n    self.index = index")
    flags["depKeyEq"] = _same(_method(dep, "__eq__"), DEP_EQ)
    flags["literalStoresValue"] = _same(
        _method(_find_class(graph_tree, "Literal", F), "__init__"),
        "def __init__(self, value, *, scope=()):\n    self.value = value\n    super().__init__(scope=scope)")
    flags["argNodesByIndex"] = _same(_find_func(graph_tree, "get_argument_nodes", F), GET_ARGUMENT_NODES)
    # run_physical
    bc = _find_class(rp_tree, "BoundCall", F)
    flags["boundCallRunOrder"] = _same(_method(bc, "run"), BOUND_RUN)
    flags["boundCallCreate"] = _same(_find_func(rp_tree, "_create_bound_call", F), CREATE_BOUND)
    cl = _find_func(rp_tree, "_create_bound_call_lookup_and_output_slot", F)
    flags["literalIsOwnSlot"] = any(_same(s, RESULT_LOOKUP) for s in cl.body) and any(
        _same(s, "output_slot = result_lookup[output_node] if output_node else None") for s in cl.body)
    rp = _find_func(rp_tree, "run_physical", F)
    flags["returnsOutputSlot"] = _same(rp.body[-1], "return output_slot.value if output_slot else None")
    # run(): output gathered on the private copy, before anything else touches the plan
    rn = _find_func(run_tree, "run", F)
    flags["runGathersOutputOnCopy"] = False
    for i, s in enumerate(rn.body):
        if _same(s, "plan = get_mutable_plan(plan, inplace=False)") and i + 1 < len(rn.body):
            flags["runGathersOutputOnCopy"] = _same(
                rn.body[i + 1],
                "output_node = (plan._gather(get_stack_frame(), output) if output is not None else None)")
    # _add_value_store: argument edges move with the same key object
    av = _find_func(caching_tree, "_add_value_store", F)
    flags["rewireKeepsKey"] = any(isinstance(s, ast.For) and _same(s, REWIRE) for s in av.body) and any(
        _same(s, "out_edges = list(plan.graph.out_edges(node, keys=True))") for s in av.body)

    names = sorted(flags)
    cap = lambda t: t[0].upper() + t[1:]  # noqa: E731
    out = [PRELUDE, "namespace Uberjob.Gen.Plan", "",
           "/-- The exact run-time type of an object, as far as `GATHER_LOOKUP.get(type(root))` can tell. -/",
           "inductive Ty where", "  | list | tuple | set | dict | other", "deriving DecidableEq, Repr", "",
           "/-- The built-in gather functions of `_builtins.py`. -/",
           "inductive GFn where", "  | gatherList | gatherTuple | gatherSet | gatherDict", "deriving DecidableEq, Repr", "",
           "/-- `GATHER_LOOKUP.get(type(root))`: " + ", ".join(f"{k}: gather_{v}" for k, v in entries.items()) + " -/",
           "def gatherLookup : Ty → Option GFn"]
    for t in TYPES:
        if t in entries:
            out.append(f"  | .{t} => some .gather{cap(entries[t])}")
    out += ["  | _ => none", "",
            "/-- `gather_<x>(*args)` returns `<type>(args)`. -/", "def gfnBuilds : GFn → Ty"]
    for t in TYPES:
        out.append(f"  | .gather{cap(t)} => .{builds[t]}")
    out += ["", f"/-- `_builtins.unpack`: `tuple(itertools.islice(iterable, {take_src}))` -/",
            f"def unpackTake (length : Nat) : Nat := {take}", "",
            "/-- `_builtins.unpack` returns `t` (no guard raises): " + "; ".join(f"not ({g})" for g, _ in guards) + " -/",
            "def unpackOk (length len : Nat) : Bool := " + (" && ".join(f"!({c})" for _, c in guards) or "true"), "",
            "/-- Structural facts about _plan.py, graph.py, run_physical.py, _run.py, caching.py (harness/gen/plan.py). -/",
            "structure Skeleton where"]
    out += [f"  {n} : Bool" for n in names]
    out += ["deriving Repr", "", "def skeleton : Skeleton where"]
    out += [f"  {n} := {'true' if flags[n] else 'false'}" for n in names]
    out += ["", "/-- Every fact has the value the hand-written `Plan` model assumes. -/",
            "def Skeleton.faithful (k : Skeleton) : Bool :=", "  " + " && ".join(f"k.{n}" for n in names), "",
            "end Uberjob.Gen.Plan", ""]
    src_hash = _h("".join(_dump(t) for t in (plan_tree, bi_tree, graph_tree, rp_tree)))
    return "\n".join(out), {"flags": flags, "lookup": entries, "builds": builds, "unpack_take": take,
                            "unpack_guards": [g for g, _ in guards], "source_hash": src_hash}


FRAGMENTS = {"Plan": gen_plan}
