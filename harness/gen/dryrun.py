"""T1 plug-in for C14 (and the dry-run parts of C09/C13): facts about WHERE `run` returns when `dry_run` is set and about
WHICH value-store methods the transformation path can call.

  src/uberjob/_run.py                     -> `runProg`: the statements of `run` that touch `plan` / `output_node` /
                                             `redirected_output_node`, in source order, as a tiny program
  src/uberjob/_transformations/caching.py,
  pruning.py, _run.py, __init__.py        -> `calledOnStore` (methods of the ValueStore API that are CALLED before the
                                             dry-run return), `referencedAsFn` (handed to plan._call as function
                                             objects), shape facts about `_add_value_store`

->  lean/UberjobModel/Gen/DryRun.lean  (namespace Uberjob.Gen.DryRun)

Anything that is not one of the pinned shapes raises TranslateError (never a default).
"""
from __future__ import annotations

import ast

from harness.translate import PRELUDE, TranslateError, _dump, _find_func, _h, _module, _same

F = "DryRun"
API = {"read": "read", "write": "write", "get_modified_time": "getModifiedTime"}


def _parents(tree):
    par = {}
    for n in ast.walk(tree):
        for c in ast.iter_child_nodes(n):
            par[c] = n
    return par


def _store_uses(tree, where):
    """Classify every mention of a ValueStore API method in `tree`."""
    par = _parents(tree)
    called, referenced, via_retry = [], [], []
    for a in ast.walk(tree):
        if not (isinstance(a, ast.Attribute) and a.attr in API):
            continue
        p = par.get(a)
        if isinstance(p, ast.Call) and p.func is a:
            called.append(a.attr)                       # store.method(...)
        elif (isinstance(p, ast.Call) and isinstance(p.func, ast.Name) and p.func.id == "retry" and p.args == [a]
              and not p.keywords and isinstance(par.get(p), ast.Call) and par[p].func is p
              and not par[p].args and not par[p].keywords):
            called.append(a.attr)                       # retry(store.method)()
            via_retry.append(a.attr)
        elif (isinstance(p, ast.Call) and isinstance(p.func, ast.Name) and p.func.id == "nested_call"
              and p.args and p.args[0] is a and _same(a.value, "value_store.__class__")):
            referenced.append(a.attr)                   # nested_call(store.__class__.method, ...): a function object
        else:
            raise TranslateError(F, f"{where}: unrecognised use of a value-store method: {ast.unparse(p if p is not None else a)}")
    return called, referenced, via_retry


RUN_SHAPES = [
    ("copyPlan", "plan = get_mutable_plan(plan, inplace=False)"),
    ("gatherOutput", """
output_node = (
    plan._gather(get_stack_frame(), output) if output is not None else None
)"""),
    ("initRedirected", "redirected_output_node = output_node"),
]

BLOCK_SHAPES = [
    ("valueStoresOrPrune", """
if registry:
    plan, redirected_output_node = plan_with_value_stores(
        plan,
        registry,
        output_node=output_node,
        progress_observer=progress_observer,
        max_workers=stale_check_max_workers,
        retry=retry,
        fresh_time=fresh_time,
        inplace=True,
    )
else:
    prune_plan(
        plan, required_nodes=[], output_node=output_node, inplace=True
    )"""),
    ("transformPhysical", """
if transform_physical:
    plan, redirected_output_node = transform_physical(
        plan, redirected_output_node
    )"""),
    ("updateRunTotals", "_update_run_totals(plan, progress_observer)"),
    ("dryReturn", """
if dry_run:
    return plan, redirected_output_node"""),
    ("runPhysical", """
return run_physical(
    plan,
    output_node=redirected_output_node,
    progress_observer=progress_observer,
    max_workers=max_workers,
    max_errors=max_errors,
    retry=retry,
    scheduler=scheduler,
    inplace=True,
)"""),
]

STATE_VARS = {"plan", "output_node", "redirected_output_node"}


def _assigned(stmt):
    out = set()
    for n in ast.walk(stmt):
        if isinstance(n, (ast.Assign, ast.AugAssign, ast.AnnAssign)):
            ts = n.targets if isinstance(n, ast.Assign) else [n.target]
            for t in ts:
                for m in ast.walk(t):
                    if isinstance(m, ast.Name):
                        out.add(m.id)
    return out


def gen_dryrun():
    runm = _module("_run.py")
    cach = _module("_transformations/caching.py")
    prun = _module("_transformations/pruning.py")
    init = _module("_transformations/__init__.py")
    run = _find_func(runm, "run", F)
    body = [s for s in run.body if not (isinstance(s, ast.Expr) and isinstance(s.value, ast.Constant))]
    if not (body and isinstance(body[-1], ast.Try)):
        raise TranslateError(F, "run no longer ends with the try block")
    tr = body[-1]
    if not (len(tr.body) == 1 and isinstance(tr.body[0], ast.With) and len(tr.body[0].items) == 1
            and _same(tr.body[0].items[0].context_expr, "progress_observer") and not tr.finalbody and not tr.orelse):
        raise TranslateError(F, "run: `try: with progress_observer:` expected")
    prog = []
    for s in body[:-1]:
        hit = [name for name, code in RUN_SHAPES if _same(s, code)]
        if hit:
            prog.append(hit[0])
        elif _assigned(s) & STATE_VARS or _returns_value(s):
            raise TranslateError(F, f"run: unrecognised statement touching the plan/output before the try: {ast.unparse(s)[:120]}")
    for s in tr.body[0].body:
        hit = [name for name, code in BLOCK_SHAPES if _same(s, code)]
        if not hit:
            raise TranslateError(F, f"run: unrecognised statement in the `with progress_observer` block: {ast.unparse(s)[:160]}")
        prog.append(hit[0])
    for need in ("dryReturn", "runPhysical"):
        if prog.count(need) != 1:
            raise TranslateError(F, f"run: expected exactly one `{need}` statement, found {prog.count(need)}")

    # ---- which store methods can be called before the dry-run return
    called, referenced, via_retry = [], [], []
    for tree, where in ((cach, "caching.py"), (prun, "pruning.py"), (runm, "_run.py"), (init, "_transformations/__init__.py")):
        c, r, v = _store_uses(tree, where)
        called += c
        referenced += r
        via_retry += v
    called_l = sorted(set(called))
    referenced_l = sorted(set(referenced))

    # ---- shape of _add_value_store (the physical plan embeds the stores; nothing refers to the registry afterwards)
    avs = _find_func(cach, "_add_value_store", F)
    nested = _find_func(avs, "nested_call", F)
    facts = {}
    facts["nestedCallIsPlanCall"] = _same(nested.body[0], "call = plan._call(registry_value.stack_frame, *args)")
    stmts = [n for n in ast.walk(avs)]
    facts["storeLiteralEmbedsStore"] = any(_same(n, "value_store_lit = plan.lit(value_store)") for n in stmts
                                            if isinstance(n, ast.Assign))
    facts["valueStoreFromRegistryValue"] = any(_same(n, "value_store = registry_value.value_store") for n in stmts
                                                if isinstance(n, ast.Assign))
    facts["readTakesStoreLiteral"] = any(
        _same(n, "read_node = nested_call(value_store.__class__.read, value_store_lit)") for n in stmts
        if isinstance(n, ast.Assign))
    facts["writeTakesStoreLiteralAndNode"] = any(
        _same(n, """
write_node = nested_call(
    value_store.__class__.write, value_store_lit, node
)""") for n in stmts if isinstance(n, ast.Assign))
    facts["barrierIsLiteral"] = any(_same(n, "write_node = plan.lit(Barrier)") for n in stmts if isinstance(n, ast.Assign))
    facts["mtimeOnlyThroughRetry"] = sorted(set(via_retry)) == called_l
    pws = _find_func(cach, "plan_with_value_stores", F)
    facts["registryLoopInMappingOrder"] = any(
        isinstance(n, ast.For) and _same(n.iter, "registry.mapping.items()") for n in ast.walk(pws))
    facts["outputRedirectedToReadNode"] = any(
        _same(n, "output_node = read_node_lookup.get(output_node, output_node)") for n in ast.walk(pws)
        if isinstance(n, ast.Assign))
    facts["prunePlanAfterLoop"] = any(_same(n, """
prune_plan(
    plan, required_nodes=required_nodes, output_node=output_node, inplace=True
)""") for n in pws.body)
    # the whole loop of plan_with_value_stores and the whole of _add_value_store, statement for statement: the model of the
    # physical plan (Model/Phys.lean: `addValueStore`, `planWithValueStores`) is a transcription of exactly this text, and the
    # generated comparisons use the harness's own store classes - a branch on a property of the store (its class, a flag)
    # would escape them
    loops = [n for n in pws.body if isinstance(n, ast.For)]
    facts["registryLoopShape"] = len(loops) == 1 and _same(loops[0], """
for node, registry_value in registry.mapping.items():
    is_stale = node in stale_nodes
    write_node, read_node = _add_value_store(
        plan, node, registry_value, is_stale=is_stale
    )
    if write_node:
        required_nodes.add(write_node)
    read_node_lookup[node] = read_node
""")
    facts["addValueStoreShape"] = _same(avs, '''
def _add_value_store(
    plan: Plan, node: Node, registry_value: RegistryValue, *, is_stale: bool
) -> tuple[Node | None, Node]:
    def nested_call(*args):
        call = plan._call(registry_value.stack_frame, *args)
        if type(node) is Call:
            call.scope = get_full_call_scope(node)
        return call

    out_edges = list(plan.graph.out_edges(node, keys=True))
    value_store = registry_value.value_store

    with plan.scope(*node.scope):
        value_store_lit = plan.lit(value_store)
        write_node = None
        read_node = nested_call(value_store.__class__.read, value_store_lit)
        if is_stale:
            if registry_value.is_source:
                write_node = plan.lit(Barrier)
                for predecessor in plan.graph.predecessors(node):
                    plan.graph.add_edge(predecessor, write_node, Dependency())
            else:
                write_node = nested_call(
                    value_store.__class__.write, value_store_lit, node
                )
            plan.graph.add_edge(write_node, read_node, Dependency())

    for _, successor, dependency in out_edges:
        plan.graph.remove_edge(node, successor, dependency)
        dependency_type = type(dependency)
        if dependency_type in (PositionalArg, KeywordArg):
            plan.graph.add_edge(read_node, successor, dependency)
        elif is_stale:
            assert dependency_type is Dependency
            plan.graph.add_edge(write_node, successor, dependency)

    return write_node, read_node
''')
    names = sorted(facts)

    def stmt_list(xs):
        return "[" + ", ".join("." + x for x in xs) + "]"

    out = [PRELUDE, "namespace Uberjob.Gen.DryRun", "",
           "/-- The statements of `run` (_run.py) that touch `plan`, `output_node`, `redirected_output_node`. -/",
           "inductive Stmt where",
           "  | copyPlan            -- plan = get_mutable_plan(plan, inplace=False)",
           "  | gatherOutput        -- output_node = plan._gather(frame, output) if output is not None else None",
           "  | initRedirected      -- redirected_output_node = output_node",
           "  | valueStoresOrPrune  -- if registry: plan, redirected = plan_with_value_stores(...) else: prune_plan(...)",
           "  | transformPhysical   -- if transform_physical: plan, redirected = transform_physical(plan, redirected)",
           "  | updateRunTotals     -- _update_run_totals(plan, progress_observer)",
           "  | dryReturn           -- if dry_run: return plan, redirected_output_node",
           "  | runPhysical         -- return run_physical(plan, output_node=redirected_output_node, ...)",
           "deriving DecidableEq, Repr", "",
           "/-- `run`, in source order. -/",
           "def runProg : List Stmt := " + stmt_list(prog), "",
           "/-- The ValueStore API. -/",
           "inductive StoreMethod where",
           "  | getModifiedTime | read | write",
           "deriving DecidableEq, Repr", "",
           "/-- Methods CALLED on a value store in caching.py / pruning.py / _run.py (everything `run` executes before",
           "    `run_physical`). -/",
           "def calledOnStore : List StoreMethod := " + stmt_list(API[m] for m in called_l), "",
           "/-- Methods that only occur as function objects `value_store.__class__.m` handed to `plan._call`. -/",
           "def referencedAsFn : List StoreMethod := " + stmt_list(API[m] for m in referenced_l), "",
           "structure Facts where"]
    out += [f"  {n} : Bool" for n in names]
    out += ["deriving Repr", "", "def facts : Facts where"]
    out += [f"  {n} := {'true' if facts[n] else 'false'}" for n in names]
    out += ["", "def Facts.ok (k : Facts) : Bool :=", "  " + " && ".join(f"k.{n}" for n in names), "",
            "end Uberjob.Gen.DryRun", ""]
    info = {"flags": facts, "runProg": prog, "calledOnStore": called_l, "referencedAsFn": referenced_l,
            "source_hash": _h(_dump(run) + _dump(avs) + _dump(pws) + _dump(prun))}
    return "\n".join(out), info


def _returns_value(stmt):
    return any(isinstance(n, ast.Return) for n in ast.walk(stmt))


FRAGMENTS = {"DryRun": gen_dryrun}
