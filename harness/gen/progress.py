"""T1 plug-in for C20 (and the shared `Progress` model): fragments of /repo/src/uberjob/progress/*.py -> Gen/Progress.lean.

Translated (the Lean text is produced from the Python expressions, not typed in):
  * `_get_progress_string`, `get_elapsed_string`                  -> progressString, elapsedString  (Nat -> String)
  * `ScopeState.__init__` defaults                                -> Cell.init, weightedInit
  * `State.increment_total/running/completed/failed`              -> stepTotal/stepRunning/stepCompleted/stepFailed
    (attribute updates in statement order; `set.add`, the guarded `set.remove`, `d[k]` vs `setdefault`)
  * `State.update_weighted_elapsed`                                -> uweGuard, uweElapsed, weightedDelta
  * the condition of `SimpleProgressObserver._do_render`           -> renderCond
  * console section logic (`is_done`, print / skip decisions)      -> consoleScopeDone, consolePrints, consoleSkipAfter
Pinned shapes (Booleans of `shape`, all required by `Shape.faithful`):
  `_run_update_thread`, the body of `_do_render`, `__enter__/__exit__`, the four notification methods
  (`_stale = True` under the lock), `__init__` initial values, `sorted_scope_items` and its two key functions,
  the divisors in the HTML renderer, the non-empty guards of the renderers.
`sortHasFallback` is *data* (true/false), not a pinned flag: reverting the F4 fix regenerates it as false and the
theorem C20_sort_total stops compiling.
"""
from __future__ import annotations

import ast

from harness.translate import (PRELUDE, Expr, TranslateError, _dump, _find_class, _find_func, _h, _module, _same,
                               lean_str, tr_block)

F = "progress"
SPO = "progress/_simple_progress_observer.py"


class PExpr(Expr):
    """Expr + true division / mixed Int-Rat arithmetic, `x is None` on an optional rational, Rat comparisons."""

    def tr(self, node):
        k = self.key(node)
        if k in self.env:
            return self.env[k]
        if isinstance(node, ast.Compare) and len(node.ops) == 1 and isinstance(node.ops[0], ast.Is) and isinstance(
                node.comparators[0], ast.Constant) and node.comparators[0].value is None:
            e, t = self.tr_opt(node.left)
            return (f"({e}).isNone", "Bool")
        if isinstance(node, ast.BinOp) and isinstance(node.op, (ast.Div, ast.Add, ast.Sub, ast.Mult)):
            l, lt = self.tr(node.left)
            r, rt = self.tr(node.right)
            if "Rat" in (lt, rt) or isinstance(node.op, ast.Div):
                if not {lt, rt} <= {"Rat", "Int", "Lit"}:
                    self.err(node, f"rational arithmetic on {lt}/{rt}")
                l = l if lt == "Rat" else f"(({l} : Int) : Rat)"
                r = r if rt == "Rat" else f"(({r} : Int) : Rat)"
                sym = {ast.Div: "/", ast.Add: "+", ast.Sub: "-", ast.Mult: "*"}[type(node.op)]
                return (f"({l} {sym} {r})", "Rat")
        if isinstance(node, ast.Compare) and len(node.ops) == 1:
            l, lt = self.tr(node.left)
            r, rt = self.tr(node.comparators[0])
            if "Rat" in (lt, rt):
                if lt != rt:
                    self.err(node, f"comparison of {lt} with {rt}")
                sym = {ast.Gt: ">", ast.Lt: "<", ast.GtE: "≥", ast.LtE: "≤"}.get(type(node.ops[0]))
                if sym is None:
                    self.err(node)
                return (f"(decide ({l} {sym} {r}))", "Bool")
        return super().tr(node)

    def tr_opt(self, node):
        k = self.key(node)
        if ("opt:" + k) in self.env:
            return self.env["opt:" + k]
        self.err(node, "not an optional")

    def num(self, lt, rt, node):
        ts = {lt, rt} - {"Lit"}
        if ts == {"Rat"}:
            return "Rat"
        return super().num(lt, rt, node)


def _is(node, text):
    """Target/expression equals the given source text (ignores Load/Store context)."""
    return ast.unparse(node) == text


def _method(cls, name):
    for n in cls.body:
        if isinstance(n, ast.FunctionDef) and n.name == name:
            return n
    raise TranslateError(F, f"method {cls.name}.{name} not found")


def _body(fn):
    return [s for s in fn.body if not (isinstance(s, ast.Expr) and isinstance(s.value, ast.Constant))]


# ----------------------------------------------------------------------------------------------
# strings
# ----------------------------------------------------------------------------------------------

def _gen_strings(tree, out):
    fn = _find_func(tree, "_get_progress_string", F)
    a = fn.args
    if a.args or a.vararg or [x.arg for x in a.kwonlyargs] != ["completed", "failed", "running", "total"]:
        raise TranslateError(F, "_get_progress_string: signature changed")
    ex = Expr(F, {n: (n, "Nat") for n in ("completed", "failed", "running", "total")})
    body = tr_block(_body(fn), ex, F)
    out += ["/-- `_get_progress_string(*, completed, failed, running, total)` -/",
            "def progressString (completed failed running total : Nat) : String :=", "  " + body, ""]
    fn = _find_func(tree, "get_elapsed_string", F)
    if [x.arg for x in fn.args.args] != ["elapsed"]:
        raise TranslateError(F, "get_elapsed_string: signature changed")
    # the argument is a float; `int(elapsed)` truncates it.  The Lean argument is that integer (elapsed >= 0).
    ex = Expr(F, {"elapsed": ("elapsed", "Nat")})
    body = tr_block(_body(fn), ex, F)
    out += ["/-- `get_elapsed_string(elapsed)`; the Lean argument is `int(elapsed)` for `elapsed ≥ 0`. -/",
            "def elapsedString (elapsed : Nat) : String :=", "  " + body, ""]


# ----------------------------------------------------------------------------------------------
# State bookkeeping
# ----------------------------------------------------------------------------------------------

FIELDS = ("completed", "failed", "running", "total")
SETDEFAULT_CHAIN = "self.section_scope_mapping.setdefault(section, {}).setdefault(scope, ScopeState())"


def _emit_updates(stmts, env, inset, counter):
    """Attribute updates in statement order -> nested lets ending in `.ok {cell} rc`."""
    if not stmts:
        cell = ", ".join(f"{f} := {env['scope_state.' + f][0]}" for f in FIELDS)
        return f".ok {{ {cell}, inSet := {inset} }} {env['self.running_count'][0]}"
    s, rest = stmts[0], stmts[1:]
    ex = PExpr(F, env)
    if isinstance(s, ast.AugAssign) and isinstance(s.op, (ast.Add, ast.Sub)):
        key = ast.unparse(s.target)
        if key not in env:
            raise TranslateError(F, f"update of an attribute outside the model: {ast.unparse(s)}")
        cur, t = env[key]
        v, vt = ex.tr(s.value)
        if vt not in ("Int", "Lit"):
            raise TranslateError(F, f"non-integer increment: {ast.unparse(s)}")
        counter[0] += 1
        name = key.split(".")[-1] + str(counter[0])
        sym = "+" if isinstance(s.op, ast.Add) else "-"
        env2 = dict(env)
        env2[key] = (name, "Int")
        return f"let {name} : Int := ({cur} {sym} {v})\n  " + _emit_updates(rest, env2, inset, counter)
    if _same(s, "self._running_scope_states.add(scope_state)"):
        return _emit_updates(rest, env, "true", counter)
    if isinstance(s, ast.If) and not s.orelse and len(s.body) == 1 and _same(
            s.body[0], "self._running_scope_states.remove(scope_state)"):
        c = ex.truthy(s.test)
        a = _emit_updates(rest, env, "false", counter)
        b = _emit_updates(rest, env, inset, counter)
        return f"if {c} then (if {inset} then ({a}) else .removeAbsent)\n  else ({b})"
    raise TranslateError(F, f"State method: unsupported statement: {ast.unparse(s)}")


def _gen_state(tree, out, flags):
    ss = _find_class(tree, "ScopeState", F)
    init = _method(ss, "__init__")
    kws = [a.arg for a in init.args.kwonlyargs]
    if kws != list(FIELDS) + ["weighted_elapsed"] or init.args.args[1:] or not all(
            isinstance(d, ast.Constant) and type(d.value) is int and d.value >= 0 for d in init.args.kw_defaults):
        raise TranslateError(F, "ScopeState.__init__: signature/defaults changed")
    if not all(_same(s, f"self.{k} = {k}") for s, k in zip(_body(init), kws)) or len(_body(init)) != len(kws):
        raise TranslateError(F, "ScopeState.__init__: body changed")
    dflt = {k: d.value for k, d in zip(kws, init.args.kw_defaults)}
    out += ["/-- One `ScopeState` (without the float) plus the membership of that object in",
            "    `State._running_scope_states`. -/",
            "structure Cell where",
            "  completed : Int", "  failed : Int", "  running : Int", "  total : Int", "  inSet : Bool",
            "deriving DecidableEq, Repr", "",
            "/-- `ScopeState()` (defaults of `__init__`); a fresh object is in no set. -/",
            "def Cell.init : Cell := { " + ", ".join(f"{k} := {dflt[k]}" for k in FIELDS) + ", inSet := false }",
            f"def weightedInit : Rat := {dflt['weighted_elapsed']}", "",
            "/-- Result of one bookkeeping method on the cell it addresses and on `running_count`.",
            "    `removeAbsent` = `set.remove` of an element that is not in the set (KeyError). -/",
            "inductive Res where", "  | ok (c : Cell) (rc : Int)", "  | removeAbsent", "deriving DecidableEq, Repr", ""]
    st = _find_class(tree, "State", F)
    sinit = _method(st, "__init__")
    flags["stateInit"] = _same(_body(sinit), """
self.section_scope_mapping = {}
self.running_count = 0
self._running_scope_states = set()
self._prev_time = start_time
""")
    base_env = {"scope_state." + f: ("c." + f, "Int") for f in FIELDS}
    base_env["self.running_count"] = ("rc", "Int")
    # increment_total: one statement, `<setdefault chain>.total += amount`
    m = _method(st, "increment_total")
    b = _body(m)
    if not (len(b) == 1 and isinstance(b[0], ast.AugAssign) and isinstance(b[0].target, ast.Attribute)
            and _same(b[0].target.value, SETDEFAULT_CHAIN) and [a.arg for a in m.args.args] == ["self", "section", "scope", "amount"]):
        raise TranslateError(F, "State.increment_total: shape changed")
    flags["totalCreatesMissing"] = True            # the setdefault chain, pinned just above
    flags["totalSkipsElapsedUpdate"] = True        # no update_weighted_elapsed() in increment_total, pinned above
    env = dict(base_env)
    env["amount"] = ("amount", "Int")
    aug = ast.AugAssign(target=ast.parse("scope_state." + b[0].target.attr).body[0].value, op=b[0].op, value=b[0].value)
    out += ["/-- `State.increment_total`: `" + ast.unparse(b[0]).replace(SETDEFAULT_CHAIN, "<setdefault…>") + "` -/",
            "def stepTotal (c : Cell) (rc : Int) (amount : Int) : Res :=",
            "  " + _emit_updates([aug], env, "c.inSet", [0]), ""]
    for py, lean in (("increment_running", "stepRunning"), ("increment_completed", "stepCompleted"),
                     ("increment_failed", "stepFailed")):
        m = _method(st, py)
        b = _body(m)
        if [a.arg for a in m.args.args] != ["self", "section", "scope"]:
            raise TranslateError(F, f"State.{py}: signature changed")
        if not (len(b) >= 2 and _same(b[0], "self.update_weighted_elapsed()")
                and _same(b[1], "scope_state = self.section_scope_mapping[section][scope]")):
            raise TranslateError(F, f"State.{py}: does not start with update_weighted_elapsed(); scope_state = mapping[section][scope]")
        code = _emit_updates(b[2:], dict(base_env), "c.inSet", [0])
        out += [f"/-- `State.{py}` after `update_weighted_elapsed()` and the `[section][scope]` lookup (KeyError when missing):",
                "    " + "; ".join(ast.unparse(s).replace("\n", " ") for s in b[2:]) + " -/",
                f"def {lean} (c : Cell) (rc : Int) : Res :=", "  " + code, ""]
    flags["lookupByIndexAfterElapsedUpdate"] = True  # pinned in the loop above
    # update_weighted_elapsed
    m = _method(st, "update_weighted_elapsed")
    b = _body(m)
    ok = (len(b) == 3 and _same(b[0], "t = time.time()") and isinstance(b[1], ast.If) and not b[1].orelse
          and _same(b[2], "self._prev_time = t") and len(b[1].body) == 3)
    if ok:
        e_, m_, loop = b[1].body
        ok = (isinstance(e_, ast.Assign) and _is(e_.targets[0], "elapsed") and isinstance(m_, ast.Assign)
              and _is(m_.targets[0], "multiplier") and isinstance(loop, ast.For)
              and _same(loop.iter, "self._running_scope_states") and _is(loop.target, "scope_state")
              and len(loop.body) == 1 and isinstance(loop.body[0], ast.AugAssign) and isinstance(loop.body[0].op, ast.Add)
              and _is(loop.body[0].target, "scope_state.weighted_elapsed"))
    if not ok:
        raise TranslateError(F, "State.update_weighted_elapsed: shape changed")
    guard = PExpr(F, {"self.running_count": ("rc", "Int")}).truthy(b[1].test)
    el = PExpr(F, {"t": ("t", "Rat"), "self._prev_time": ("prev", "Rat")}).tr(e_.value)
    mu = PExpr(F, {"elapsed": ("elapsed", "Rat"), "self.running_count": ("rc", "Int")}).tr(m_.value)
    inc = PExpr(F, {"multiplier": ("multiplier", "Rat"), "scope_state.running": ("running", "Int")}).tr(loop.body[0].value)
    if el[1] != "Rat" or mu[1] != "Rat" or inc[1] != "Rat":
        raise TranslateError(F, "update_weighted_elapsed: unexpected types")
    out += ["/-- `update_weighted_elapsed`: `if " + ast.unparse(b[1].test) + ":` -/",
            f"def uweGuard (rc : Int) : Bool := {guard}",
            "/-- `" + ast.unparse(e_) + "` -/",
            f"def uweElapsed (t prev : Rat) : Rat := {el[0]}",
            "/-- `" + ast.unparse(m_) + "`; for every scope state in `_running_scope_states`: `" + ast.unparse(loop.body[0]) + "` -/",
            "def weightedDelta (elapsed : Rat) (rc running : Int) : Rat :=",
            f"  let multiplier : Rat := {mu[0]}", f"  {inc[0]}", ""]
    flags["elapsedUpdateShape"] = True


# ----------------------------------------------------------------------------------------------
# update thread / render point
# ----------------------------------------------------------------------------------------------

def _gen_observer(tree, out, flags):
    cls = _find_class(tree, "SimpleProgressObserver", F)
    dr = _method(cls, "_do_render")
    b = _body(dr)
    if not (len(b) == 3 and _same(b[0], "t = time.time()") and isinstance(b[1], ast.If) and not b[1].orelse
            and _same(b[2], "return None")):
        raise TranslateError(F, "_do_render: shape changed")
    flags["doRenderBody"] = _same(b[1].body, """
self._stale = False
self._last_render_time = t
self._state.update_weighted_elapsed()
output_value = self._render(
    self._state.section_scope_mapping,
    self._new_exception_index,
    self._exception_tuples,
    t - self._start_time,
)
self._new_exception_index = len(self._exception_tuples)
return output_value
""")
    env = {"self._stale": ("stale", "Bool"), "opt:self._last_render_time": ("last", "OptRat"),
           # only evaluated after `self._last_render_time is None` was false (Python `or` short-circuits)
           "self._last_render_time": ("(last.getD 0)", "Rat"),
           "t": ("t", "Rat"), "self._max_update_interval": ("maxInterval", "Rat")}
    test = b[1].test
    if not (isinstance(test, ast.BoolOp) and isinstance(test.op, ast.Or) and len(test.values) == 3
            and _same(test.values[1], "self._last_render_time is None")):
        raise TranslateError(F, "_do_render: condition is not `a or self._last_render_time is None or c`")
    cond = PExpr(F, env).tr(test)[0]
    out += ["/-- `_do_render`: `if " + " ".join(ast.unparse(test).split()) + ":` -/",
            "def renderCond (stale : Bool) (last : Option Rat) (t maxInterval : Rat) : Bool :=", f"  {cond}", ""]
    flags["updateThreadShape"] = _same(_method(cls, "_run_update_thread"), '''
def _run_update_thread(self):
    done = False
    first = True
    while not done:
        done = self._done_event.wait(
            self._initial_update_delay if first else self._min_update_interval
        )
        first = False
        with self._lock:
            output_value = self._do_render()
        if output_value is not None:
            self._output(output_value)
''')
    flags["enterStartsThread"] = _same(_body(_method(cls, "__enter__")), """
self._thread = threading.Thread(target=self._run_update_thread)
self._thread.start()
""")
    flags["exitSetsDoneThenJoins"] = _same(_body(_method(cls, "__exit__")), """
self._done_event.set()
self._thread.join()
self._thread = None
""")
    ok = True
    for name, call in (("increment_total", "self._state.increment_total(section, scope, amount)"),
                       ("increment_running", "self._state.increment_running(section, scope)"),
                       ("increment_completed", "self._state.increment_completed(section, scope)"),
                       ("increment_failed", "self._state.increment_failed(section, scope)")):
        b = _body(_method(cls, name))
        ok = ok and len(b) == 1 and isinstance(b[0], ast.With) and len(b[0].items) == 1 and _same(
            b[0].items[0].context_expr, "self._lock") and len(b[0].body) >= 2 and _same(
            b[0].body[0], "self._stale = True") and _same(b[0].body[1], call)
        if name != "increment_failed":
            ok = ok and len(b[0].body) == 2
    flags["notifSetsStaleUnderLock"] = ok
    ib = _body(_method(cls, "__init__"))
    flags["observerInit"] = all(any(_same(s, code) for s in ib) for code in (
        "self._stale = True", "self._last_render_time = None", "self._start_time = time.time()",
        "self._state = State(self._start_time)", "self._lock = threading.Lock()", "self._done_event = threading.Event()"))


# ----------------------------------------------------------------------------------------------
# sorting of scopes
# ----------------------------------------------------------------------------------------------

def _gen_sort(tree, out, flags):
    uk = _find_func(tree, "_universal_sort_key", F)
    flags["universalKeyShape"] = _same(uk, "def _universal_sort_key(*args):\n    return tuple((str(type(x)), x) for x in args)")
    natural = "sorted(scope_dict.items(), key=lambda pair: _universal_sort_key(*pair[0]))"
    fallback = "sorted(scope_dict.items(), key=lambda pair: _fallback_sort_key(*pair[0]))"
    fn = _find_func(tree, "sorted_scope_items", F)
    b = _body(fn)
    has_fallback = None
    if len(b) == 1 and isinstance(b[0], ast.Return) and _same(b[0].value, natural):
        has_fallback = False
    elif (len(b) == 1 and isinstance(b[0], ast.Try) and not b[0].orelse and not b[0].finalbody
          and len(b[0].body) == 1 and isinstance(b[0].body[0], ast.Return) and _same(b[0].body[0].value, natural)
          and len(b[0].handlers) == 1 and _same(b[0].handlers[0].type, "TypeError")
          and len(b[0].handlers[0].body) == 1 and isinstance(b[0].handlers[0].body[0], ast.Return)
          and _same(b[0].handlers[0].body[0].value, fallback)):
        has_fallback = True
        fk = _find_func(tree, "_fallback_sort_key", F)
        if not _same(fk, "def _fallback_sort_key(*args):\n    return tuple((str(type(x)), str(x)) for x in args)"):
            raise TranslateError(F, "_fallback_sort_key: shape changed (must be a tuple of (str(type(x)), str(x)))")
    if has_fallback is None:
        raise TranslateError(F, "sorted_scope_items: neither `return sorted(natural key)` nor try/except TypeError with the fallback key")
    out += ["/-- `sorted_scope_items`: `try: return sorted(items, key=natural) except TypeError: return sorted(items, key=fallback)`",
            "    (true) or the bare `return sorted(items, key=natural)` (false). -/",
            f"def sortHasFallback : Bool := {'true' if has_fallback else 'false'}", ""]


# ----------------------------------------------------------------------------------------------
# renderers
# ----------------------------------------------------------------------------------------------

def _gen_renderers(out, flags):
    html = _module("progress/_html_progress_observer.py")
    rs = _find_func(html, "_render_scope", F)
    divs = [n for n in ast.walk(html) if isinstance(n, ast.BinOp) and isinstance(n.op, (ast.Div, ast.FloorDiv, ast.Mod))]
    in_rs = [n for n in ast.walk(rs) if isinstance(n, ast.BinOp) and isinstance(n.op, (ast.Div, ast.FloorDiv, ast.Mod))]
    flags["htmlDividesOnlyByTotal"] = len(divs) == len(in_rs) == 3 and all(
        isinstance(n.op, ast.Div) and _same(n.right, "scope_state.total") for n in divs)
    sec = _find_func(html, "_render_section", F)
    foot = [n for n in ast.walk(sec) if isinstance(n, ast.If)]
    flags["htmlFooterIffSeveralScopes"] = len(foot) == 1 and _same(foot[0].test, "len(scope_mapping) > 1") and any(
        _same(s, "total_scope_state = _get_total_scope_state(scope_mapping.values())") for s in foot[0].body)
    flags["htmlTotalIsSum"] = any(
        isinstance(k, ast.keyword) and k.arg == "total" and _same(k.value, "sum((s.total for s in scope_states))")
        for k in ast.walk(_find_func(html, "_get_total_scope_state", F)))
    body = _find_func(html, "_render_body", F)
    flags["htmlSectionsOnlyIfNonEmpty"] = "if (scope_mapping := state.get(section))" in ast.unparse(body)
    con = _module("progress/_console_progress_observer.py")
    rnd = _method(_find_class(con, "ConsoleProgressObserver", F), "_render")
    loops = [n for n in ast.walk(rnd) if isinstance(n, ast.For)]
    if not (len(loops) == 1 and isinstance(loops[0].iter, ast.Tuple) and all(
            isinstance(e, ast.Constant) and isinstance(e.value, str) for e in loops[0].iter.elts)):
        raise TranslateError(F, "ConsoleProgressObserver._render: section loop changed")
    sections = [e.value for e in loops[0].iter.elts]
    lb = loops[0].body
    if not (len(lb) == 2 and _same(lb[0], "scope_mapping = state.get(section)") and isinstance(lb[1], ast.If)
            and _same(lb[1].test, "scope_mapping") and not lb[1].orelse and len(lb[1].body) == 3):
        raise TranslateError(F, "ConsoleProgressObserver._render: section body changed")
    flags["consoleSectionsOnlyIfNonEmpty"] = True
    d_, p_, s_ = lb[1].body
    ok = (isinstance(d_, ast.Assign) and _is(d_.targets[0], "is_done") and isinstance(d_.value, ast.Call)
          and _same(d_.value.func, "all") and len(d_.value.args) == 1 and isinstance(d_.value.args[0], ast.GeneratorExp)
          and len(d_.value.args[0].generators) == 1 and _same(d_.value.args[0].generators[0].iter, "scope_mapping.values()")
          and _is(d_.value.args[0].generators[0].target, "s") and not d_.value.args[0].generators[0].ifs
          and isinstance(p_, ast.If) and not p_.orelse and _same(p_.body, "_print_section(print_, section, scope_mapping)")
          and isinstance(s_, ast.If) and _same(s_.test, "is_done") and _same(s_.body, "self._skipped_sections.add(section)")
          and _same(s_.orelse, "self._skipped_sections.discard(section)"))
    if not ok:
        raise TranslateError(F, "ConsoleProgressObserver._render: is_done / skip logic changed")
    done = Expr(F, {"s." + f: (f, "Int") for f in FIELDS}).tr(d_.value.args[0].elt)[0]
    prints = Expr(F, {"is_done": ("isDone", "Bool"), "section not in self._skipped_sections": ("(!inSkipped)", "Bool")}).tr(p_.test)[0]
    out += ["/-- console `_render`: `is_done = all(" + ast.unparse(d_.value.args[0].elt) + " for s in scope_mapping.values())` -/",
            f"def consoleScopeDone (completed failed total : Int) : Bool := {done}",
            "/-- console `_render`: `if " + ast.unparse(p_.test) + ": _print_section(…)` -/",
            f"def consolePrints (isDone inSkipped : Bool) : Bool := {prints}",
            "/-- console `_render`: `if is_done: skipped.add(section) else: skipped.discard(section)` -/",
            "def consoleSkipAfter (isDone : Bool) : Bool := isDone",
            "/-- the sections the renderers look at, in display order -/",
            "def renderedSections : List String := [" + ", ".join(lean_str(s) for s in sections) + "]", ""]
    ps = _find_func(con, "_print_section", F)
    flags["consoleUsesSortedScopeItems"] = _same(_body(ps)[0], "scope_items = sorted_scope_items(scope_mapping)")
    ipy = _module("progress/_ipython_progress_observer.py")
    src_h, src_i = ast.unparse(html), ast.unparse(ipy)
    pairs = "(('stale', 'Determining stale value stores'), ('run', 'Running graph'))"
    flags["sameSectionsEverywhere"] = sections == ["stale", "run"] and pairs in src_h and pairs in src_i
    flags["allRenderersSortScopes"] = "sorted_scope_items(scope_mapping)" in src_h and "sorted_scope_items(scope_mapping)" in src_i
    flags["ipythonNoDivision"] = not any(isinstance(n, ast.BinOp) and isinstance(n.op, (ast.Div, ast.FloorDiv, ast.Mod))
                                         for n in ast.walk(ipy))
    flags["consoleNoDivision"] = not any(isinstance(n, ast.BinOp) and isinstance(n.op, (ast.Div, ast.FloorDiv, ast.Mod))
                                         for n in ast.walk(con))
    return [html, con, ipy]


def gen_progress():
    tree = _module(SPO)
    flags = {}
    out = [PRELUDE, "namespace Uberjob.Gen.Progress", "",
           "/-- f-string format spec `02` on a non-negative int: zero-padded to width 2 (hand-written prelude). -/",
           "def pad2 (n : Nat) : String := if n < 10 then \"0\" ++ toString n else toString n", ""]
    _gen_strings(tree, out)
    _gen_state(tree, out, flags)
    _gen_observer(tree, out, flags)
    _gen_sort(tree, out, flags)
    others = _gen_renderers(out, flags)
    names = sorted(flags)
    out += ["/-- Structural facts about uberjob/progress/*.py (see harness/gen/progress.py). -/", "structure Shape where"]
    out += [f"  {n} : Bool" for n in names]
    out += ["deriving Repr", "", "def shape : Shape where"]
    out += [f"  {n} := {'true' if flags[n] else 'false'}" for n in names]
    out += ["", "/-- Every fact has the value the hand-written `Progress` model assumes. -/",
            "def Shape.faithful (k : Shape) : Bool :=", "  " + " && ".join(f"k.{n}" for n in names), "",
            "end Uberjob.Gen.Progress", ""]
    src_hash = _h("".join(_dump(t) for t in [tree] + others))
    return "\n".join(out), {"flags": flags, "source_hash": src_hash,
                            "sort_has_fallback": "def sortHasFallback : Bool := true" in "\n".join(out)}


FRAGMENTS = {"Progress": gen_progress}
