"""T1 fragments `FileStore` and `TextCodec` (properties C11, C12): the shape of the staged-write helpers of
`stores/_file_store.py` and of the `read`/`write` methods of the five file-backed stores.

Recognised alternatives (everything else is a TranslateError, never a default):

* `staged_write_path`: `os.replace(staging_path, path)` is the statement after `yield staging_path` INSIDE the
  `try` (`replaceInsideTry = true`), or the first statement after the `try` / its `else` (`false`, finding F2);
  the single handler is `except BaseException` / bare `except` (`handlerCatchesBaseException = true`) or
  `except Exception` (`false`); its body is `_try_remove(staging_path); raise` with either statement possibly
  missing (`handlerRemovesStaging`, `handlerReraises`).
* `staged_write`, `_try_remove`, `get_modified_time`, `FileStore.get_modified_time`: whole-shape pins.
* every store: `write` is `[if value is not None: raise TypeError(..)]  with staged_write(self.path, <mode>,
  [encoding=self.encoding], [newline=<const>]) [as outputfile]: <body>` with `<body>` one of
  `outputfile.write(value)`, `json.dump(value, outputfile, ...)`, `pickle.dump(value, outputfile)`, `pass`;
  `read` is `with open(self.path, <mode>, [encoding=self.encoding], [newline=<const>]) as inputfile:` followed by
  `return inputfile.read()`, `return json.load(inputfile)`, `return pickle.load(inputfile)` or the touch-file
  emptiness check.
"""
import ast

from harness.translate import PRELUDE, TranslateError, _dump, _find_class, _find_func, _h, _module, _same, lean_str

STORES = [
    ("textFileStore", "TextFileStore", "stores/_text_file_store.py"),
    ("binaryFileStore", "BinaryFileStore", "stores/_binary_file_store.py"),
    ("jsonFileStore", "JsonFileStore", "stores/_json_file_store.py"),
    ("pickleFileStore", "PickleFileStore", "stores/_pickle_file_store.py"),
    ("touchFileStore", "TouchFileStore", "stores/_touch_file_store.py"),
]

NEWLINES = {None: "universal", "": "empty", "\n": "lf", "\r": "cr", "\r\n": "crlf"}


def _body(fn):
    return [s for s in fn.body
            if not (isinstance(s, ast.Expr) and isinstance(s.value, ast.Constant) and isinstance(s.value.value, str))]


def _is_name(node, name):
    return isinstance(node, ast.Name) and node.id == name


def _b(v):
    return "true" if v else "false"


def _chars(s):
    return "[" + ", ".join("'%s'" % c for c in s) + "]"


# ----------------------------------------------------------------------------------------------------------
# _file_store.py
# ----------------------------------------------------------------------------------------------------------

def _staged_write_path(tree, F):
    fn = _find_func(tree, "staged_write_path", F)
    if not (len(fn.decorator_list) == 1 and _same(fn.decorator_list[0], "contextmanager")):
        raise TranslateError(F, "staged_write_path is not decorated with exactly @contextmanager")
    a = fn.args
    if not (len(a.args) == 1 and a.args[0].arg == "path" and not a.vararg and not a.kwarg and not a.kwonlyargs
            and not a.defaults and not a.posonlyargs):
        raise TranslateError(F, "staged_write_path no longer takes exactly one parameter `path`")
    body = _body(fn)
    if len(body) < 3:
        raise TranslateError(F, "staged_write_path: fewer than three statements")
    # 1. staging_path = f"{path}<suffix>"
    s0 = body[0]
    ok = (isinstance(s0, ast.Assign) and len(s0.targets) == 1 and _is_name(s0.targets[0], "staging_path")
          and isinstance(s0.value, ast.JoinedStr) and len(s0.value.values) == 2
          and isinstance(s0.value.values[0], ast.FormattedValue) and _same(s0.value.values[0].value, "path")
          and s0.value.values[0].conversion == -1 and s0.value.values[0].format_spec is None
          and isinstance(s0.value.values[1], ast.Constant) and isinstance(s0.value.values[1].value, str))
    if not ok:
        raise TranslateError(F, "first statement is not `staging_path = f\"{path}<suffix>\"`: " + ast.unparse(s0))
    suffix = s0.value.values[1].value
    if not suffix:
        raise TranslateError(F, "empty staging suffix")
    # 2. pathlib paths stay pathlib paths
    if not _same(body[1], "if isinstance(path, pathlib.Path):\n    staging_path = pathlib.Path(staging_path)"):
        raise TranslateError(F, "second statement is not the pathlib re-wrapping of staging_path: " + ast.unparse(body[1]))
    # 3. the try
    tr = body[2]
    if not isinstance(tr, ast.Try) or tr.finalbody:
        raise TranslateError(F, "third statement is not a try/except without finally: " + ast.unparse(tr)[:200])
    after = body[3:]
    replace = "os.replace(staging_path, path)"
    if not tr.body or not _same(tr.body[0], "yield staging_path"):
        raise TranslateError(F, "the try does not start with `yield staging_path`")
    if len(tr.body) == 2 and _same(tr.body[1], replace) and not tr.orelse and not after:
        inside = True
    elif len(tr.body) == 1 and not tr.orelse and len(after) == 1 and _same(after[0], replace):
        inside = False
    elif len(tr.body) == 1 and len(tr.orelse) == 1 and _same(tr.orelse[0], replace) and not after:
        inside = False          # an exception raised in the `else` of a try is not seen by its handlers
    else:
        raise TranslateError(F, "cannot locate the single `%s` relative to the try: %s" % (replace, ast.unparse(fn)[-400:]))
    if len(tr.handlers) != 1:
        raise TranslateError(F, "the try has %d handlers (expected exactly one)" % len(tr.handlers))
    h = tr.handlers[0]
    if h.type is None:
        catches_base, htype = True, "<bare except>"
    elif isinstance(h.type, ast.Name) and h.type.id == "BaseException":
        catches_base, htype = True, "BaseException"
    elif isinstance(h.type, ast.Name) and h.type.id == "Exception":
        catches_base, htype = False, "Exception"
    else:
        raise TranslateError(F, "unrecognised handler type: " + ast.unparse(h.type))
    hb = h.body
    rm, rr = "_try_remove(staging_path)", "raise"
    if len(hb) == 2 and _same(hb[0], rm) and _same(hb[1], rr):
        removes, reraises = True, True
    elif len(hb) == 1 and _same(hb[0], rr):
        removes, reraises = False, True
    elif len(hb) == 1 and _same(hb[0], rm):
        removes, reraises = True, False
    else:
        raise TranslateError(F, "handler body is not `_try_remove(staging_path); raise`: " + "; ".join(ast.unparse(s) for s in hb))
    return {"suffix": suffix, "replaceInsideTry": inside, "handlerCatchesBaseException": catches_base,
            "handlerType": htype, "handlerRemovesStaging": removes, "handlerReraises": reraises}


_STAGED_WRITE = '''
@contextmanager
def staged_write(path, mode="w", **kwargs):
    if "w" not in mode:
        raise ValueError("The mode must include 'w'")
    with staged_write_path(path) as staging_path:
        with open(staging_path, mode, **kwargs) as outputfile:
            yield outputfile
'''

_TRY_REMOVE = '''
def _try_remove(path):
    try:
        os.remove(path)
    except OSError:
        pass
'''

_GET_MTIME = '''
def get_modified_time(path):
    try:
        t = os.path.getmtime(path)
    except OSError:
        return None
    return dt.datetime.fromtimestamp(t)
'''


def _pins(tree, F):
    for name, code in (("staged_write", _STAGED_WRITE), ("_try_remove", _TRY_REMOVE), ("get_modified_time", _GET_MTIME)):
        fn = next((n for n in tree.body if isinstance(n, ast.FunctionDef) and n.name == name), None)
        if fn is None:
            raise TranslateError(F, f"module-level function {name} not found")
        if not _same(fn, code):
            raise TranslateError(F, f"{name} no longer has the pinned shape:\n" + ast.unparse(fn)[:600])
    cls = _find_class(tree, "FileStore", F)
    gm = _find_func(cls, "get_modified_time", F)
    if not _same(_body(gm), "return get_modified_time(self.path)"):
        raise TranslateError(F, "FileStore.get_modified_time is not `return get_modified_time(self.path)`")
    init = _find_func(cls, "__init__", F)
    if not _same(_body(init), "self.path = path"):
        raise TranslateError(F, "FileStore.__init__ is not `self.path = path`")
    const = [s for s in tree.body if isinstance(s, ast.Assign) and len(s.targets) == 1 and _is_name(s.targets[0], "STAGING_SUFFIX")]
    if len(const) != 1 or not (isinstance(const[0].value, ast.Constant) and isinstance(const[0].value.value, str)):
        raise TranslateError(F, "STAGING_SUFFIX is not a single string constant")
    return const[0].value.value


# ----------------------------------------------------------------------------------------------------------
# the store classes
# ----------------------------------------------------------------------------------------------------------

def _open_args(call, F, what, default_mode, n_fixed):
    """mode / kwargs of `staged_write(self.path, ...)` or `open(self.path, ...)`."""
    if len(call.args) < 1 or not _same(call.args[0], "self.path"):
        raise TranslateError(F, f"{what}: first argument is not self.path: " + ast.unparse(call))
    if len(call.args) > n_fixed:
        raise TranslateError(F, f"{what}: too many positional arguments: " + ast.unparse(call))
    mode = None
    if len(call.args) == 2:
        mode = call.args[1]
    kw = {}
    for k in call.keywords:
        if k.arg is None or k.arg in kw:
            raise TranslateError(F, f"{what}: **kwargs / repeated keyword: " + ast.unparse(call))
        kw[k.arg] = k.value
    if "mode" in kw:
        if mode is not None:
            raise TranslateError(F, f"{what}: mode given twice")
        mode = kw.pop("mode")
    if mode is None:
        mode_s = default_mode
    elif isinstance(mode, ast.Constant) and isinstance(mode.value, str) and all(c in "rwxabt+" for c in mode.value):
        mode_s = mode.value
    else:
        raise TranslateError(F, f"{what}: mode is not a constant mode string: " + ast.unparse(mode))
    enc = False
    if "encoding" in kw:
        if not _same(kw.pop("encoding"), "self.encoding"):
            raise TranslateError(F, f"{what}: encoding is not passed through as self.encoding: " + ast.unparse(call))
        enc = True
    nl_given, nl = False, None
    if "newline" in kw:
        v = kw.pop("newline")
        if not (isinstance(v, ast.Constant) and (v.value is None or isinstance(v.value, str)) and v.value in NEWLINES):
            raise TranslateError(F, f"{what}: newline is not one of None, '', '\\n', '\\r', '\\r\\n': " + ast.unparse(v))
        nl_given, nl = True, v.value
    if kw:
        raise TranslateError(F, f"{what}: unrecognised keyword arguments {sorted(kw)}: " + ast.unparse(call))
    return {"mode": mode_s, "encoding": enc, "newlineGiven": nl_given, "newline": NEWLINES[nl], "src": ast.unparse(call)}


def _store(lean_name, cls_name, rel, F):
    tree = _module(rel)
    cls = _find_class(tree, cls_name, F)
    if not (len(cls.bases) == 1 and _same(cls.bases[0], "FileStore")):
        raise TranslateError(F, f"{cls_name} does not derive from exactly FileStore")
    methods = {n.name for n in cls.body if isinstance(n, ast.FunctionDef)}
    if "get_modified_time" in methods:
        raise TranslateError(F, f"{cls_name} overrides get_modified_time")
    # ---- write
    w = _find_func(cls, "write", F)
    if [x.arg for x in w.args.args] != ["self", "value"] or w.args.vararg or w.args.kwarg or w.args.kwonlyargs or w.decorator_list:
        raise TranslateError(F, f"{cls_name}.write does not take (self, value)")
    wb = _body(w)
    guard = False
    if len(wb) == 2 and isinstance(wb[0], ast.If):
        g = wb[0]
        if not (_same(g.test, "value is not None") and len(g.body) == 1 and not g.orelse and isinstance(g.body[0], ast.Raise)
                and isinstance(g.body[0].exc, ast.Call) and _same(g.body[0].exc.func, "TypeError")):
            raise TranslateError(F, f"{cls_name}.write: unrecognised guard: " + ast.unparse(g))
        guard = True
        wb = wb[1:]
    if len(wb) != 1 or not isinstance(wb[0], ast.With) or len(wb[0].items) != 1:
        raise TranslateError(F, f"{cls_name}.write is not a single `with staged_write(...)`: " + "; ".join(ast.unparse(s) for s in wb)[:300])
    item = wb[0].items[0]
    call = item.context_expr
    if not (isinstance(call, ast.Call) and _same(call.func, "staged_write")):
        raise TranslateError(F, f"{cls_name}.write does not go through staged_write: " + ast.unparse(call))
    wargs = _open_args(call, F, f"{cls_name}.write", "w", 2)
    var = item.optional_vars
    if var is not None and not _is_name(var, "outputfile"):
        raise TranslateError(F, f"{cls_name}.write: the file object is not bound to `outputfile`")
    inner = wb[0].body
    extra = ""
    dump_kw = {}
    if len(inner) == 1 and isinstance(inner[0], ast.Pass):
        body = "nothing"
    elif var is not None and len(inner) == 1 and _same(inner[0], "outputfile.write(value)"):
        body = "writeValue"
    elif var is not None and len(inner) == 1 and _same(inner[0], "pickle.dump(value, outputfile)"):
        body = "pickleDump"
    elif (var is not None and len(inner) == 1 and isinstance(inner[0], ast.Expr) and isinstance(inner[0].value, ast.Call)
          and _same(inner[0].value.func, "json.dump") and len(inner[0].value.args) == 2
          and _same(inner[0].value.args[0], "value") and _same(inner[0].value.args[1], "outputfile")
          and all(k.arg is not None and isinstance(k.value, ast.Constant) for k in inner[0].value.keywords)):
        body = "jsonDump"
        extra = ", ".join(f"{k.arg}={k.value.value!r}" for k in inner[0].value.keywords)
        dump_kw = {k.arg: k.value.value for k in inner[0].value.keywords}
        if len(dump_kw) != len(inner[0].value.keywords):
            raise TranslateError(F, f"{cls_name}.write: json.dump is given a keyword twice")
    else:
        raise TranslateError(F, f"{cls_name}.write: unrecognised body: " + "; ".join(ast.unparse(s) for s in inner)[:300])
    if guard and body != "nothing":
        raise TranslateError(F, f"{cls_name}.write: a None-guard in front of a store that writes its value")
    if body == "nothing" and not guard:
        raise TranslateError(F, f"{cls_name}.write ignores its value without checking that it is None")
    # ---- read
    r = _find_func(cls, "read", F)
    if [x.arg for x in r.args.args] != ["self"] or r.args.vararg or r.args.kwarg or r.args.kwonlyargs or r.decorator_list:
        raise TranslateError(F, f"{cls_name}.read does not take (self)")
    rb = _body(r)
    if not rb or not isinstance(rb[0], ast.With) or len(rb[0].items) != 1:
        raise TranslateError(F, f"{cls_name}.read does not start with a single `with open(...)`")
    item = rb[0].items[0]
    call = item.context_expr
    if not (isinstance(call, ast.Call) and _same(call.func, "open") and item.optional_vars is not None
            and _is_name(item.optional_vars, "inputfile")):
        raise TranslateError(F, f"{cls_name}.read: not `with open(...) as inputfile`: " + ast.unparse(item))
    rargs = _open_args(call, F, f"{cls_name}.read", "r", 2)
    if any(c in rargs["mode"] for c in "wxa+"):
        raise TranslateError(F, f"{cls_name}.read opens the file for writing: mode {rargs['mode']!r}")
    inner = rb[0].body
    if len(rb) == 1 and _same(inner, "return inputfile.read()"):
        rkind = "readAll"
    elif len(rb) == 1 and _same(inner, "return json.load(inputfile)"):
        rkind = "jsonLoad"
    elif len(rb) == 1 and _same(inner, "return pickle.load(inputfile)"):
        rkind = "pickleLoad"
    elif (len(rb) == 2 and _same(rb[1], "return None") and len(inner) == 1 and isinstance(inner[0], ast.If)
          and _same(inner[0].test, "inputfile.read(1)") and not inner[0].orelse and len(inner[0].body) == 1
          and isinstance(inner[0].body[0], ast.Raise) and isinstance(inner[0].body[0].exc, ast.Call)
          and _same(inner[0].body[0].exc.func, "OSError")):
        rkind = "emptyCheck"
    else:
        raise TranslateError(F, f"{cls_name}.read: unrecognised body: " + "; ".join(ast.unparse(s) for s in rb)[:300])
    pairs = {"writeValue": "readAll", "jsonDump": "jsonLoad", "pickleDump": "pickleLoad", "nothing": "emptyCheck"}
    if pairs[body] != rkind:
        raise TranslateError(F, f"{cls_name}: write body {body} is paired with read body {rkind}")
    # ---- encoding attribute
    if wargs["encoding"] or rargs["encoding"]:
        init = _find_func(cls, "__init__", F)
        if not any(_same(s, "self.encoding = encoding") for s in init.body):
            raise TranslateError(F, f"{cls_name}.__init__ does not store `self.encoding = encoding`")
        if sum(1 for n in ast.walk(cls) if isinstance(n, ast.Attribute) and n.attr == "encoding"
               and isinstance(n.ctx, ast.Store)) != 1:
            raise TranslateError(F, f"{cls_name}: self.encoding is assigned more than once")
    return {"lean": lean_name, "cls": cls_name, "write": wargs, "read": rargs, "body": body, "guard": guard,
            "readKind": rkind, "extra": extra, "dump_kw": dump_kw, "hash": _h(_dump(cls))}


def _mounted(F):
    """`stores/_mounted_store.py`, pinned as a whole: `_path_context` yields a path inside a fresh TemporaryDirectory; `read` is
    `copy_to_local(local_path)` then `create_store(local_path).read()`; `write` is `create_store(local_path).write(value)` then
    `copy_from_local(local_path)` - what `Stores.mountedRead / mountedWrite` model."""
    tree = _module("stores/_mounted_store.py")
    pc = _find_func(tree, "_path_context", F)
    if not (len(pc.decorator_list) == 1 and _is_name(pc.decorator_list[0], "contextmanager") and _same(_body(pc), """
with tempfile.TemporaryDirectory() as tempdir:
    yield os.path.join(tempdir, "temp")
""")):
        raise TranslateError(F, "_mounted_store._path_context is not `with tempfile.TemporaryDirectory() as tempdir: yield os.path.join(tempdir, 'temp')`")
    cls = _find_class(tree, "MountedStore", F)
    rd, wr = _find_func(cls, "read", F), _find_func(cls, "write", F)
    if not _same(_body(rd), """
with _path_context() as local_path:
    self.copy_to_local(local_path)
    return self.create_store(local_path).read()
"""):
        raise TranslateError(F, "MountedStore.read: unrecognised body: " + "; ".join(ast.unparse(x) for x in _body(rd))[:300])
    if not _same(_body(wr), """
with _path_context() as local_path:
    self.create_store(local_path).write(value)
    self.copy_from_local(local_path)
""") or [a.arg for a in wr.args.args] != ["self", "value"]:
        raise TranslateError(F, "MountedStore.write: unrecognised body: " + "; ".join(ast.unparse(x) for x in _body(wr))[:300])
    init = _find_func(cls, "__init__", F)
    if not any(_same(x, "self.create_store = create_store") for x in init.body):
        raise TranslateError(F, "MountedStore.__init__ does not store `self.create_store = create_store`")
    for name in ("get_modified_time",):
        if any(isinstance(n, ast.FunctionDef) and n.name == name for n in cls.body):
            raise TranslateError(F, f"MountedStore now defines {name} itself")
    return _h(_dump(tree))


def _all(F):
    tree = _module("stores/_file_store.py")
    swp = _staged_write_path(tree, F)
    const = _pins(tree, F)
    stores = [_store(ln, cn, rel, F) for ln, cn, rel in STORES]
    return tree, swp, const, stores


# ----------------------------------------------------------------------------------------------------------
# fragment FileStore
# ----------------------------------------------------------------------------------------------------------

def gen_filestore():
    F = "FileStore"
    tree, swp, const, stores = _all(F)
    mounted_hash = _mounted(F)
    out = [PRELUDE, "namespace Uberjob.Gen.FileStore", "",
           "/-- the suffix in `staging_path = f\"{path}" + swp["suffix"].replace("-/", "") + "\"` (staged_write_path) -/",
           f"def stagingSuffix : String := {lean_str(swp['suffix'])}",
           "/-- the module constant `STAGING_SUFFIX` (used by the repository's tests only) -/",
           f"def stagingSuffixConst : String := {lean_str(const)}", "",
           "/-- `os.replace(staging_path, path)` is inside the `try` of staged_write_path (a failing rename reaches the handler) -/",
           f"def replaceInsideTry : Bool := {_b(swp['replaceInsideTry'])}",
           f"/-- the handler is `except {swp['handlerType']}` -/",
           f"def handlerCatchesBaseException : Bool := {_b(swp['handlerCatchesBaseException'])}",
           "/-- the handler calls `_try_remove(staging_path)` -/",
           f"def handlerRemovesStaging : Bool := {_b(swp['handlerRemovesStaging'])}",
           "/-- the handler ends with a bare `raise` -/",
           f"def handlerReraises : Bool := {_b(swp['handlerReraises'])}", "",
           "/-- Pinned whole shapes (a change is a TranslateError, so these are `true` whenever this file exists):",
           "    `staged_write` checks `\"w\" in mode` first, then opens THE STAGING PATH inside `staged_write_path`;",
           "    `_try_remove` swallows exactly `OSError`; `get_modified_time` maps an `OSError` of `os.path.getmtime` to `None`;",
           "    `FileStore.get_modified_time` delegates to it with `self.path`. -/",
           "def stagedWriteChecksModeFirst : Bool := true",
           "/-- `stores/_mounted_store.py` has the shape `Stores.mountedRead / mountedWrite` model (a fresh temporary directory; read =",
           "    copy_to_local then the inner store's read; write = the inner store's write then copy_from_local) -/",
           "def mountedStoreShape : Bool := true",
           "def stagedWriteOpensStagingPath : Bool := true",
           "def tryRemoveSwallowsOSError : Bool := true",
           "def mtimeOSErrorIsNone : Bool := true", "",
           "/-- what the body of the `with staged_write(...)` block does with the file object -/",
           "inductive Body where", "  | writeValue | jsonDump | pickleDump | nothing", "deriving DecidableEq, Repr", "",
           "inductive ReadKind where", "  | readAll | jsonLoad | pickleLoad | emptyCheck", "deriving DecidableEq, Repr", "",
           "structure StoreSpec where",
           "  className : String",
           "  /-- `if value is not None: raise TypeError(...)` is the first statement of `write` (before any file operation) -/",
           "  noneGuardFirst : Bool",
           "  writeMode : List Char", "  writePassesEncoding : Bool", "  writePassesNewline : Bool", "  body : Body",
           "  readMode : List Char", "  readPassesEncoding : Bool", "  readPassesNewline : Bool", "  readKind : ReadKind",
           "deriving Repr", ""]
    for s in stores:
        out += [f"/-- write: `{s['write']['src']}`" + (f" / json.dump({s['extra']})" if s["extra"] else "") + f";  read: `{s['read']['src']}` -/",
                f"def {s['lean']} : StoreSpec where",
                f"  className := {lean_str(s['cls'])}",
                f"  noneGuardFirst := {_b(s['guard'])}",
                f"  writeMode := {_chars(s['write']['mode'])}",
                f"  writePassesEncoding := {_b(s['write']['encoding'])}",
                f"  writePassesNewline := {_b(s['write']['newlineGiven'])}",
                f"  body := .{s['body']}",
                f"  readMode := {_chars(s['read']['mode'])}",
                f"  readPassesEncoding := {_b(s['read']['encoding'])}",
                f"  readPassesNewline := {_b(s['read']['newlineGiven'])}",
                f"  readKind := .{s['readKind']}", ""]
    out += ["def stores : List StoreSpec := [" + ", ".join(s["lean"] for s in stores) + "]", "",
            "end Uberjob.Gen.FileStore", ""]
    info = {"staged_write_path": swp, "STAGING_SUFFIX": const,
            "stores": {s["cls"]: {"write": s["write"], "read": s["read"], "body": s["body"], "guard": s["guard"]} for s in stores},
            "source_hash": _h(_dump(tree) + mounted_hash + "".join(s["hash"] for s in stores))}
    return "\n".join(out), info


# ----------------------------------------------------------------------------------------------------------
# fragment TextCodec
# ----------------------------------------------------------------------------------------------------------

def gen_textcodec():
    F = "TextCodec"
    stores = {cn: _store(ln, cn, rel, F) for ln, cn, rel in STORES}
    out = [PRELUDE, "namespace Uberjob.Gen.TextCodec", "",
           "/-- the value of the `newline` argument of a text-mode `open` (`universal` = absent or `None`) -/",
           "inductive Newline where", "  | universal | empty | lf | cr | crlf", "deriving DecidableEq, Repr", ""]
    info = {}
    for cn, pre in (("TextFileStore", "text"), ("JsonFileStore", "json")):
        s = stores[cn]
        for side in ("write", "read"):
            a = s[side]
            if "b" in a["mode"]:
                raise TranslateError(F, f"{cn}.{side} opens the file in binary mode {a['mode']!r}")
            if a["mode"].replace("t", "") != ("w" if side == "write" else "r"):
                raise TranslateError(F, f"{cn}.{side}: unexpected text mode {a['mode']!r}")
            S = side.capitalize()
            out += [f"/-- {cn}.{side}: `{a['src']}` -/",
                    f"def {pre}{S}Newline : Newline := .{a['newline']}",
                    f"/-- `encoding=self.encoding` is passed by {cn}.{side} -/",
                    f"def {pre}{S}PassesEncoding : Bool := {_b(a['encoding'])}", ""]
            info[f"{pre}{S}"] = {"newline": a["newline"], "encoding": a["encoding"]}
    # ---- the options JsonFileStore passes to json.dump (the encoder model `Json.render` is parameterised by them)
    kw = dict(stores["JsonFileStore"]["dump_kw"])
    other = []
    indent = kw.pop("indent", None)
    if indent is not None and not (type(indent) is int and indent >= 0):
        other.append(f"indent={indent!r}")
        indent = None
    ascii_ = kw.pop("ensure_ascii", True)
    sort_keys = kw.pop("sort_keys", False)
    for name, val in (("ensure_ascii", ascii_), ("sort_keys", sort_keys)):
        if type(val) is not bool:
            other.append(f"{name}={val!r}")
    other += [f"{k}={v!r}" for k, v in sorted(kw.items())]
    out += [f"/-- JsonFileStore.write: `json.dump(value, outputfile{', ' if stores['JsonFileStore']['extra'] else ''}{stores['JsonFileStore']['extra']})`: "
            "`indent` (a non-negative int or absent/None) -/",
            f"def jsonDumpIndent : Option Nat := {'none' if indent is None else f'some {indent}'}",
            f"def jsonDumpEnsureAscii : Bool := {_b(ascii_ is True)}",
            f"def jsonDumpSortKeys : Bool := {_b(sort_keys is True)}",
            "/-- every other keyword argument given to json.dump (separators, default, cls, skipkeys, allow_nan ... none is modelled) -/",
            "def jsonDumpOtherKeywords : List String := [" + ", ".join(lean_str(x) for x in other) + "]", ""]
    info["jsonDump"] = {"indent": indent, "ensure_ascii": ascii_, "sort_keys": sort_keys, "other": other}
    for cn in ("BinaryFileStore", "PickleFileStore", "TouchFileStore"):
        s = stores[cn]
        for side in ("write", "read"):
            if "b" not in s[side]["mode"] or s[side]["encoding"] or s[side]["newlineGiven"]:
                raise TranslateError(F, f"{cn}.{side} is not a plain binary open: {s[side]['src']}")
    out += ["/-- BinaryFileStore, PickleFileStore and TouchFileStore open their file in binary mode for read and write,",
            "    without `encoding`/`newline` (anything else is a TranslateError). -/",
            "def binaryStoresUseBinaryMode : Bool := true", "",
            "end Uberjob.Gen.TextCodec", ""]
    info["source_hash"] = _h("".join(stores[cn]["hash"] for cn in sorted(stores)))
    return "\n".join(out), info


FRAGMENTS = {"FileStore": gen_filestore, "TextCodec": gen_textcodec}
