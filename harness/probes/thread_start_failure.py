"""Known finding F8 (C07): `threading.Thread.start` raising (`RuntimeError: can't start new thread`) while `worker_pool` is
STARTING its threads - the workers already started never get a sentinel, `worker_pool`'s clean-up joins them for ever (or, if
they run out of work first, they stay blocked in `queue.get`).  Same window as F7 (a KeyboardInterrupt during start-up).
`thread()` is wrapped only to make the SECOND start fail; nothing else is changed.
Prints one line: `present <what>` or `absent`."""
import os
import sys
import threading
import time

import networkx as nx

import uberjob._execution.run_function_on_graph as eng

g = nx.MultiDiGraph()
for i in range(4):
    g.add_node(i)


def fn(n):
    time.sleep(0.01)


orig_thread = eng.thread
count = [0]


def failing_thread(f):
    count[0] += 1
    if count[0] == 2:
        raise RuntimeError("can't start new thread")
    return orig_thread(f)


eng.thread = failing_thread


def watchdog():
    time.sleep(3)
    print("present run_function_on_graph did not return within 3 s after a thread could not be started (threads alive: %d)" % threading.active_count())
    sys.stdout.flush()
    os._exit(0)


threading.Thread(target=watchdog, daemon=True).start()
try:
    eng.run_function_on_graph(g, fn, worker_count=3, max_errors=0, scheduler="default")
    print("absent (returned normally)")
except RuntimeError:
    time.sleep(0.5)
    alive = [t for t in threading.enumerate() if t is not threading.main_thread() and not t.daemon]
    print("present run raised RuntimeError with %d worker(s) still alive" % len(alive) if alive else "absent (raised, every worker gone)")
sys.stdout.flush()
os._exit(0)
