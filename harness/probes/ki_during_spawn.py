"""Known finding F7 (C17/C07): SIGINT delivered to the calling thread while `worker_pool` is still STARTING its threads
(a call is already executing on the first worker).  `thread()` is wrapped only to DELAY the pool creation so that the
signal deterministically lands in that window; nothing else is changed.
Prints one line: `present <what>` or `absent`."""
import os
import signal
import sys
import threading
import time

import networkx as nx

import uberjob._execution.run_function_on_graph as eng

g = nx.MultiDiGraph()
for i in range(6):
    g.add_node(i)
started = threading.Event()
calls = []


def fn(n):
    calls.append((n, time.time()))
    started.set()
    time.sleep(0.15)


orig_thread = eng.thread
count = [0]


def slow_thread(f):
    t = orig_thread(f)
    count[0] += 1
    if count[0] == 1:
        started.wait(2)
        os.kill(os.getpid(), signal.SIGINT)
        time.sleep(0.05)
    return t


eng.thread = slow_thread


def watchdog():
    time.sleep(3)
    print("present run_function_on_graph did not return within 3 s after the interrupt (threads alive: %d)" % threading.active_count())
    sys.stdout.flush()
    os._exit(0)


threading.Thread(target=watchdog, daemon=True).start()
t_int = None
try:
    eng.run_function_on_graph(g, fn, worker_count=3, max_errors=0, scheduler="random")
    print("absent (returned normally)")
except KeyboardInterrupt:
    t_int = time.time()
    time.sleep(0.6)
    alive = [t for t in threading.enumerate() if t is not threading.main_thread() and not t.daemon]
    later = [c for c in calls if c[1] > t_int]
    if alive or later:
        print("present KeyboardInterrupt propagated but %d worker thread(s) are still alive and %d call(s) started afterwards"
              % (len(alive), len(later)))
    else:
        print("absent")
sys.stdout.flush()
os._exit(0)
