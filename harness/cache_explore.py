"""T2 for the caching layer: generated (plan, registry) pairs driven through seeded HISTORIES of
{run (any output / workers / scheduler / schedule), run cut short at the k-th event, source update, deletion,
fresh_time advance} on the real uberjob with in-memory stores on a logical clock; after every step the Lean
model (driver commands cplan/cop/cstale/cval/cfs/cseen/craw) must agree, and direct monitors state C03/C05/C08/C09.
"""
from __future__ import annotations

import datetime as dt
import random

import networkx as nx

import uberjob
from harness import coop, plans
from uberjob._transformations import caching
from uberjob._util.retry import identity
from uberjob.progress._null_progress_observer import NullProgressObserver

PAST, FUTURE = dt.datetime(2021, 3, 4, 5, 6, 7), dt.datetime(2093, 3, 4, 5, 6, 7)
BASE = PAST          # every fourth history plays in the FUTURE of the machine's clock (no decision may depend on "now")

# The in-memory stores report NAIVE datetimes (= local time, as the bundled file stores do) and `fresh_time` is passed naive
# as well.  The process zone of these checks is deliberately NOT UTC (a fixed +05:30, POSIX form, no zone database needed):
# code that converts some naive values and not others then shifts them against each other by 5 h 30 min.
import os as _os
import time as _time
_os.environ["TZ"] = "VRF-05:30"
_time.tzset()


# one tick of the logical clock: a little more than a quarter of a second, so that consecutive modified times mostly
# fall into the SAME wall-clock second and differ only in their microseconds (a comparison that drops them is wrong)
TICK_US = 250_003


def as_dt(t):
    return None if t is None else BASE + dt.timedelta(microseconds=t * TICK_US)


class Cut(Exception):
    """Injected failure (a call or store operation raising at a chosen point of the run)."""


class HardCut(BaseException):
    """Injected failure that is NOT an `Exception` (as SystemExit, GeneratorExit, asyncio.CancelledError are): a failed call
    or store operation all the same - the run must not return normally."""


class Env:
    ARMED = [0]        # counted across the histories of a check (a history rarely has three injected failures of its own)

    def injected(self, msg):
        """every third injected failure is a BaseException that is not an Exception"""
        self.armed += 1
        Env.ARMED[0] += 1
        return (HardCut if Env.ARMED[0] % 3 == 0 and not self.soft_only else Cut)(msg)

    def __init__(self):
        self.armed = 0
        self.soft_only = False
        self.tie_views = False
        self.clock = 10
        self.rec = plans.Rec()
        self.cut_at = None       # index of the event at which to raise Cut
        self.count = 0
        self.quiet = False       # probing (do not record / count)

    def tick(self):
        self.clock += 1
        return self.clock

    def event(self, *ev):
        if self.quiet:
            return
        self.rec.add(*ev)
        plans._yield()
        k = self.count
        self.count += 1
        if self.cut_at is not None and k == self.cut_at:
            self.rec.add("cut", *ev)
            raise self.injected("cut at event %d %r" % (k, ev))


class MemStore(uberjob.ValueStore):
    def __init__(self, key, env):
        self.key, self.env = key, env
        self.value, self.mtime = None, None

    def read(self):
        self.env.event("read", self.key)
        if self.mtime is None:
            raise KeyError("store %r is empty" % (self.key,))
        self.env.rec.add("readval", self.key, self.value)
        return self.value

    def write(self, value):
        self.env.event("write-begin", self.key)
        self.value, self.mtime = value, self.env.tick()
        self.env.rec.add("write", self.key, value, self.mtime)
        self.env.event("write-end", self.key)

    def get_modified_time(self):
        self.env.event("mtime", self.key)
        return as_dt(self.mtime)

    def __repr__(self):
        return "MemStore(%r)" % (self.key,)


class FalsyStore(MemStore):
    """A value store whose truth value is False (e.g. a table store whose `len()` is its row count): `is None` tests on
    stores must not be replaced by truthiness tests."""

    def __len__(self):
        return 0


class FalseStore(MemStore):
    def __bool__(self):
        return False


STORE_CLASSES = {"plain": MemStore, "empty-len": FalsyStore, "false": FalseStore}


def term(v, pv=None):
    """Canonical string of a Herbrand value, the syntax of `V.toStr` in Model/Cache.lean.  `pv` (producers, driver command
    `execp`): the content ("s", d, ver) a producer gave its dependent source is shown as what it was computed from."""
    if isinstance(v, tuple) and v and v[0] == "a":
        return "a%d(%s)" % (v[1], ",".join(term(x, pv) for x in v[2:]))
    if isinstance(v, tuple) and v and v[0] == "s":
        if pv and (v[1], v[2]) in pv:
            return term(pv[(v[1], v[2])], pv)
        return "s%d.%d" % (v[1], v[2])
    if isinstance(v, tuple) and len(v) == 3 and v[0] == "n":
        # what a normalising store made of `v[2]` (harness/norm_exec.py; `Exec.tagNorm` in Model/ExecNorm.lean)
        return "a%d(%s)" % (1000000 + v[1], term(v[2], pv))
    if isinstance(v, tuple) and len(v) == 2 and v[0] == "missing":
        return "missing%d" % v[1]
    return "?%r" % (v,)


# ------------------------------------------------------------------------------------------- generation
def gen_cache_spec(rng, nmax=9, dependent_sources=True):
    n = rng.randint(2, nmax)
    # a sixth of the plans are built around a dependent source with several predecessors, a reader and a plain dependent
    # (the shapes in which its Barrier literal has 2x2, 2x1, 1x2, 3x1 ... neighbours)
    dense = dependent_sources and rng.random() < 0.25
    if dense:
        n = max(n, 7)
    nodes = []
    i = 0
    while i < n:
        r = rng.random()
        if dense and i == 1:
            r = 0.28
        boost = 2.0 if dense and i == 1 else 1.0
        prev = [nd["id"] for nd in nodes if nd["kind"] not in ("producer", "token")]
        if i == 0 or r < 0.18:
            nodes.append({"id": i, "kind": "source", "args": [], "deps": []})
        elif r < 0.30 and dependent_sources and i + 2 < n:
            # a producer call and the dependent source it writes (well-formed: private producer);
            # sometimes with a plain literal used as an ordering token in between
            args = rng.sample(prev, min(len(prev), rng.choice([0, 1, 2])))
            # a second predecessor of the source is well-formed only when the producer is ordered after it as well
            # (otherwise the producer's write races with it and the source stays older than its ancestor): one of the
            # producer's own arguments
            extra = [rng.choice(args)] if args and rng.random() < 0.4 / boost else []
            if args and i + 3 < n and rng.random() < 0.45 * boost:
                # ... or an unstored call over some of the producer's arguments (it carries no time of its own)
                nodes.append({"id": i, "kind": "call", "args": rng.sample(args, rng.randint(1, len(args))), "deps": []})
                extra.append(i)
                i += 1
            pid = i
            if rng.random() < 0.4 and i + 2 < n:
                nodes.append({"id": pid, "kind": "producer", "args": sorted(args), "deps": [], "writes": pid + 2})
                nodes.append({"id": pid + 1, "kind": "token", "args": [], "deps": [pid]})
                nodes.append({"id": pid + 2, "kind": "dsource", "args": [], "deps": sorted(set(extra + [pid + 1]))})
                i += 2
            else:
                nodes.append({"id": pid, "kind": "producer", "args": sorted(args), "deps": [], "writes": pid + 1})
                nodes.append({"id": pid + 1, "kind": "dsource", "args": [], "deps": sorted(set(extra + [pid]))})
                i += 1
            if boost > 1 and i + 1 < n and rng.random() < 0.7:
                i += 1
                nodes.append({"id": i, "kind": "stored", "args": [i - 1], "deps": []})
                prev = prev + [i]
                i_ds = i - 1
            else:
                i_ds = i
            if i + 1 < n and rng.random() < 0.5 * boost:
                # something that merely depends on the dependent source (a successor of its Barrier besides the read)
                ds = i_ds
                a2 = [rng.choice(prev) for _ in range(rng.choice([1, 1, 2]))]
                i += 1
                nodes.append({"id": i, "kind": "stored" if rng.random() < 0.55 else "call", "args": a2, "deps": [ds]})
        elif r < 0.37:
            deps = rng.sample(prev, min(len(prev), rng.choice([0, 1, 1, 2])))
            nodes.append({"id": i, "kind": "lit", "args": [], "deps": sorted(deps)})
        else:
            k = rng.choice([1, 1, 2, 3])
            args = [rng.choice(prev) for _ in range(min(k, len(prev)))]
            deps = [d for d in rng.sample(prev, min(len(prev), rng.choice([0, 0, 1]))) if d not in args]
            kind = "stored" if rng.random() < 0.55 else "call"
            nodes.append({"id": i, "kind": kind, "args": args, "deps": sorted(deps)})
            if kind == "stored" and dependent_sources and i + 2 < n and rng.random() < 0.22:
                # a source that is a VIEW of this stored value's own storage (a PathSource of the file a stored call
                # writes, `test_source_dependent_on_write`): the WRITE of the stored value is what produces it
                nodes[-1]["feeds"] = i + 1
                extra = [rng.choice(args)] if args and rng.random() < 0.3 else []
                i += 1
                nodes.append({"id": i, "kind": "dsource", "args": [], "deps": sorted(set(extra + [i - 1])), "fed_by": i - 1})
        i += 1
    # some calls take their LAST arguments by keyword (names k0, k1 ...: `args` stays the full ordered argument list)
    for nd in nodes:
        if nd["kind"] in ("stored", "call", "producer") and nd["args"] and rng.random() < 0.3:
            nd["nkw"] = rng.randint(1, len(nd["args"]))
    spec = {"nodes": nodes}
    # the class of every store, and WHEN the stored calls are registered: at creation (registry order = plan order) or
    # after the whole plan has been built, in a shuffled order (then a dependent source precedes the stored values it
    # depends on in `registry.mapping`, the order in which `plan_with_value_stores` processes the entries)
    spec["store_cls"] = {str(nd["id"]): rng.choice(["plain", "plain", "empty-len", "false"]) for nd in nodes
                         if nd["kind"] in ("source", "dsource", "stored")}
    stored = [nd["id"] for nd in nodes if nd["kind"] == "stored"]
    if rng.random() < 0.5:
        rng.shuffle(stored)
        spec["late_reg"] = stored
    return spec


def model_plan_line(spec):
    n = len(spec["nodes"])
    preds, args, reg = [], [], []
    for nd in spec["nodes"]:
        ps = []
        for p in nd["args"] + nd["deps"]:
            if p not in ps:
                ps.append(p)
        if ps:
            preds.append("%d:%s" % (nd["id"], ",".join(map(str, ps))))
        if nd["args"]:
            args.append("%d:%s" % (nd["id"], ",".join(map(str, nd["args"]))))
        if nd["kind"] in ("source", "dsource"):
            reg.append("%d:S" % nd["id"])
        elif nd["kind"] == "stored":
            reg.append("%d:N" % nd["id"])
    return "cplan %d | %s | %s | %s" % (n, ";".join(preds), ";".join(args), " ".join(reg))


class Built:
    pass


def build_cache(spec, env):
    b = Built()
    b.plan = uberjob.Plan()
    b.reg = uberjob.Registry()
    b.N, b.stores, b.ver = {}, {}, {}
    b.failing = set()
    b.payload = {}
    b.pv = {}              # (dependent source, version) -> what its producer computed that content from
    b.junk = set()         # dependent sources holding content from "an earlier session", not yet refreshed by their producer
    kinds = {nd["id"]: nd["kind"] for nd in spec["nodes"]}
    b.kinds = kinds

    def mkfn(i, writes=None):
        def fn(*pos, **kw):
            args = tuple(pos) + tuple(kw.values())      # keyword arguments in the order received
            env.event("call", i)
            if i in b.failing:
                raise env.injected("call %d fails" % i)
            if writes is not None:
                b.ver[writes] = b.ver.get(writes, 0) + 1
                b.payload[writes] = ("a", i) + tuple(args)      # what the producer computed this content from
                b.pv[(writes, b.ver[writes])] = b.payload[writes]
                b.junk.discard(writes)
                st = b.stores[writes]
                st.value, st.mtime = ("s", writes, b.ver[writes]), env.tick()
                env.rec.add("write", writes, st.value, st.mtime)
                env.event("produced", writes)
            env.rec.add("ret", i, ("a", i) + tuple(args))
            return ("a", i) + tuple(args)
        fn.__name__ = fn.__qualname__ = "f%d" % i
        return fn

    cls = {int(k): STORE_CLASSES[v] for k, v in spec.get("store_cls", {}).items()}
    feeds = {nd["id"]: nd["feeds"] for nd in spec["nodes"] if "feeds" in nd}

    def feeding(base, target):
        class Feeding(base):
            """the store of a stored value whose storage is also seen through a dependent source: completing the write
            gives that source new content (and a modified time of its own, right after this one's)"""

            def write(self, value):
                env.event("write-begin", self.key)
                self.value, self.mtime = value, env.tick()
                env.rec.add("write", self.key, value, self.mtime)
                b.ver[target] = b.ver.get(target, 0) + 1
                b.payload[target] = value
                st = b.stores[target]
                # a view of the same file has the SAME modified time as the stored value (every other history: a tie between a
                # dependent source and what it depends on must not make it out of date); else a time of its own, right after
                st.value, st.mtime = ("s", target, b.ver[target]), (self.mtime if env.tie_views else env.tick())
                env.rec.add("write", target, st.value, st.mtime)
                env.event("write-end", self.key)
        Feeding.__name__ = Feeding.__qualname__ = base.__name__
        return Feeding
    late = spec.get("late_reg")
    for nd in spec["nodes"]:
        i = nd["id"]
        k = nd["kind"]
        if k in ("source", "dsource"):
            b.stores[i] = cls.get(i, MemStore)(i, env)
            b.N[i] = b.reg.source(b.plan, b.stores[i])
        elif k in ("lit", "token"):
            b.N[i] = b.plan.lit(("a", i))
        else:
            npos = len(nd["args"]) - nd.get("nkw", 0)
            b.N[i] = b.plan.call(mkfn(i, nd.get("writes")), *[b.N[a] for a in nd["args"][:npos]],
                                 **{"k%d" % k: b.N[a] for k, a in enumerate(nd["args"][npos:])})
            if k == "stored":
                c = cls.get(i, MemStore)
                b.stores[i] = (feeding(c, feeds[i]) if i in feeds else c)(i, env)
                if late is None:
                    b.reg.add(b.N[i], b.stores[i])
        for d in nd["deps"]:
            b.plan.add_dependency(b.N[d], b.N[i])
    for i in late or []:
        b.reg.add(b.N[i], b.stores[i])
    b.spec = spec
    b.graph = nx.DiGraph()
    for nd in spec["nodes"]:
        b.graph.add_node(nd["id"])
        for p in nd["args"] + nd["deps"]:
            b.graph.add_edge(p, nd["id"])
    return b


# ------------------------------------------------------------------------------------------- oracles
def from_scratch(b):
    """Independent evaluator: every call evaluated, sources (incl. dependent ones) as they are now."""
    val = {}
    for nd in b.spec["nodes"]:
        i = nd["id"]
        if nd["kind"] in ("source", "dsource"):
            val[i] = b.stores[i].value if b.stores[i].mtime is not None else ("missing", i)
        else:
            val[i] = ("a", i) + tuple(val[a] for a in nd["args"])
    return val


def out_of_date(b, F):
    """The declarative reading of C05 (independent of the fold in caching.py):
    a node is out of date iff some registered node k that is the node or an ancestor of it has a local cause:
    missing; or older than fresh_time (unless a source with no timed upstream); or older than a registered ancestor."""
    g = b.graph
    mt = {i: s.mtime for i, s in b.stores.items()}
    src = {i for i, k in b.kinds.items() if k in ("source", "dsource")}
    cause = set()
    for k in b.stores:
        anc = [q for q in nx.ancestors(g, k) if q in b.stores]
        if mt[k] is None:
            cause.add(k)
            continue
        if any(mt[q] is not None and mt[q] > mt[k] for q in anc):
            cause.add(k)
            continue
        timed_up = any(mt[q] is not None for q in anc)
        if F is not None and F > mt[k] and (k not in src or timed_up):
            cause.add(k)
    ood = set()
    for j in g.nodes():
        if j in cause or any(a in cause for a in nx.ancestors(g, j)):
            ood.add(j)
    return ood


def needed_calls(b, ood, out):
    """`Exec.Needed` (Lemmas/ExecNeeded.lean, `C04_runs_exactly_needed`) evaluated on the spec, independently of the library:
    the calls a successful run with the registry executes - a stored call iff it is out of date; a call without a store iff
    it is requested as output or feeds, directly, a needed node without a store or an out-of-date registered node."""
    nodes = b.spec["nodes"]
    registered = set(b.stores)
    needed = set()
    for nd in nodes:
        if nd["id"] in registered and b.kinds[nd["id"]] == "stored" and nd["id"] in ood:
            needed.add(nd["id"])
    for o in (out or []):
        if o not in registered:
            needed.add(o)                   # consumed by the gather call of the requested output
    changed = True
    while changed:
        changed = False
        for nd in nodes:
            k = nd["id"]
            target = (k not in registered and k in needed) or (k in registered and k in ood)
            if not target:
                continue
            for j in set(nd["args"]) | set(nd["deps"]):
                if j not in registered and j not in needed:
                    needed.add(j)
                    changed = True
    return {j for j in needed if b.kinds[j] in ("stored", "call", "producer")}


def real_stale(b, env, F):
    env.quiet = True
    try:
        st = caching._get_stale_nodes(b.plan, b.reg, retry=identity, max_workers=1, fresh_time=as_dt(F),
                                      progress_observer=NullProgressObserver())
    finally:
        env.quiet = False
    inv = {id(n): i for i, n in b.N.items()}
    return sorted(inv[id(n)] for n in st if id(n) in inv)


# ------------------------------------------------------------------------------------------- the execution model (T2)
def exec_applicable(spec):
    """The execution model (Model/Exec.lean) has user calls without side effects: plans without producers / dependent sources."""
    return not any(nd["kind"] in ("producer", "dsource", "token") or "feeds" in nd for nd in spec["nodes"])


def execp_applicable(spec, b, out):
    """The execution model with producers (Model/ExecProd.lean, `SetupP`): every dependent source has exactly one producer,
    wired to it directly or through ordering tokens; the producer and its tokens are PRIVATE to the source (whatever depends on
    one of them is another of them or the source; none is the requested output); and every registered node upstream of the
    source is upstream of the producer too."""
    nodes = spec["nodes"]
    if any("feeds" in nd or "fed_by" in nd for nd in nodes):
        return False
    prods = [nd for nd in nodes if nd["kind"] == "producer"]
    ds = [nd["id"] for nd in nodes if nd["kind"] == "dsource"]
    if not prods or sorted(nd["writes"] for nd in prods) != sorted(ds):
        return False
    tokens = {nd["id"] for nd in nodes if nd["kind"] == "token"}
    owned = set()
    for nd in prods:
        j, d = nd["id"], nd["writes"]
        if not nx.has_path(b.graph, j, d):
            return False
        own = {j} | {t for t in tokens if nx.has_path(b.graph, j, t) and nx.has_path(b.graph, t, d)}
        for u in own:
            if any(v != d and v not in own for v in b.graph.successors(u)):
                return False
            if out and u in out:
                return False
        owned |= own
        up_d = {q for q in nx.ancestors(b.graph, d) if q in b.stores}
        if not up_d <= nx.ancestors(b.graph, j):
            return False
    return tokens <= owned


def exec_request(b, snap, c0, stale, out, events, value, ok, cmd="exec"):
    """One `exec` request for the Lean driver and the reply the REAL run corresponds to: the logical plan (plus the gather of
    the requested output), the registry in mapping order, the stale set the run computed, the store state before the run,
    and the order in which the effects of the physical nodes took place in the real run (calls that returned, reads that
    returned, writes that took effect).  The model must predict every value: what every call returned, what every read
    returned, what every store holds afterwards (content and modified time) and what `run` returned."""
    spec = b.spec
    n = len(spec["nodes"])
    nodes, edges = [], []
    for nd in spec["nodes"]:
        nodes.append("%d:%s" % (nd["id"], "l" if nd["kind"] in ("lit", "token") else "c"))
        npos = len(nd["args"]) - nd.get("nkw", 0)
        for k, a in enumerate(nd["args"]):
            edges.append("%d>%d:p%d" % (a, nd["id"], k) if k < npos else "%d>%d:k%d=k%d" % (a, nd["id"], k - npos, k - npos))
        for d in nd["deps"]:
            edges.append("%d>%d:d" % (d, nd["id"]))
    if out is None:
        outtok = "-"
    else:
        nodes.append("%d:%s" % (n, "c" if out else "l"))
        edges += ["%d>%d:p%d" % (o, n, k) for k, o in enumerate(out)]
        outtok = str(n)
    inv = {id(nn): i for i, nn in b.N.items()}
    reg = " ".join("%d:%s" % (inv[id(nn)], "S" if rv.is_source else "N") for nn, rv in b.reg.mapping.items())
    pv = b.pv if cmd == "execp" else None
    producer_of = {nd["writes"]: nd["id"] for nd in spec["nodes"] if nd["kind"] == "producer"} if cmd == "execp" else {}

    def T(v):                      # the module's `term`, with the producers' contents spelled out
        return term(v, pv)
    if ok and out is not None and out and not isinstance(value, (list, tuple)):
        value = ["<run returned %r where a list of %d values was requested>" % (value, len(out))]
    world = " ".join("%d=%s@%d" % (i, T(v), t) for i, (v, t) in sorted(snap.items()) if t is not None)
    order, slots = [], []
    for k, e in enumerate(events):
        if e[0] == "ret":
            if e[1] in producer_of.values():
                continue           # a producer's effects (slot and source) are placed where its source was rewritten
            order.append("o%d" % e[1])
            slots.append("o%d=%s" % (e[1], T(e[2])))
        elif e[0] == "readval":
            order.append("r%d" % e[1])
            slots.append("r%d=%s" % (e[1], T(e[2])))
        elif e[0] == "write":
            if e[1] in producer_of:
                j = producer_of[e[1]]
                order.append("o%d" % j)
                slots.append("o%d=%s" % (j, T(e[2])))
            else:
                order.append("w%d" % e[1])
    if ok and out is not None and out:
        order.append("o%d" % n)
        slots.append("o%d=a%d(%s)" % (n, n, ",".join(T(v) for v in value)))
    stores = sorted("%d=%s@%d" % (i, T(st.value), st.mtime) for i, st in b.stores.items() if st.mtime is not None)
    line = "%s | %s | %s | %s | %s | %s | %s | %d | %s" % (
        cmd, " ".join(nodes), " ".join(edges), reg, " ".join(str(i) for i in sorted(stale) if i in b.stores), outtok, world, c0,
        " ".join(order))
    if cmd == "execp":
        line += " | " + " ".join("%d>%d" % (j, d) for d, j in sorted(producer_of.items()))
    want = "stores %s | slots %s" % (" ".join(stores), " ".join(slots))
    if ok:
        want += " | out %s" % ("-" if out is None else "a%d(%s)" % (n, ",".join(T(v) for v in value)))
    return line, want


# ------------------------------------------------------------------------------------------- one history
def run_history(spec, hseed, steps, driver, props, mode="prim", stress=False):
    """Returns (violations, disagreements, stats)."""
    global BASE
    BASE = FUTURE if hseed % 4 == 3 else PAST
    rng = random.Random(hseed)
    env = Env()
    env.tie_views = hseed % 2 == 0
    b = build_cache(spec, env)
    viol, dis = [], []
    stats = {"ops": 0, "runs_ok": 0, "runs_cut": 0, "runs_failed": 0, "updates": 0, "deletes": 0, "writes": 0,
             "stale_checks": 0, "second_runs": 0, "nontrivial_runs": 0}
    lines = [model_plan_line(spec)]
    expect = [("eq", "ok", "cplan")]
    log = []

    def q(line, kind, want, what):
        lines.append(line)
        expect.append((kind, want, what))

    def compare_state(tag):
        for F in (None, env.clock - rng.randint(0, 4), env.clock + 1):
            q("cstale %s" % ("none" if F is None else F), "eq", "stale " + " ".join(map(str, real_stale(b, env, F))),
              f"{tag}: stale set for fresh_time={F}")
            stats["stale_checks"] += 1
            ood = sorted(out_of_date(b, F))
            if "C05" in props and ood != real_stale(b, env, F):
                viol.append({"property": "C05", "what": f"{tag}: nodes treated as out of date {real_stale(b, env, F)} differ from "
                             f"the declarative out-of-date set {ood} (fresh_time={F})"})
        for i, s in sorted(b.stores.items()):
            q("cval %d" % i, "eq", "-" if s.mtime is None else "%s @%d" % (term(s.value), s.mtime), f"{tag}: store {i}")

    def mirror_writes(events):
        for ev in events:
            if ev[0] == "write":
                _, key, value, t = ev
                if b.kinds[key] == "stored":
                    q("craw %d" % key, "eq", term(value), f"value written to store {key}")
                    q("cop write %d %d" % (key, t), "eq", "ok", "cop")
                else:
                    q("cop update %d %d %d" % (key, value[2], t), "eq", "ok", "cop")
                stats["writes"] += 1

    # a dependent source may already hold content from an earlier session - OLDER than everything else, so it is out of date
    # as soon as anything upstream holds a value.  Until its producer has refreshed it, its content is trusted input.
    # (decided by a generator of its own: the main stream of the history stays what it was)
    rng2 = random.Random(hseed * 31 + 7)
    for nd in spec["nodes"]:
        if nd["kind"] == "dsource" and "fed_by" not in nd and rng2.random() < 0.3:
            d = nd["id"]
            b.ver[d] = 1
            b.stores[d].value, b.stores[d].mtime = ("s", d, 1), env.tick()
            q("cop update %d 1 %d" % (d, b.stores[d].mtime), "eq", "ok", "cop")
            b.junk.add(d)
    # initial contents of pure sources
    for nd in spec["nodes"]:
        if nd["kind"] == "source" and rng.random() < 0.9:
            i = nd["id"]
            b.ver[i] = 1
            b.stores[i].value, b.stores[i].mtime = ("s", i, 1), env.tick()
            q("cop update %d 1 %d" % (i, b.stores[i].mtime), "eq", "ok", "cop")
    compare_state("init")

    ids = [nd["id"] for nd in spec["nodes"] if nd["kind"] not in ("producer", "token")]   # a producer is consumed only through its source
    had_cut = False
    rng_dry = random.Random(hseed ^ 0x5BD1)     # a stream of its own: the histories stay what they were
    for step in range(steps):
        r = rng.random()
        stats["ops"] += 1
        if r >= 0.62 and rng_dry.random() < 0.3:
            # a DRY run (same Plan and Registry objects, no output, no fresh_time) before the sources / stored values change: it
            # must leave nothing behind that a later run would go by
            env.quiet, b.failing, env.cut_at = True, set(), None
            try:
                uberjob.run(b.plan, registry=b.reg, dry_run=True, progress=None)
                stats["dry_runs_before_changes"] = stats.get("dry_runs_before_changes", 0) + 1
            except Exception:      # noqa: BLE001 - e.g. a missing required source: what a dry run may raise is not judged here
                pass
            finally:
                env.quiet = False
        if r < 0.62:
            # ---- a run
            out = rng.sample(ids, min(len(ids), rng.choice([0, 1, 1, 2]))) if rng.random() < 0.8 else None
            F = rng.choice([None, None, env.clock, env.clock - 2])
            workers = rng.choice([1, 2, 3])
            sched = rng.choice(["default", "random"])
            cut = None
            b.failing = set()
            kind = rng.random()
            if stress:
                # the failing-input search after something broke: many more failing calls, single workers, tolerant error limits
                workers = rng.choice([1, 1, 2, 3])
                kind = 0.3 if rng.random() < 0.45 else kind
            if kind < 0.25:
                cut = rng.randint(0, 14)
            elif kind < 0.33:
                cs = [nd["id"] for nd in spec["nodes"] if nd["kind"] in ("stored", "call", "producer")]
                if cs:
                    b.failing = {rng.choice(cs)}
            stale_before = set(real_stale(b, env, F))
            ood_before = out_of_date(b, F)
            mt_before = {i: s.mtime for i, s in b.stores.items()}
            snap_before = {i: (s.value, s.mtime) for i, s in b.stores.items()}
            c0_before = env.clock + 1
            env.rec = plans.Rec()
            env.count, env.cut_at = 0, cut
            outnodes = None if out is None else [b.N[i] for i in out]
            seed = rng.randrange(1 << 30)
            rr = coop.run_controlled(
                lambda: uberjob.run(b.plan, registry=b.reg, output=outnodes, fresh_time=as_dt(F), max_workers=workers,
                                    scheduler=sched, progress=None,
                                    max_errors=rng.choice([0, None, None, 1] if stress else [0, 0, None])),
                seed, mode=mode)
            env.cut_at = None
            events = list(env.rec.events)
            desc = {"op": "run", "output": out, "fresh": F, "workers": workers, "scheduler": sched, "cut": cut,
                    "failing": sorted(b.failing), "seed": seed}
            log.append(desc)
            if rr.deadlock or rr.hang:
                viol.append({"property": "C07", "what": "run did not terminate", "step": desc})
                break
            mirror_writes(events)
            ok = rr.exc is None
            was_cut = any(e[0] == "cut" for e in events)
            if exec_applicable(spec):
                xl, xw = exec_request(b, snap_before, c0_before, stale_before, out, events, rr.value if ok else None, ok)
                q(xl, "prefix", xw, "execution model: values computed, read and stored by this run")
                stats["exec_runs"] = stats.get("exec_runs", 0) + 1
                stats["exec_effects"] = stats.get("exec_effects", 0) + sum(1 for e in events if e[0] in ("ret", "readval", "write"))
            elif execp_applicable(spec, b, out):
                xl, xw = exec_request(b, snap_before, c0_before, stale_before, out, events, rr.value if ok else None, ok, cmd="execp")
                q(xl, "prefix", xw, "execution model with producers: values computed, read and stored by this run")
                stats["execp_runs"] = stats.get("execp_runs", 0) + 1
                stats["execp_sources_rewritten"] = stats.get("execp_sources_rewritten", 0) + sum(
                    1 for e in events if e[0] == "write" and b.kinds[e[1]] == "dsource")
            # C08: "the next successful run produces correct outputs and stored values" — after a run of this history was
            # cut short or failed, the from-scratch checks on a later successful run are C08's as well
            p3 = "C03" if "C03" in props else ("C08" if ("C08" in props and had_cut) else None)
            stats["runs_ok" if ok else ("runs_cut" if was_cut else "runs_failed")] += 1
            writes = [e[1] for e in events if e[0] == "write"]
            calls = [e[1] for e in events if e[0] == "call"]
            reads = [e[1] for e in events if e[0] == "read"]
            if len(set(calls)) != len(calls) and "C04" in props:
                viol.append({"property": "C04", "what": f"calls executed more than once in one run: {calls}", "step": desc})
            if ok:
                fs = from_scratch(b)
                stats["nontrivial_runs"] += bool(writes)
                if out is not None and out and not isinstance(rr.value, (list, tuple)):
                    if p3:
                        viol.append({"property": p3, "what": f"run returned {rr.value!r} where the values of nodes {out} were requested", "step": desc})
                elif out is not None:
                    q("cseen-list %s" % " ".join(map(str, out)), "skip", None, "")
                    lines.pop(); expect.pop()
                    for k, o in enumerate(out):
                        q("cseen %d" % o, "eq", term(rr.value[k]), f"run output #{k} (node {o})")
                        if p3 and rr.value[k] != fs[o]:
                            viol.append({"property": p3, "what": f"run returned {term(rr.value[k])} for node {o}, from scratch gives {term(fs[o])}",
                                         "step": desc})
                for nd in spec["nodes"]:
                    # a dependent source must hold what its producer would write from scratch
                    if nd["kind"] == "producer" and p3 and b.stores[nd["writes"]].mtime is not None \
                            and (nd["writes"] not in b.junk or nd["writes"] in ood_before):
                        want = ("a", nd["id"]) + tuple(fs[a] for a in nd["args"])
                        if b.payload.get(nd["writes"]) != want:
                            viol.append({"property": p3, "what": f"dependent source {nd['writes']} holds content produced from "
                                         f"{term(b.payload.get(nd['writes'])) if nd['writes'] in b.payload else None}, from scratch its producer computes {term(want)}",
                                         "step": desc})
                    if "feeds" in nd and p3 and b.stores[nd["feeds"]].mtime is not None \
                            and b.payload.get(nd["feeds"]) != fs[nd["id"]]:
                        viol.append({"property": p3, "what": f"source {nd['feeds']} (a view of stored value {nd['id']}) shows content written from "
                                     f"{term(b.payload.get(nd['feeds'])) if nd['feeds'] in b.payload else None}, from scratch gives {term(fs[nd['id']])}",
                                     "step": desc})
                for i, s in b.stores.items():
                    if b.kinds[i] == "stored" and p3 and s.value != fs[i]:
                        viol.append({"property": p3, "what": f"after a successful run store {i} holds {term(s.value) if s.mtime else None}, "
                                     f"from scratch gives {term(fs[i])}", "step": desc})
                pn = "C04" if "C04" in props else ("C05" if "C05" in props else None)
                if pn:
                    want_c = sorted(needed_calls(b, ood_before, out))
                    if sorted(set(calls)) != want_c:
                        viol.append({"property": pn, "what": f"executed the calls {sorted(set(calls))}; needed (requested output, out-of-date stored "
                                     f"values, and what feeds them through nodes without a store) are {want_c}", "step": desc})
                if "C05" in props:
                    want_w = sorted(i for i in ood_before if i in b.stores and b.kinds[i] == "stored")
                    got_w = sorted(w for w in writes if b.kinds[w] == "stored")
                    if got_w != want_w:
                        viol.append({"property": "C05", "what": f"rewrote stored values {got_w}, the out-of-date stored values were {want_w}", "step": desc})
                    if len(set(reads)) != len(reads):
                        viol.append({"property": "C05", "what": f"a store was read more than once in one run: {reads}", "step": desc})
                    consumed = set(out or [])
                    for c in set(calls):
                        consumed |= set(spec["nodes"][c]["args"])
                    stray = sorted(set(reads) - consumed)
                    if stray:
                        viol.append({"property": "C05", "what": f"stores {stray} were read although no call executed in this run and no requested "
                                     f"output consumes them (calls {sorted(set(calls))}, output {out})", "step": desc})
                    for i in set(calls):
                        if b.kinds[i] == "stored" and i not in ood_before:
                            viol.append({"property": "C05", "what": f"up-to-date stored value {i} was recomputed", "step": desc})
                    # a repeated run with no output does nothing.  Preconditions made explicit (DESIGN 7.8): fresh_time does not
                    # lie in the future of the first run, and every pure source holds a value (a missing source can never be
                    # brought up to date by a run, so whatever merely depends on it stays out of date).
                    src_ok = all(s.mtime is not None for i, s in b.stores.items() if b.kinds[i] == "source")
                    if src_ok and (F is None or F <= min([t for t in (s.mtime for s in b.stores.values()) if t is not None] + [env.clock])):
                        env.rec = plans.Rec()
                        env.count = 0
                        b.failing = set()
                        r2 = coop.run_controlled(lambda: uberjob.run(b.plan, registry=b.reg, fresh_time=as_dt(F), progress=None,
                                                                     max_workers=workers, scheduler=sched), seed + 1, mode=mode)
                        stats["second_runs"] += 1
                        ev2 = [e for e in env.rec.events if e[0] in ("call", "read", "write")]
                        if r2.exc is not None or ev2:
                            viol.append({"property": "C05", "what": f"a run repeated right after a successful one performed {ev2[:5]} (exc={r2.exc!r})",
                                         "step": desc})
                        mirror_writes(env.rec.events)
            else:
                had_cut = True
            if "C09" in props:
                viol += [dict(v, step=desc) for v in order_monitor(b, events)]
            if "C01" in props:
                # with a registry: a call that starts has, IN THIS RUN, seen every call without a store it depends on (argument,
                # keyword or add_dependency) return - also when the path between them runs through an up-to-date stored value
                returned = set()
                for e in events:
                    if e[0] == "ret":
                        returned.add(e[1])
                    elif e[0] == "call":
                        nd_c = spec["nodes"][e[1]]
                        for u in set(nd_c["args"]) | set(nd_c["deps"]):
                            if u not in b.stores and b.kinds[u] in ("call", "producer") and u not in returned:
                                viol.append({"property": "C01", "what": f"call {e[1]} started although call {u}, which it depends on "
                                             f"directly, had not returned in this run", "step": desc})
        elif r < 0.82:
            srcs = [nd["id"] for nd in spec["nodes"] if nd["kind"] == "source"]
            if srcs:
                s = rng.choice(srcs)
                b.ver[s] = b.ver.get(s, 0) + 1
                b.stores[s].value, b.stores[s].mtime = ("s", s, b.ver[s]), env.tick()
                q("cop update %d %d %d" % (s, b.ver[s], b.stores[s].mtime), "eq", "ok", "cop")
                log.append({"op": "update", "source": s})
                stats["updates"] += 1
        else:
            regs = sorted(b.stores)
            if regs:
                i = rng.choice(regs)
                nd_i = spec["nodes"][i]
                both = [i] + ([nd_i["feeds"]] if "feeds" in nd_i else []) + ([nd_i["fed_by"]] if "fed_by" in nd_i else [])
                for j in both:           # a stored value and the source that is a view of its storage disappear together
                    b.stores[j].value, b.stores[j].mtime = None, None
                    q("cop delete %d" % j, "eq", "ok", "cop")
                log.append({"op": "delete", "store": i})
                stats["deletes"] += 1
        compare_state("after step %d" % step)
        if viol:
            break
    # C08: whatever happened, a final clean run repairs everything
    if not viol and ("C08" in props or "C03" in props):
        missing_src = [i for i, s in b.stores.items() if b.kinds[i] == "source" and s.mtime is None]
        b.failing = set()
        if not missing_src:
            env.rec = plans.Rec()
            env.count = 0
            mt_before = {i: s.mtime for i, s in b.stores.items()}
            ood = out_of_date(b, None)
            rr = coop.run_controlled(lambda: uberjob.run(b.plan, registry=b.reg, progress=None, max_workers=2), hseed, mode=mode)
            mirror_writes(env.rec.events)
            fs = from_scratch(b)
            if rr.exc is not None:
                viol.append({"property": "C08", "what": f"the repairing run failed: {rr.exc!r}"})
            else:
                for i, s in b.stores.items():
                    if b.kinds[i] == "stored" and s.value != fs[i]:
                        viol.append({"property": "C08", "what": f"after the repairing run store {i} holds {term(s.value)}, from scratch gives {term(fs[i])}"})
                redone = [e[1] for e in env.rec.events if e[0] == "write" and b.kinds[e[1]] == "stored" and e[1] not in ood]
                if redone:
                    viol.append({"property": "C08", "what": f"stored values {redone} were complete and up to date but were recomputed by the next run"})
            compare_state("after repair")
    if driver is not None and not viol:
        out = driver.batch(lines)
        for (kind, want, what), got, line in zip(expect, out, lines):
            if kind == "eq" and got.strip() != want.strip():
                dis.append({"layer": "cache", "what": what, "request": line, "impl": want, "model": got})
                break
            if kind == "prefix" and not got.strip().startswith(want.strip()):
                dis.append({"layer": "exec", "what": what, "request": line, "impl": want, "model": got})
                break
    for v in viol:
        v.setdefault("spec", spec)
        v.setdefault("hseed", hseed)
        v.setdefault("steps", steps)
        v.setdefault("log", log[-6:])
    for d in dis:
        d.update(spec=spec, hseed=hseed, steps=steps, log=log[-6:])
    stats["requests"] = len(lines)
    return viol, dis, stats


def order_monitor(b, events):
    """C09 on the event log of one run: a rebuilt stored value is written before it is read back, and read back before
    any consumer call starts; plain dependents start after the write."""
    v = []
    pos = {}
    for k, e in enumerate(events):
        pos.setdefault((e[0], e[1]), k)
    g = b.graph
    for (kind, i), k in list(pos.items()):
        if kind != "write" or b.kinds.get(i) != "stored":
            continue
        rd = pos.get(("read", i))
        if rd is not None and rd < k:
            v.append({"property": "C09", "what": f"store {i} was read (event {rd}) before its rebuilt value was written (event {k})"})
        for c in g.successors(i):
            ck = pos.get(("call", c))
            if ck is None:
                continue
            nd = b.spec["nodes"][c]
            if i in nd["args"]:
                if rd is None or ck < rd:
                    v.append({"property": "C09", "what": f"call {c} consumes stored value {i} but started before it was read back"})
            if ck < k:
                v.append({"property": "C09", "what": f"call {c} depends on stored value {i} but started before the write"})
    return v


def explore_cache(ctx, props, n_hist, steps=6, mode="prim", stress=False):
    rng = random.Random(ctx.seed * 2654435761 % (1 << 31) + 11)
    viol, dis = [], []
    tot = {}
    samples = []
    distinct = set()
    for h in range(n_hist):
        spec = gen_cache_spec(rng, nmax=9 if ctx.tier == "quick" else 14)
        hseed = rng.randrange(1 << 30)
        v, d, st = run_history(spec, hseed, steps, ctx.driver, props, mode=mode, stress=stress)
        for x in v:
            x["stress"] = stress
        for k, x in st.items():
            tot[k] = tot.get(k, 0) + x
        viol += [x for x in v if x["property"] in props]
        dis += d
        distinct.add((model_plan_line(spec), hseed))
        if len(samples) < 2 and st["nontrivial_runs"]:
            samples.append({"plan": model_plan_line(spec), "history_seed": hseed, "steps": steps, "stats": st})
        if len(viol) >= 3 or len(dis) >= 2:
            break
    cov = dict(tot)
    cov["histories"] = h + 1 if n_hist else 0
    cov["evaluations"] = cov["histories"]
    cov["programs"] = cov["histories"]
    cov["distinct_nontrivial"] = len(distinct)
    cov["rule"] = ("generated plans (pure sources, stored calls, unstored calls, literals with dependencies, producer+dependent source) "
                   "x seeded histories of runs (any output/fresh_time/workers/scheduler/controlled schedule, cut at a random event, failing call), "
                   "source updates and deletions; after every step stale sets (3 fresh_time values) and every store's content/mtime are compared "
                   "with the Lean model; distinct = distinct (plan, history seed)")
    cov["samples"] = samples
    return {"violations": viol, "disagreements": dis, "coverage": cov}


def replay_cache(ctx, w, props):
    v, d, _ = run_history(w["spec"], w["hseed"], w["steps"], ctx.driver, props, stress=w.get("stress", False))
    for x in v:
        if x["property"] in props:
            return x["what"]
    if d:
        return "model/implementation disagreement: " + str(d[0])[:400]
    return None
