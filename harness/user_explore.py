"""User-level exploration: generated plans run through the real `uberjob.run` under the cooperative scheduler.

Monitors state C01/C04/C06/C07 on the user's own dependency relation (argument, keyword and add_dependency edges,
also through literal nodes); every engine invocation inside the run is also replayed through the Lean model."""
from __future__ import annotations

import random

import networkx as nx

import uberjob
from harness import coop, plans
from harness import engine_explore as ee


def gen_user_case(rng, tier, cyclic=False):
    shape = rng.random() if not cyclic else 1.0
    hub = shape < 0.42
    lit_cycle = cyclic and rng.random() < 0.4
    spec = (plans.gen_hub_spec(rng) if shape < 0.3 else plans.gen_litchain_spec(rng) if hub
            else plans.gen_spec(rng, nmax=8 if tier == "quick" else 14, cyclic=cyclic and not lit_cycle))
    on_cycle = plans.add_literal_cycle(rng, spec) if lit_cycle else None
    ids = [nd["id"] for nd in spec["nodes"]]
    calls = [nd["id"] for nd in spec["nodes"] if nd["kind"] == "call"]
    k = rng.choice([0, 1, 2, 2, 3, 4])
    out = rng.sample(ids, min(k, len(ids))) if rng.random() < 0.9 else None
    if on_cycle is not None:                      # the cycle is among the needed nodes
        out = sorted(set(out or []) | {on_cycle})
    if hub:                                       # everything behind the junction is requested
        sinks = [i for i in calls if not any(a == i for a, _ in spec["deps"])
                 and not any(r.get("n") == i for nd in spec["nodes"] if nd["kind"] == "call" for r in nd["args"])]
        out = sinks or ids
    nf = rng.choice([0, 0, 0, 1, 2]) if not cyclic else 0
    failing = {i: rng.choice(list(plans.EXC)) for i in rng.sample(calls, min(nf, len(calls)))}
    # None = `max_workers` left at its default (documented: "based on the core count")
    return {"spec": spec, "output": out,
            "workers": rng.choice([2, 3, len(ids) + 2] if hub else [1, 2, 3, len(ids) + 2, 1, 2, 3, len(ids) + 2, None]),
            "max_errors": rng.choice([0, 0, 1, None]), "scheduler": rng.choice(["default", "random"]),
            "failing": {str(k): v for k, v in failing.items()}}


def run_user_case(case, seed, mode="prim", op_switch_p=0.05):
    rec = plans.Rec()
    failing = {int(k): v for k, v in case["failing"].items()}
    plan, N, raised = plans.build(case["spec"], rec, failing)
    out = None if case["output"] is None else [N[i] for i in case["output"]]
    r = coop.run_controlled(
        lambda: uberjob.run(plan, output=out, max_workers=case["workers"], max_errors=case["max_errors"],
                            scheduler=case["scheduler"], progress=None),
        seed, mode=mode, op_switch_p=op_switch_p)
    r.rec, r.N, r.raised, r.plan = rec, N, raised, plan
    return r


def examined_graph(spec, out):
    """The graph a registry-less run examines, computed INDEPENDENTLY of the library from the spec: the output gather call,
    its ancestors, then the removal of trivial literals in node order (a literal all of whose out-edges are plain dependencies
    and with m predecessors, n successors, m*n <= m+n, is replaced by pred x succ dependency edges).  A correct contraction
    preserves every cycle that passes through a node that stays (a call, a literal used as an argument, a kept literal)."""
    g = nx.MultiDiGraph()
    kinds = {}
    for nd in spec["nodes"]:
        g.add_node(nd["id"])
        kinds[nd["id"]] = nd["kind"]

    def refs(ref):
        if "n" in ref:
            yield ref["n"]
        for k in ("list", "tuple", "set"):
            for r in ref.get(k, []):
                yield from refs(r)
        for a, b in ref.get("dict", []):
            yield from refs(a)
            yield from refs(b)

    for nd in spec["nodes"]:
        if nd["kind"] == "call":
            for r in nd["args"] + [v for _, v in nd["kwargs"]]:
                for sidx in refs(r):
                    g.add_edge(sidx, nd["id"], key=("arg", len(g.edges())))
    for a, b in spec["deps"]:
        if not g.has_edge(a, b, key="dep"):
            g.add_edge(a, b, key="dep")
    sink = "gather"
    g.add_node(sink)
    kinds[sink] = "call"
    for o in out:
        g.add_edge(o, sink, key=("arg", len(g.edges())))
    keep = nx.ancestors(g, sink) | {sink}
    g.remove_nodes_from([n for n in list(g.nodes()) if n not in keep])
    for lit in [n for n in list(g.nodes()) if kinds[n] == "lit"]:
        if not all(k == "dep" for _, _, k in g.out_edges(lit, keys=True)):
            continue
        preds, succs = list(g.predecessors(lit)), list(g.successors(lit))
        m, n = len(preds), len(succs)
        if m * n > m + n:
            continue
        for p in preds:
            for q in succs:
                if not g.has_edge(p, q, key="dep"):
                    g.add_edge(p, q, key="dep")
        g.remove_node(lit)
    return nx.DiGraph(g)


def monitor_user(case, r):
    v = []
    spec = case["spec"]
    G = plans.user_graph(spec)
    kind = {nd["id"]: nd["kind"] for nd in spec["nodes"]}
    calls = {i for i, k in kind.items() if k == "call"}
    out = case["output"]
    needed = set()
    if out is not None:
        for o in out:
            needed |= nx.ancestors(G, o) | {o}
    sub = G.subgraph(needed)
    cyclic = not nx.is_directed_acyclic_graph(sub)
    if cyclic:
        cyclic = not nx.is_directed_acyclic_graph(examined_graph(spec, out))
    ev = r.rec.events
    if r.deadlock or r.hang:
        v.append(("C07", "run did not terminate (%s)" % ("deadlock" if r.deadlock else "step limit")))
        return v
    if r.leaked:
        v.append(("C07", f"threads still alive after run returned: {r.leaked}"))
    if cyclic:
        if not isinstance(r.exc, nx.HasACycle):
            v.append(("C07", f"a dependency cycle among the needed nodes was not reported (run gave {r.exc!r} / returned)"))
        if ev:
            v.append(("C07", f"calls executed although the needed nodes contain a cycle: {ev[:4]}"))
        return v
    ended, failed, started = set(), set(), []
    first_failed = None
    running = set()
    for e in ev:
        if e[0] == "start":
            i = e[1]
            for a in nx.ancestors(G, i):
                if a in calls and a not in ended:
                    v.append(("C01", f"call {i} started before its dependency {a} had finished successfully"))
                    break
            for a in nx.ancestors(G, i):
                if a in failed:
                    v.append(("C06", f"call {i} started although its dependency {a} had failed"))
                    break
            started.append(i)
            running.add(i)
        elif e[0] == "end":
            ended.add(e[1])
            running.discard(e[1])
        elif e[0] == "fail":
            failed.add(e[1])
            running.discard(e[1])
            if first_failed is None:
                first_failed = e[1]
    if len(set(started)) != len(started):
        v.append(("C04", f"calls executed more than once: {sorted(i for i in set(started) if started.count(i) > 1)}"))
    extra = set(started) - (needed & calls)
    if extra:
        v.append(("C04", f"calls executed that the output does not depend on: {sorted(extra)}"))
    # C10 at the level of uberjob.run: max_errors as the caller passed it
    fset = {int(k) for k in case["failing"]}
    if fset and not cyclic:
        w = case["workers"] if case["workers"] is not None else 32      # a default "based on the core count": at least never more than 32 threads here
        k = case["max_errors"]
        runnable = {i for i in needed & calls if not any(a in fset for a in nx.ancestors(G, i))}
        E = [i for i in needed & calls if i in fset and not any(a in fset for a in nx.ancestors(G, i))]
        if k is None and set(started) != runnable:
            v.append(("C10", f"max_errors=None: executed {sorted(set(started))}, expected every needed call with no failed dependency {sorted(runnable)}"))
        if k is not None and len(failed) > k + w:
            v.append(("C10", f"{len(failed)} calls failed with max_errors={k}, max_workers={w}"))
        if k is not None and w == 1 and len(failed) != min(k + 1, len(E)):
            v.append(("C10", f"one worker, max_errors={k}: {len(failed)} calls failed, expected min(k+1, {len(E)})"))
    if failed:
        if not isinstance(r.exc, uberjob.CallError):
            v.append(("C06", f"a call failed but run raised {r.exc!r}"))
            if r.exc is None and set(started) != (needed & calls):
                v.append(("C04", f"run returned normally (as a success) having executed {sorted(set(started))}, the output needs "
                          f"{sorted(needed & calls)} (calls {sorted(failed)} had raised)"))
        else:
            who = [i for i, n in r.N.items() if n is r.exc.call]
            if not who or who[0] not in failed:
                v.append(("C06", f"CallError.call is {who}, which did not fail (failed: {sorted(failed)})"))
            elif r.exc.__cause__ not in r.raised.get(who[0], []):
                v.append(("C06", "CallError.__cause__ is not the exception object the call raised"))
            elif case["workers"] == 1 and who[0] != first_failed:
                v.append(("C06", f"one worker: CallError names {who[0]} but {first_failed} failed first"))
    else:
        if r.exc is not None:
            v.append(("C06", f"no call failed but run raised {r.exc!r}"))
        else:
            if set(started) != (needed & calls):
                v.append(("C04", f"successful run executed {sorted(set(started))}, needed {sorted(needed & calls)}"))
            if out is None and r.value is not None:
                v.append(("C04", "output=None but run returned a value"))
    return v


def explore_user(ctx, props, n_prim, n_op=0, n_cyclic=0):
    rng = random.Random(ctx.seed * 104729 + 5)
    viol, dis = [], []
    st = {"runs": 0, "engine_traces_validated": 0, "labels_replayed": 0, "with_literals_deps": 0, "cyclic": 0, "failing": 0,
          "failing_nonstring_scope": 0, "guarded_literal_arguments": 0}
    distinct = set()
    for i in range(n_prim + n_op + n_cyclic):
        cyc = i >= n_prim + n_op
        case = gen_user_case(rng, ctx.tier, cyclic=cyc)
        if case["failing"]:
            # every kind of failure comes round regularly (not left to the draw)
            kinds = list(plans.EXC)
            for idx, k in enumerate(sorted(case["failing"])):
                case["failing"][k] = kinds[(i + idx) % len(kinds)]
            # ... and so does a failing call created in a scope that is not made of strings (scopes are arbitrary values)
            first = int(sorted(case["failing"])[0])
            if i % 3 == 0:
                case["spec"]["nodes"][first]["scope"] = [[2024, "q"], [i], ["a", 1]][(i // 3) % 3]
            st["failing_nonstring_scope"] += any(not isinstance(x, str) for x in case["spec"]["nodes"][first].get("scope", []))
        if not cyc and i % 6 == 3 and case["spec"]["nodes"]:
            # every sixth plan, under the default scheduler: a literal that WAITS for a call (add_dependency(call, literal)) and
            # is an argument of a further call that is requested - the literal is a node the engine has to enqueue itself
            sp = case["spec"]
            n0 = len(sp["nodes"])
            anchor = ([nd["id"] for nd in sp["nodes"] if nd["kind"] == "call"] or [0])[-1]
            sp["nodes"].append({"id": n0, "kind": "lit", "scope": []})
            sp["nodes"].append({"id": n0 + 1, "kind": "call", "args": [{"n": n0}], "kwargs": [], "scope": []})
            sp["deps"].append([anchor, n0])
            case["output"] = sorted(set(case["output"] or []) | {n0 + 1})
            case["scheduler"] = "default"
            st["guarded_literal_arguments"] += 1
        mode = "opcode" if n_prim <= i < n_prim + n_op else "prim"
        seed = rng.randrange(1 << 30)
        r = run_user_case(case, seed, mode=mode)
        st["runs"] += 1
        st["cyclic"] += cyc
        st["failing"] += bool(case["failing"])
        lits = [nd["id"] for nd in case["spec"]["nodes"] if nd["kind"] == "lit"]
        st["with_literals_deps"] += any(b in lits or a in lits for a, b in case["spec"]["deps"])
        if mode == "prim" and ctx.driver is not None and not (r.deadlock or r.hang):
            for tr in r.traces:
                d = ee.validate_trace(ctx.driver, tr)
                st["engine_traces_validated"] += 1
                st["labels_replayed"] += len(tr.labels)
                if d:
                    d.update(case=case, seed=seed, layer="engine(user-level run)")
                    dis.append(d)
                    break
        distinct.add(tuple(r.rec.events))
        for p, what in monitor_user(case, r):
            if p in props:
                viol.append({"property": p, "what": what, "user_case": case, "seed": seed, "mode": mode})
        if len(viol) >= 3 or len(dis) >= 3:
            break
    st["distinct_event_logs"] = len(distinct)
    return {"violations": viol, "disagreements": dis, "coverage": st}


def replay_user(ctx, w, props):
    # the saved schedule first, then neighbouring seeds: with the default scheduler the priorities depend on the
    # iteration order of sets of node objects (addresses), so one seed does not pin one schedule across processes
    for j in range(300):
        r = run_user_case(w["user_case"], w["seed"] + j, mode=w.get("mode", "prim"))
        for p, what in monitor_user(w["user_case"], r):
            if p in props:
                return what + (" (schedule seed +%d)" % j if j else "")
    return None
