"""Retry part of C10: the real `create_retry(n)` / `_coerce_retry` / `run(retry=…)` against the Lean model
(`retry N <script>` of the driver, theorems in lean/UberjobModel/Lemmas/Retry.lean) plus direct monitors.

    retry_diff(ctx, replay=None) -> {"violations": [...], "disagreements": [...], "coverage": {...}}   (explore() shape)

`GEN = ["Retry"]` must be listed by the props module that uses this (T1 fragment harness/gen/retry.py).

A *script* is the list of outcomes of successive attempts: ("ok", v) | ("exc", id) | ("base", id); the flaky function
plays it back, raising a fresh exception object per attempt (so "the exception of the LAST attempt" is checked by
identity).  Monitors state the property directly: at most n attempts, stop at the first success, an eventual success
is a success, exhausted => the last attempt's exception, only `Exception` is retried, n = 1 is the identity.
"""
from __future__ import annotations

import datetime as dt
import random

import uberjob
from uberjob import CallError, Plan, Registry
from uberjob._run import _coerce_retry
from uberjob._util.retry import create_retry, identity

GEN = ["Retry"]

EXC_TYPES = [ValueError, KeyError, RuntimeError, OSError, type("CustomError", (Exception,), {}), StopIteration,
             TypeError, AttributeError, AssertionError, ImportError, NameError, NotImplementedError, IndexError, ZeroDivisionError,
             UnicodeError, EOFError, TimeoutError, PermissionError, FileNotFoundError, MemoryError, RecursionError]
# what a flaky call / store operation of a real run raises: every kind of Exception is a transient failure to `retry`
RUN_EXC = {"RuntimeError": RuntimeError, "OSError": OSError, "TypeError": TypeError, "AttributeError": AttributeError,
           "AssertionError": AssertionError, "ImportError": ImportError, "NameError": NameError, "NotImplementedError": NotImplementedError,
           "KeyError": KeyError, "ValueError": ValueError, "IndexError": IndexError, "TimeoutError": TimeoutError}
BASE_TYPES = [KeyboardInterrupt, SystemExit, GeneratorExit, type("CustomBase", (BaseException,), {})]


class Flaky:
    """Plays a script back; remembers every exception object it raised."""

    def __init__(self, script, rng=None):
        self.script, self.calls, self.raised, self.rng = script, 0, [], rng or random.Random(0)

    def __call__(self, *args, **kwargs):
        i = self.calls
        self.calls += 1
        if i >= len(self.script):
            raise AssertionError("harness: script exhausted")
        kind, x = self.script[i]
        if kind == "ok":
            self.raised.append(None)
            return (x, args, tuple(sorted(kwargs.items())))
        typ = self.rng.choice(EXC_TYPES if kind == "exc" else BASE_TYPES)
        e = typ(f"{kind}:{x}")
        e.tag = (kind, x)
        self.raised.append(e)
        raise e


def tokens(script):
    return " ".join(f"{k}:{x}" for k, x in script)


def run_wrapper(n, script, rng):
    """create_retry(n)(flaky)(…) on the real code -> (canonical reply, monitor text | None)."""
    f = Flaky(script, rng)
    try:
        deco = create_retry(n)
    except ValueError:
        return "valueerror", (None if n < 1 else f"create_retry({n}) raised ValueError")
    if n < 1:
        return "created", f"create_retry({n}) did not raise ValueError"
    w = deco(f)
    if n == 1 and w is not f:
        return "wrapped", "create_retry(1) did not return the function unchanged (identity)"
    try:
        r = w(7, k=8)
        if r is None:
            reply = f"none {f.calls}"
        else:
            if r[1:] != ((7,), (("k", 8),)):
                return "args", "positional/keyword arguments were not passed through unchanged"
            reply = f"ret {r[0]} {f.calls}"
        err = None
    except BaseException as e:      # noqa: BLE001 - classified by the tag
        err = e
        kind, x = getattr(e, "tag", ("?", "?"))
        reply = f"{kind} {x} {f.calls}"
    # ---- monitor: the property, stated directly on the script
    stop = next((i for i, (k, _) in enumerate(script) if k != "exc"), len(script))     # first non-retried outcome
    want_calls = min(n, stop + 1)
    if f.calls > n:
        return reply, f"{f.calls} attempts with retry={n}"
    if f.calls != want_calls:
        return reply, f"{f.calls} attempts, expected min(n, first non-retried attempt + 1) = {want_calls}"
    last = script[want_calls - 1]
    if last[0] == "ok":
        if err is not None or reply != f"ret {last[1]} {want_calls}":
            return reply, f"attempt {want_calls} succeeded with {last[1]} but the call ended with {reply}"
    else:
        if err is None:
            return reply, f"attempt {want_calls} raised but the call returned normally ({reply})"
        if err is not f.raised[want_calls - 1]:
            return reply, "the exception that surfaced is not the one raised by the last attempt made"
    return reply, None


def gen_script(rng, n):
    m = max(n, 1) + 2
    style = rng.random()
    if style < 0.35:                       # fail the first j attempts, then succeed
        j = rng.randint(0, m - 1)
        return [("exc", rng.randint(0, 99)) for _ in range(j)] + [("ok", rng.randint(0, 99)) for _ in range(m - j)]
    if style < 0.5:                        # … with one BaseException somewhere
        j = rng.randint(0, m - 1)
        s = [("exc", rng.randint(0, 99)) for _ in range(m)]
        s[j] = ("base", rng.randint(0, 99))
        return s
    return [(rng.choices(["ok", "exc", "base"], [2, 5, 1])[0], rng.randint(0, 99)) for _ in range(m)]


# ------------------------------------------------------------------------------------------------------------------
# run(): the decorator is applied to call functions, store read / write and get_modified_time
# ------------------------------------------------------------------------------------------------------------------

class FlakyStore(uberjob.ValueStore):
    def __init__(self, fail_op=None, fail_first=0, mtime=None, exc=OSError):
        self.fail_op, self.fail_first, self.mtime, self.exc = fail_op, fail_first, mtime, exc
        self.calls = {"read": 0, "write": 0, "mtime": 0}
        self.raised, self.value = [], None

    def _maybe_fail(self, op):
        self.calls[op] += 1
        if op == self.fail_op and self.calls[op] <= self.fail_first:
            e = self.exc(f"{op} attempt {self.calls[op]}")
            self.raised.append(e)
            raise e

    def read(self):
        self._maybe_fail("read")
        return self.value

    def write(self, value):
        self._maybe_fail("write")
        self.value, self.mtime = value, dt.datetime(2021, 1, 1)

    def get_modified_time(self):
        self._maybe_fail("mtime")
        return self.mtime


def run_case(case):
    """One real `run` with retry=n and ONE flaky operation (fails its first j attempts).
    Returns (reply in the driver's format, monitor text | None)."""
    n, j, op = case["n"], case["j"], case["op"]
    exc_t = RUN_EXC[case.get("exc", "RuntimeError" if op == "call" else "OSError")]
    plan, reg = Plan(), Registry()
    fn_calls = {"n": 0}
    raised = []

    def fn():
        fn_calls["n"] += 1
        if op == "call" and fn_calls["n"] <= j:
            e = exc_t(f"call attempt {fn_calls['n']}")
            raised.append(e)
            raise e
        return 41

    store = FlakyStore(fail_op=op if op != "call" else None, fail_first=j,
                       mtime=dt.datetime(2021, 1, 1) if case["kind"] == "source" else None, exc=exc_t)
    if case["kind"] == "source":
        store.value = 41
        node = reg.source(plan, store)
    else:
        node = plan.call(fn)
        reg.add(node, store)
    out = plan.call(lambda x: x + 1, node)
    try:
        res = uberjob.run(plan, registry=reg, output=out, retry=n, progress=None, max_workers=1)
        err = None
    except CallError as e:
        res, err = None, e
    count = fn_calls["n"] if op == "call" else store.calls[op]
    exc_list = raised if op == "call" else store.raised
    want = min(n, j + 1)
    reply = f"ret 0 {count}" if err is None else f"exc {count - 1} {count}"
    if count > n:
        return reply, f"{op}: {count} attempts with retry={n}"
    if count != want:
        return reply, f"{op}: {count} attempts, expected {want} (fails first {j}, retry={n})"
    if j < n:
        if err is not None or res != 42:
            return reply, f"{op}: an eventual success (attempt {j + 1} of {n}) did not count as success: {err!r} / {res!r}"
        # nothing else was repeated
        others = {k: v for k, v in store.calls.items() if k != op}
        if any(v > 1 for v in others.values()) or (op != "call" and fn_calls["n"] > 1):
            return reply, f"{op}: other operations were repeated: {others}, fn={fn_calls['n']}"
    else:
        if err is None:
            return reply, f"{op}: all {n} attempts failed but run returned {res!r}"
        if err.__cause__ is not exc_list[n - 1]:
            return reply, f"{op}: the reported exception {err.__cause__!r} is not the one of the last attempt {exc_list[n - 1]!r}"
    return reply, None


def custom_decorator_sites():
    """A custom decorator is passed through untouched and is applied to the call function, Store.read, Store.write and
    store.get_modified_time — each time it is about to be executed."""
    seen = []

    def deco(f):
        seen.append(f)
        return f
    if _coerce_retry(deco) is not deco:
        return "custom retry decorator is not passed through untouched by _coerce_retry"
    f0 = lambda: 1      # noqa: E731
    if _coerce_retry(None)(f0) is not f0 or _coerce_retry(None) is not identity:
        return "retry=None is not the identity decorator"
    if _coerce_retry(1)(f0) is not f0:
        return "retry=1 is not the identity decorator"
    if _coerce_retry(3)(f0) is f0:
        return "retry=3 does not wrap the function"
    plan, reg = Plan(), Registry()
    st, src = FlakyStore(), FlakyStore(mtime=dt.datetime(2021, 1, 1))

    def fn(x):
        return x
    s = reg.source(plan, src)
    c = plan.call(fn, s)
    reg.add(c, st)
    uberjob.run(plan, registry=reg, output=c, retry=deco, progress=None, max_workers=1)
    names = []
    for f in seen:
        self_ = getattr(f, "__self__", None)
        names.append(("bound:" if self_ is not None else "") + getattr(f, "__qualname__", repr(f)))
    want = {"bound:FlakyStore.get_modified_time": 2, "FlakyStore.read": 2, "FlakyStore.write": 1,
            "custom_decorator_sites.<locals>.fn": 1}
    got = {k: names.count(k) for k in want}
    if got != want or len(names) != sum(want.values()):
        return f"retry decorator applied to {sorted(names)}, expected {want}"
    return None


# ------------------------------------------------------------------------------------------------------------------

def retry_diff(ctx, replay=None):
    if replay is not None:
        c = replay["case"]
        if c["what"] == "wrapper":
            return run_wrapper(c["n"], [tuple(x) for x in c["script"]], random.Random(c["seed"]))[1]
        if c["what"] == "run":
            return run_case(c)[1]
        return custom_decorator_sites()
    rng = random.Random(ctx.seed * 2654435761 % (2 ** 31) + 11)
    quick = ctx.tier == "quick"
    viol, dis, lines, impls, infos = [], [], [], [], []

    def violation(what, case):
        viol.append({"property": "C10", "what": "retry: " + what, "case": case, "replay_fn": "retry_diff"})

    # 1. the wrapper on scripts: systematic (fail first j, Exception / BaseException) + random
    wrapper_cases = []
    for n in range(-1, 7):
        m = max(n, 1) + 2
        for j in range(0, m):
            wrapper_cases.append((n, [("exc", 10 + i) for i in range(j)] + [("ok", 5)] * (m - j)))
            wrapper_cases.append((n, [("exc", 10 + i) for i in range(j)] + [("base", 77)] + [("ok", 5)] * (m - j - 1)))
        wrapper_cases.append((n, [("exc", 10 + i) for i in range(m)]))
    for _ in range(400 if quick else 30000):
        n = rng.choice([-3, 0, 1, 1, 2, 2, 3, 3, 4, 5, 6, 9])
        wrapper_cases.append((n, gen_script(rng, n)))
    exhausted = eventual = base = 0
    for n, script in wrapper_cases:
        seed = rng.randint(0, 10 ** 9)
        reply, w = run_wrapper(n, script, random.Random(seed))
        case = {"what": "wrapper", "n": n, "script": script, "seed": seed}
        if w:
            violation(w, case)
            if len(viol) >= 3:
                break
        exhausted += reply.startswith("exc") and reply.endswith(f" {n}") and n >= 2
        eventual += reply.startswith("ret") and not reply.endswith(" 1")
        base += reply.startswith("base")
        lines.append(f"retry {n} {tokens(script)}")
        impls.append(reply)
        infos.append(case)
    # 2. run(): one flaky operation per run
    run_cases = []
    for op, kind in (("call", "call"), ("write", "call"), ("read", "call"), ("mtime", "call"), ("read", "source"), ("mtime", "source")):
        for n in ([1, 2, 3] if quick else [1, 2, 3, 4, 6]):
            for j in range(0, n + 2):
                # the kind of exception comes round (every operation x every kind within a few checks of consecutive seeds)
                names = sorted(RUN_EXC)
                run_cases.append({"what": "run", "op": op, "kind": kind, "n": n, "j": j,
                                  "exc": names[(len(run_cases) + ctx.seed) % len(names)]})
    if not viol:
        for case in run_cases:
            reply, w = run_case(case)
            if w:
                violation(w, case)
                if len(viol) >= 3:
                    break
            # the same situation as a script: j failures, then success
            lines.append(f"retry {case['n']} " + tokens([("exc", i) for i in range(case["j"])] + [("ok", 0)] * (case["n"] + 2)))
            impls.append(reply)
            infos.append(case)
    # 3. custom decorators / where the decorator is applied
    if not viol:
        w = custom_decorator_sites()
        if w:
            violation(w, {"what": "sites"})
    n_model = 0
    if ctx.driver is not None and not viol:
        out = ctx.driver.batch(lines)
        n_model = len(out)
        for line, impl, info, model in zip(lines, impls, infos, out):
            if impl.strip() != model.strip():
                dis.append({"layer": "retry", "request": line, "impl": impl, "model": model, "case": info})
                if len(dis) >= 3:
                    break
    cov = {"retry_wrapper_scripts": len(wrapper_cases), "retry_runs": len(run_cases), "retry_model_requests": n_model,
           "retry_exhausted": int(exhausted), "retry_eventual_success": int(eventual), "retry_base_exception": int(base)}
    if not viol and min(exhausted, eventual, base) < 10:
        dis.append({"layer": "retry-generator-floor", "exhausted": exhausted, "eventual": eventual, "base": base})
    return {"violations": viol, "disagreements": dis, "coverage": cov}
