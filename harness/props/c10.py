import itertools
import random
import threading
import time

import networkx as nx

import uberjob._execution.run_function_on_graph as eng
from harness import engine_explore as ee
from harness.props._engine_common import make


def max_antichain(g):
    """Largest set of pairwise independent nodes (brute force; graphs here have <= 10 nodes)."""
    nodes = list(g.nodes())
    reach = {n: nx.descendants(g, n) for n in nodes}
    best = []
    for r in range(len(nodes), 0, -1):
        if r <= len(best):
            break
        for comb in itertools.combinations(nodes, r):
            if all(b not in reach[a] and a not in reach[b] for a, b in itertools.combinations(comb, 2)):
                best = list(comb)
                break
    return best


def rendezvous(case_graph, nodes_A, workers, scheduler, timeout=12.0):
    """Real threads: calls in the antichain A wait until min(workers, |A|) of them are executing at once."""
    target = min(workers, len(nodes_A))
    cond = threading.Condition()
    state = {"in": 0, "peak": 0, "ok": False}
    A = set(nodes_A)

    def fn(n):
        if n not in A:
            # long enough for the other workers to go idle inside queue.get(): they must be WOKEN when this node releases
            # its successors (a wake-up per item, not per put call)
            time.sleep(0.015)
            return
        with cond:
            state["in"] += 1
            state["peak"] = max(state["peak"], state["in"])
            if state["in"] >= target:
                state["ok"] = True
                cond.notify_all()
            else:
                cond.wait_for(lambda: state["ok"], timeout=timeout)
            state["in"] -= 1

    eng.run_function_on_graph(case_graph, fn, worker_count=workers, max_errors=0, scheduler=scheduler)
    return state["peak"], target


def rendezvous_user(case_graph, nodes_A, workers, scheduler, timeout=12.0):
    """The same through the public entry point: a Plan with one call per node and an add_dependency per edge, run with
    `uberjob.run(max_workers=...)` (whatever run_physical does with the worker count is part of what is measured)."""
    import uberjob
    target = min(workers, len(nodes_A))
    cond = threading.Condition()
    state = {"in": 0, "peak": 0, "ok": False}
    A = set(nodes_A)

    def make(n):
        def fn():
            if n not in A:
                time.sleep(0.015)
                return n
            with cond:
                state["in"] += 1
                state["peak"] = max(state["peak"], state["in"])
                if state["in"] >= target:
                    state["ok"] = True
                    cond.notify_all()
                else:
                    cond.wait_for(lambda: state["ok"], timeout=timeout)
                state["in"] -= 1
            return n
        fn.__name__ = fn.__qualname__ = "n%s" % (n,)
        return fn

    plan = uberjob.Plan()
    N = {n: plan.call(make(n)) for n in case_graph.nodes()}
    for u, v in set(case_graph.edges()):
        plan.add_dependency(N[u], N[v])
    uberjob.run(plan, output=list(N.values()), max_workers=workers, scheduler=scheduler, progress=None)
    return state["peak"], target


def wide_fan_cases(ctx, replay=None):
    """Hundreds of independent ready calls, a few workers, and ONE call that blocks: the other workers must get through everything
    else meanwhile.  The first call to start waits until every other call has started (or four seconds have passed): whatever has
    not started by then was ready, unblocked and waiting while workers had nothing else to do."""
    import threading
    viol, done = [], 0
    cases = [replay["fan_case"]] if replay else [[260, 3, "default"], [300, 2, "random"], [130, 4, "cheap"]]
    for n, w, sched in cases:
        g = ee.build_graph({"n": n, "nodes": list(range(n)), "edges": []})
        lock = threading.Lock()
        state = {"started": 0, "first": None, "stuck": None}
        all_started = threading.Event()

        def fn(node):
            with lock:
                state["started"] += 1
                first = state["first"] is None
                if first:
                    state["first"] = node
                if state["started"] == n:
                    all_started.set()
            if first:
                if not all_started.wait(4.0):
                    with lock:
                        state["stuck"] = n - state["started"]

        eng.run_function_on_graph(g, fn, worker_count=w, max_errors=0, scheduler=sched)
        done += 1
        if state["stuck"]:
            viol.append({"property": "C10", "what": f"{n} independent ready calls, max_workers={w}, scheduler={sched}: while one call was blocked, "
                         f"{state['stuck']} ready calls had not started after 4 s although the other workers had nothing else to do",
                         "replay_fn": "wide_fan", "fan_case": [n, w, sched]})
            break
    return {"violations": viol, "disagreements": [], "coverage": {"wide_fan_runs": done}}


def retry_parallel_cases(ctx, replay=None):
    """`retry` does not cost parallelism: W independent calls (or store writes) that each fail their first attempt, `retry=2`,
    `max_workers=W` - the SECOND attempts meet at a W-party barrier (five seconds): all of them must be executing at once."""
    import threading

    import uberjob
    viol, done = [], 0
    for kind, w in ([replay["retry_case"]] if replay else [["call", 4], ["write", 3]]):
        barrier = threading.Barrier(w)
        attempts, met, lock = {}, [], threading.Lock()

        def flaky(i):
            with lock:
                attempts[i] = attempts.get(i, 0) + 1
                n = attempts[i]
            if n == 1:
                raise OSError("first attempt of %d fails" % i)
            try:
                barrier.wait(timeout=5)
                with lock:
                    met.append(i)
            except threading.BrokenBarrierError:
                pass
            return i

        class Store(uberjob.ValueStore):
            def __init__(self, i):
                self.i, self.v = i, None

            def read(self):
                return self.v

            def write(self, value):
                flaky(self.i)
                self.v = value

            def get_modified_time(self):
                return None

        plan, reg = uberjob.Plan(), uberjob.Registry()
        if kind == "call":
            outs = [plan.call(flaky, i) for i in range(w)]
        else:
            outs = []
            for i in range(w):
                nd = plan.call(lambda i=i: i)
                reg.add(nd, Store(i))
                outs.append(nd)
        try:
            uberjob.run(plan, registry=reg if kind == "write" else None, output=outs, retry=2, max_workers=w, progress=None)
            err = None
        except Exception as e:      # noqa: BLE001
            err = e
        done += 1
        if err is not None or len(met) != w:
            viol.append({"property": "C10", "what": f"retry=2, max_workers={w}, {w} independent {kind}s whose first attempt fails: only {len(met)} of the {w} second "
                         f"attempts were executing at once" + (f" (run raised {err!r})" if err is not None else ""),
                         "replay_fn": "retry_parallel", "retry_case": [kind, w]})
            break
    return {"violations": viol, "disagreements": [], "coverage": {"retry_parallel_cases": done}}


def parallel_runs(ctx, replay=None):
    """`whenever at least max_workers independent calls are ready that many do run in parallel` and never more."""
    if replay is not None:
        case = replay["case"]
        g = ee.build_graph(case)
        fnr = rendezvous_user if replay.get("user_level") else rendezvous
        peak, target = fnr(g, replay["antichain"], case["workers"], case["scheduler"])
        return None if peak == target else f"only {peak} of {target} independent ready calls ran in parallel"
    rng = random.Random(ctx.seed * 13 + 3)
    n_cases = 40 if ctx.tier == "quick" else 600
    viol, done, nontriv = [], 0, 0
    for ci in range(n_cases):
        n = rng.randint(2, 9)
        shape = rng.random()
        wide = None
        if ci in (3, 11):
            # an explicit worker count above every default the library may have (os.cpu_count() + 4, 32): that many independent
            # calls, that many workers (drawn from a stream of its own)
            wide = random.Random(ctx.seed * 17 + ci).choice([33, 40, 48])
            case = {"n": wide, "nodes": list(range(wide)), "edges": []}
        elif shape < 0.25:     # a fan-out: one node releases k successors AT ONCE while the other workers sit idle in get()
            k = rng.randint(3, 5)
            pre = rng.randint(1, 2)
            nodes = list(range(pre + k))
            edges = [(i, i + 1) for i in range(pre - 1)] + [(pre - 1, pre + j) for j in range(k)]
            case = {"n": pre + k, "nodes": nodes, "edges": edges}
        elif shape < 0.45:   # a spine with one leaf per spine node: narrow generations, wide antichain
            k = rng.randint(2, 5)
            nodes = list(range(2 * k))
            edges = [(i, i + 1) for i in range(k - 1)] + [(i, k + i) for i in range(k)]
            case = {"n": 2 * k, "nodes": nodes, "edges": edges}
        else:
            g0 = ee.gen_graph(rng, n, p_edge=rng.choice([0.1, 0.25, 0.4]))
            case = {"n": n, "nodes": list(g0.nodes()), "edges": [(u, v) for u, v, _ in g0.edges(keys=True)]}
        g = ee.build_graph(case)
        A = max_antichain(g)
        w = rng.choice([2, 3, 4, len(A), len(A) + 1])
        case.update(workers=w, max_errors=0, scheduler=rng.choice(["default", "random"]), failing={})
        user_level = rng.random() < 0.5
        if wide is not None:
            case["workers"] = w = wide
            user_level = ci == 3
        peak, target = (rendezvous_user if user_level else rendezvous)(g, A, w, case["scheduler"])
        done += 1
        nontriv += target >= 2
        if peak < target:
            viol.append({"property": "C10", "what": f"only {peak} of {target} independent ready calls ran in parallel (max_workers={w})",
                         "case": case, "antichain": A, "replay_fn": "parallel_runs", "user_level": user_level})
        elif peak > w:
            viol.append({"property": "C10", "what": f"{peak} calls ran concurrently with max_workers={w}", "case": case,
                         "antichain": A, "replay_fn": "parallel_runs"})
        if viol:
            break
    return {"violations": viol, "disagreements": [], "coverage": {"rendezvous_runs": done, "rendezvous_nontrivial": nontriv}}


def stale_check_runs(ctx, replay=None):
    """`stale_check_max_workers`: that many modified-time queries run concurrently when at least that many are independent —
    and never more; when it is not given, `max_workers` is the limit of the stale check too."""
    import datetime as dt

    import uberjob
    configs = [replay["stale_cfg"]] if replay else [(1, 3), (4, 2), (3, None), (2, 2), (5, 1)]
    viol, done = [], 0
    for mw, sw in configs:
        k = 5
        limit = sw if sw is not None else mw
        target = min(limit, k)
        cond = threading.Condition()
        state = {"in": 0, "peak": 0, "ok": False}

        class S(uberjob.ValueStore):
            def read(self):
                return 0

            def write(self, value):
                pass

            def get_modified_time(self):
                with cond:
                    state["in"] += 1
                    state["peak"] = max(state["peak"], state["in"])
                    if state["in"] >= target:
                        state["ok"] = True
                        cond.notify_all()
                    else:
                        cond.wait_for(lambda: state["ok"], timeout=6.0)
                # stay inside a little longer, so that a surplus worker would be seen
                time.sleep(0.02)
                with cond:
                    state["in"] -= 1
                return dt.datetime(2020, 1, 1)

        plan, reg = uberjob.Plan(), uberjob.Registry()
        srcs = [reg.source(plan, S()) for _ in range(k)]
        uberjob.run(plan, registry=reg, output=srcs, max_workers=mw, stale_check_max_workers=sw, progress=None)
        done += 1
        if state["peak"] != target:
            viol.append({"property": "C10", "what": f"max_workers={mw}, stale_check_max_workers={sw}: {state['peak']} modified-time queries "
                         f"ran concurrently with {k} independent stores, expected exactly {target}",
                         "replay_fn": "stale_check", "stale_cfg": [mw, sw]})
            break
    return {"violations": viol, "disagreements": [], "coverage": {"stale_check_rendezvous_runs": done}}


def extras(ctx, replay=None):
    from harness import retry_corr
    if replay is not None:
        if replay.get("replay_fn") == "retry_diff":
            return retry_corr.retry_diff(ctx, replay=replay)
        if replay.get("replay_fn") == "stale_check":
            r = stale_check_runs(ctx, replay=replay)
            return r["violations"][0]["what"] if r["violations"] else None
        if replay.get("replay_fn") == "retry_parallel":
            r = retry_parallel_cases(ctx, replay=replay)
            return r["violations"][0]["what"] if r["violations"] else None
        if replay.get("replay_fn") == "wide_fan":
            r = wide_fan_cases(ctx, replay=replay)
            return r["violations"][0]["what"] if r["violations"] else None
        return parallel_runs(ctx, replay=replay)
    a = parallel_runs(ctx)
    if not a["violations"]:
        sc_ = stale_check_runs(ctx)
        a["violations"] += sc_["violations"]
        a["coverage"].update(sc_["coverage"])
    if not a["violations"]:
        wf = wide_fan_cases(ctx)
        a["violations"] += wf["violations"]
        a["coverage"].update(wf["coverage"])
    if not a["violations"]:
        rp = retry_parallel_cases(ctx)
        a["violations"] += rp["violations"]
        a["coverage"].update(rp["coverage"])
    b = retry_corr.retry_diff(ctx)
    cov = dict(a.get("coverage", {}))
    cov.update({"retry_" + k: v for k, v in b.get("coverage", {}).items() if k not in ("samples", "rule")})
    return {"violations": a["violations"] + b["violations"], "disagreements": a["disagreements"] + b["disagreements"],
            "coverage": cov}


GEN = ["Engine", "Retry"]
explore, search, replay = make({"C10"}, extra=extras)
