from harness import cache_explore as ce

GEN = ["Stale", "Engine"]
PROPS = {"C03"}
ASSUMPTIONS = [
    "call functions are deterministic (Herbrand terms); a store returns what was last written; every write gets a newer modified time",
    "a dependent source is written only by its private producer; every other predecessor of it is also upstream of the producer (DESIGN 7.7); dependent sources count as sources for 'from scratch'",
    "the idempotence clause is checked only when every pure source holds a value (DESIGN 7.8)",
    "the order/atomicity of store events inside one run (ancestors written first, reads after writes) is the subject of C09/C01/C04",
]


def phys_structure(ctx, res):
    """The end-to-end theorems of this property stand on the model of the physical plan (`physFinal`, `physEngine`): compare
    it, node by node and keyed edge by keyed edge, with the graphs the real dry run and the real run build (the structural
    half of C09's check; a deviation is a broken correspondence here too, and starts the search for a failing history)."""
    from harness.props import c09
    r = c09.explore_phys(ctx, 40 if ctx.tier == "quick" else 400, steps=3, structural=True, behavioural=False, salt=17)
    res["disagreements"] += r["disagreements"]
    res["coverage"]["phys_graph_comparisons"] = r["coverage"].get("comparisons", 0)


def explore(ctx):
    n = 260 if ctx.tier == "quick" else 4000
    res = ce.explore_cache(ctx, PROPS, n, steps=6)
    phys_structure(ctx, res)
    # C03_end_to_end_norm: the same with stores that normalise (driver `execn`, independent from-scratch evaluator)
    from harness import norm_exec
    rn = norm_exec.explore_norm(ctx, 60 if ctx.tier == "quick" else 1200, steps=5, props=PROPS, salt=43)
    res["violations"] += rn["violations"]
    res["disagreements"] += rn["disagreements"]
    res["coverage"].update(rn["coverage"])
    return res


def search(ctx, broken):
    class C:
        pass
    found = []
    for k in range(1, 4):
        c = C()
        c.__dict__.update(ctx.__dict__)
        c.seed = ctx.seed + 977 * k
        c.driver = None
        found += ce.explore_cache(c, PROPS, 400, steps=7)["violations"]
        if not found:
            found += ce.explore_cache(c, PROPS, 400, steps=7, stress=True)["violations"]
        if not found:
            from harness import norm_exec
            found += norm_exec.explore_norm(c, 300, steps=5, props=PROPS, salt=43)["violations"]
        if found:
            break
    if not found:
        # calls tied by add_dependency only and working through side effects (harness/c08_effects.py): the run after a cut
        # must return and store what a from-scratch run does
        from harness import c08_effects
        for v in c08_effects.side_effect_cases(ctx)["violations"]:
            if "from scratch" in v["what"]:
                v["property"] = "C03"
                found.append(v)
    return found


def replay(ctx, payload):
    w = payload.get("witness", payload)
    if isinstance(w, dict) and w.get("replay_fn") == "side_effects":
        from harness import c08_effects
        r = c08_effects.side_effect_cases(ctx, replay=w)
        return r["violations"][0]["what"] if r["violations"] else None
    if isinstance(w, dict) and w.get("kind") == "norm":
        from harness import norm_exec
        return norm_exec.replay_norm(ctx, w, PROPS)
    return ce.replay_cache(ctx, payload.get("witness", payload), PROPS)


def explore_shard(ctx):
    """extra parallel shard of the thorough tier: the seeded histories (cooperative scheduler, logical clock)"""
    res = ce.explore_cache(ctx, PROPS, 4000, steps=6)
    from harness import norm_exec
    rn = norm_exec.explore_norm(ctx, 1200, steps=5, props=PROPS, salt=43)
    res["violations"] += rn["violations"]
    res["disagreements"] += rn["disagreements"]
    res["coverage"].update(rn["coverage"])
    return res
