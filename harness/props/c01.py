from harness.props._engine_common import make

explore, search, replay = make({"C01"})
