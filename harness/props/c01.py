from harness.props._engine_common import make

GEN = ["Engine", "Stale"]

explore, search, replay = make({"C01"})
