from harness.props._engine_common import make

GEN = ["Engine", "Stale"]


def implied_dependency_cases(only=None):
    """An explicit `add_dependency(S, T)` that a path S -> M -> T already implies is not redundant: when M is a stored value
    that is up to date, the path is cut (T reads M from its store) and only the explicit edge still says that T waits for S.
    S is a call without a store (a side effect T relies on); second run after T's value was dropped / T requested afresh."""
    import uberjob
    from harness import cache_explore as ce
    viol, done = [], 0
    for t_stored in (True, False):
        for workers in (1, 3):
            if only and [t_stored, workers] != list(only):
                continue
            env = ce.Env()
            log = []
            plan, reg = uberjob.Plan(), uberjob.Registry()
            s = plan.call(lambda: log.append("S") or "s")
            m = plan.call(lambda v: log.append("M") or ("m", v), s)
            ms = ce.MemStore("m", env)
            reg.add(m, ms)
            t = plan.call(lambda v: log.append("T") or ("t", v), m)
            ts = ce.MemStore("t", env)
            if t_stored:
                reg.add(t, ts)
            plan.add_dependency(s, t)                      # implied by s -> m -> t at this moment
            uberjob.run(plan, registry=reg, output=t, max_workers=workers, progress=None)
            ts.value, ts.mtime = None, None                # T has to be produced again; M stays up to date
            del log[:]
            uberjob.run(plan, registry=reg, output=t, max_workers=workers, progress=None)
            done += 1
            if log != ["S", "T"]:
                viol.append({"property": "C01", "what": f"second run (stored M up to date, T {'stored, missing' if t_stored else 'not stored'}, "
                             f"{workers} worker(s)) executed {log}; T depends on S explicitly: expected ['S', 'T']",
                             "replay_fn": "implied-dependency", "dep_case": [t_stored, workers]})
    return viol, done


def extras(ctx, replay=None):
    """C01 with a registry: histories of real runs on in-memory stores; in every run a call that starts has seen every call
    without a store that it depends on directly return, in this run (cache_explore, property "C01")"""
    from harness import cache_explore as ce
    if replay is not None:
        if replay.get("replay_fn") == "implied-dependency":
            v, _ = implied_dependency_cases(only=replay["dep_case"])
            return v[0]["what"] if v else None
        if "spec" in replay and "hseed" in replay:
            return ce.replay_cache(ctx, replay, {"C01"})
        return None
    h = ce.explore_cache(ctx, {"C01"}, 80 if ctx.tier == "quick" else 1500, steps=5)
    for v in h["violations"]:
        v.setdefault("replay_fn", "cache-history")
    v2, n2 = implied_dependency_cases()
    return {"violations": h["violations"] + v2, "disagreements": h["disagreements"],
            "coverage": {"registry_histories": h["coverage"].get("histories", 0), "registry_runs_ok": h["coverage"].get("runs_ok", 0),
                         "implied_dependency_cases": n2}}


explore, search, replay = make({"C01"}, extra=extras)
