from harness.props._engine_common import make

GEN = ["Engine", "Stale"]


def extras(ctx, replay=None):
    """C01 with a registry: histories of real runs on in-memory stores; in every run a call that starts has seen every call
    without a store that it depends on directly return, in this run (cache_explore, property "C01")"""
    from harness import cache_explore as ce
    if replay is not None:
        if "spec" in replay and "hseed" in replay:
            return ce.replay_cache(ctx, replay, {"C01"})
        return None
    h = ce.explore_cache(ctx, {"C01"}, 80 if ctx.tier == "quick" else 1500, steps=5)
    for v in h["violations"]:
        v.setdefault("replay_fn", "cache-history")
    return {"violations": h["violations"], "disagreements": h["disagreements"],
            "coverage": {"registry_histories": h["coverage"].get("histories", 0), "registry_runs_ok": h["coverage"].get("runs_ok", 0)}}


explore, search, replay = make({"C01"}, extra=extras)
