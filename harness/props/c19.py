"""C19 — a failure is attributed to the user line that created the failing symbolic call.

T2 differential + direct monitors on the real code:

* helper functions are GENERATED (one `compile` per helper, each with its own file name and line offset) and nest the
  API call at depth 1..8; started with `_thread.start_new_thread` the helper chain IS the whole Python stack, so
  stacks shallower than, equal to and deeper than MAX_TRACEBACK_DEPTH+1 are all reached (some runs also go through
  the main thread, on top of the harness' own frames);
* the expected (name, path, line) chain is computed by a probe evaluated on the same source line as the API call
  (`inspect.currentframe().f_back…`), and cross-checked with the statically known positions;
* every kind of symbolic call (user call, gather, gather nested in call arguments, unpack, its getitem calls, store
  write, store read-back, source read, source placeholder, modified-time query of a call / of a source, implicit
  output gather, store write of a registered literal) is made to fail in its phase (stale check / run);
* monitor: the raised error is a CallError, `.call` is the failing symbolic call, its first frame is the user's line,
  the chain is the first min(d, D+1) frames (+ truncated marker iff more), `str(err)` lists them outermost first;
* model: the Lean driver's `tb site`, `tb capture` (fed with the stack actually seen by `inspect.currentframe()` inside
  get_stack_frame, recorded through a module-attribute shim), `tb msg`, `tb render`, `tb calls` must agree.
"""
from __future__ import annotations

import _thread
import datetime as dt
import inspect
import operator
import random
import sys
import types

import uberjob
import uberjob._util.traceback as tbmod
from uberjob import CallError, Plan, Registry
from uberjob import _builtins
from uberjob._util import fully_qualified_name
from uberjob._util.traceback import StackFrame, TruncatedStackFrame
from uberjob.graph import Call

GEN = ["Traceback"]
ASSUMPTIONS = [
    "inspect.currentframe / f_back / f_code / f_lineno describe the Python stack (CPython)",
    "which node the engine reports first is property C06; here exactly one call fails per run",
]
TRUSTED_EXTRA = ["harness/gen/traceback.py (pinned-shape extraction for get_stack_frame / render_symbolic_traceback / capture sites)"]

HEADER = "Symbolic traceback (most recent call last):"
TRUNC_LINE = "  ... truncated"
CUT = "/IPython/core/"
FILES = ["/virtual/c19/user_mod.py", "/virtual/c19/lib/helpers.py", "/virtual/c19/pipelines/build.py"]
IPY = "/virtual/site-packages/IPython/core/interactiveshell.py"
TRUNC = "TRUNC"
UBERJOB_DIR = __import__("os").path.dirname(uberjob.__file__) + "/"


# ------------------------------------------------------------------------------------------------------------------
# stores, call functions
# ------------------------------------------------------------------------------------------------------------------

class Boom(Exception):
    pass


class Store(uberjob.ValueStore):
    def __init__(self, fail=(), mtime=None):
        self.fail, self.mtime, self.value, self.writes = set(fail), mtime, None, 0

    def read(self):
        if "read" in self.fail:
            raise Boom("read")
        return self.value

    def write(self, value):
        if "write" in self.fail:
            raise Boom("write")
        self.value, self.writes = value, self.writes + 1
        self.mtime = dt.datetime(2020, 1, 1)

    def get_modified_time(self):
        if "mtime" in self.fail:
            raise Boom("mtime")
        return self.mtime


def boom(*a, **k):
    raise Boom("call")


def ok(*a, **k):
    return 1


def unhashable():
    return [1]


def triple():
    return (1, 2, 3)


def pair():
    return (1, 2)


# ------------------------------------------------------------------------------------------------------------------
# generated helper chains
# ------------------------------------------------------------------------------------------------------------------

class Env(types.SimpleNamespace):
    pass


class _NoLock:
    def release(self):
        pass


def probe():
    """Chain of (name, path, line) of the caller and everything below it — evaluated on the API call's line."""
    out, f = [], inspect.currentframe().f_back
    while f is not None:
        out.append((f.f_code.co_name, f.f_code.co_filename, f.f_lineno))
        f = f.f_back
    return out


INNER = {None: "{e}", "genexpr": "next(({e}) for _ in (0,))", "lambda": "(lambda: {e})()", "listcomp": "[({e}) for _ in (0,)][0]",
         "setcomp": "list({{({e}) for _ in (0,)}})[0]", "dictcomp": "{{0: ({e}) for _ in (0,)}}[0]"}


RECURSION = 3


def extra_frames(inner):
    """how many frames the creating expression adds on top of the helper chain"""
    return RECURSION + 1 if inner == "recursive" else (1 if inner_frame(inner) else 0)


def inner_frame(inner):
    """the frame (by code name) the creating expression runs in, inside h1 - None if it runs in h1's own frame (comprehensions
    are inlined since Python 3.12, PEP 709)"""
    if inner in ("genexpr", "lambda"):
        return "<%s>" % inner
    if inner in ("listcomp", "setcomp", "dictcomp") and sys.version_info < (3, 12):
        return "<%s>" % inner
    return None


def build_chain(depth, files, offsets, expr, inner=None):
    """h1 (innermost; evaluates the probe and then `expr` on ONE source line - directly, or inside a generator expression, a
    lambda or a comprehension on that line) … h<depth> (outermost; releases env.done).
    Returns (entry function, statically known [(name, path, line)] innermost first)."""
    ns, static = {}, []
    for k in range(1, depth + 1):
        pad = "\n" * offsets[k - 1]
        last = k == depth
        if k == 1 and inner == "recursive":
            # a recursive helper whose recursive call and creating expression share ONE source line: RECURSION + 1 identical
            # frames (same function, file and line) on top of h1
            core = f"(env.__setattr__('probed', probe()), {expr})[1]"
            src = (pad + f"def rec(env, probe, n):\n    return rec(env, probe, n - 1) if n else {core}\n"
                         "def h1(env, probe):\n"
                         "    try:\n"
                         f"        env.result = rec(env, probe, {RECURSION})\n"
                         "    except BaseException as e:\n"
                         "        env.error = e\n"
                   + ("    finally:\n        env.done.release()\n" if last else ""))
            static += [("rec", files[0], offsets[0] + 2)] * (RECURSION + 1)
            line = offsets[0] + 5
        elif k == 1:
            whole = INNER[inner].format(e=f"(env.__setattr__('probed', probe()), {expr})[1]")
            src = (pad + "def h1(env, probe):\n"
                         "    try:\n"
                         f"        env.result = {whole}\n"
                         "    except BaseException as e:\n"
                         "        env.error = e\n"
                   + ("    finally:\n        env.done.release()\n" if last else ""))
            line = offsets[0] + 3
            if inner_frame(inner):
                static.append((inner_frame(inner), files[0], line))
        elif last:
            src = pad + (f"def h{k}(env, probe):\n    try:\n        return h{k - 1}(env, probe)\n"
                         "    finally:\n        env.done.release()\n")
            line = offsets[k - 1] + 3
        else:
            src = pad + f"def h{k}(env, probe):\n    return h{k - 1}(env, probe)\n"
            line = offsets[k - 1] + 2
        exec(compile(src, files[k - 1], "exec"), ns)
        static.append((f"h{k}", files[k - 1], line))
    return ns[f"h{depth}"], static


def run_chain(entry, env, threaded):
    env.error = env.result = env.probed = None
    if not threaded:
        env.done = _NoLock()
        entry(env, probe)
        return
    env.done = _thread.allocate_lock()
    env.done.acquire()
    _thread.start_new_thread(entry, (env, probe))      # the thread starts IN the outermost helper: no other frame
    if not env.done.acquire(timeout=60):
        raise RuntimeError("helper thread did not finish")


class FrameRecorder:
    """Module-attribute shim for `uberjob._util.traceback.inspect`: records the stack that get_stack_frame sees."""

    def __init__(self):
        self.events = []

    def currentframe(self):
        f = sys._getframe(1)
        out, g = [], f
        while g is not None:
            out.append((g.f_code.co_name, g.f_code.co_filename, g.f_lineno))
            g = g.f_back
        self.events.append(out)
        return f

    def _getframe(self, depth=0):
        """the same recorder for a capture written with `sys._getframe(depth)`"""
        f = sys._getframe(1)
        out, g = [], f
        while g is not None:
            out.append((g.f_code.co_name, g.f_code.co_filename, g.f_lineno))
            g = g.f_back
        self.events.append(out)
        return sys._getframe(depth + 1)

    def __getattr__(self, name):
        return getattr(self.delegate, name)

    def __enter__(self):
        # get_stack_frame reaches the interpreter's frames through a module attribute of traceback.py: `inspect` in the
        # pinned source; a rewrite may use `sys` instead.  Anything else cannot be observed from here.
        self.attr = "inspect" if hasattr(tbmod, "inspect") else ("sys" if hasattr(tbmod, "sys") else None)
        if self.attr is None:
            from harness.common import Broken
            raise Broken("correspondence", "frame-capture", "uberjob._util.traceback reaches the stack neither through `inspect` nor `sys`")
        self.old = getattr(tbmod, self.attr)
        self.delegate = self.old
        setattr(tbmod, self.attr, self)
        return self

    def __exit__(self, *a):
        setattr(tbmod, self.attr, self.old)


def chain_list(sf):
    """StackFrame chain -> [(name, path, line)…] (+ TRUNC)."""
    out = []
    while sf is not None:
        if sf is TruncatedStackFrame:
            out.append(TRUNC)
            break
        out.append((sf.name, sf.path, sf.line))
        sf = sf.outer
    return out


def enc_frame(f):
    for x in (f[0], f[1]):
        if any(c in x for c in ",;|\n\r"):
            raise RuntimeError(f"frame text not encodable for the driver: {x!r}")
    return f"{f[0]},{f[1]},{f[2]}"


def enc_chain(ch):
    return ";".join(TRUNC if f == TRUNC else enc_frame(f) for f in ch) or "-"


def expected_chain(user_frames, max_depth):
    """The property: the user's line first, then the enclosing frames up to the limit, then the truncation marker."""
    keep = user_frames[:max_depth + 1]
    return list(keep) + ([TRUNC] if len(user_frames) > max_depth + 1 else [])


def expected_message(fqn, chain):
    shown = []
    for f in chain:
        if f == TRUNC:
            shown.append(f)
            break
        if CUT in f[1]:
            break
        shown.append(f)
    lines = [f"An exception was raised in a symbolic call to {fqn}.", HEADER]
    for f in reversed(shown):                      # outermost first
        lines.append(TRUNC_LINE if f == TRUNC else f'  File "{f[1]}", line {f[2]}, in {f[0]}')
    return "\n".join(lines)


# ------------------------------------------------------------------------------------------------------------------
# scenarios: (API expression evaluated on the user's line, site, set-up, run, which call must be reported)
# ------------------------------------------------------------------------------------------------------------------

def _run(env, **kw):
    return uberjob.run(env.plan, progress=None, max_workers=1, **kw)


def _retry_failing(target):
    def deco(f):
        return boom if f is target else f
    return deco


SCENARIOS = {}


def scenario(name, site, phase):
    def reg(fn):
        SCENARIOS[name] = (fn, site, phase)
        return fn
    return reg


# each scenario function: setup(env, rng) -> (expr, go, expect) where
#   expr   : source text evaluated in h1 (may use env.*)
#   go     : callable run in the MAIN harness thread after the chain (None when the chain itself fails, i.e. `run` kinds)
#   expect : callable(err) -> None | str  (is err.call the symbolic call that failed?)

@scenario("user_call", "planCall", "run")
def _s_user(env, rng):
    env.args = [env.plan.call(ok) for _ in range(rng.randint(0, 2))]
    return ("env.plan.call(env.boom, *env.args)", lambda: _run(env, output=env.result),
            lambda err: None if err.call is env.result else "CallError.call is not the failing user call")


@scenario("gather", "planGather", "run")
def _s_gather(env, rng):
    y = env.plan.call(unhashable)
    env.value = rng.choice([[1, {y}], {"k": [{y}]}, ({y}, 2), [[{y}]]])
    return ("env.plan.gather(env.value)", lambda: _run(env, output=env.result),
            lambda err: None if err.call.fn is _builtins.gather_set else f"failing call is {err.call.fn!r}, expected gather_set")


@scenario("gather_dict_key", "planGather", "run")
def _s_gather_dict(env, rng):
    y = env.plan.call(unhashable)
    env.value = {y: 1}
    return ("env.plan.gather(env.value)", lambda: _run(env, output=env.result),
            lambda err: None if err.call is env.result and err.call.fn is _builtins.gather_dict else "failing call is not the gather_dict call")


@scenario("call_arg_gather", "planCall", "run")
def _s_call_arg(env, rng):
    y = env.plan.call(unhashable)
    env.value = rng.choice([{y}, [{y}, 1], {"a": {y}}])
    kw = rng.random() < 0.5
    return ("env.plan.call(env.ok, k=env.value)" if kw else "env.plan.call(env.ok, env.value)",
            lambda: _run(env, output=env.result),
            lambda err: None if err.call.fn is _builtins.gather_set else f"failing call is {err.call.fn!r}, expected gather_set")


@scenario("unpack", "planUnpack", "run")
def _s_unpack(env, rng):
    env.node = env.plan.call(triple)
    return ("env.plan.unpack(env.node, 2)", lambda: _run(env, output=env.result[0]),
            lambda err: None if err.call.fn is _builtins.unpack else "failing call is not the unpack call")


@scenario("unpack_getitem", "planUnpack", "run")
def _s_getitem(env, rng):
    env.node = env.plan.call(pair)
    i = rng.randint(0, 1)
    return ("env.plan.unpack(env.node, 2)", lambda: _run(env, output=env.result[i], retry=_retry_failing(operator.getitem)),
            lambda err: None if err.call is env.result[i] and err.call.fn is operator.getitem else "failing call is not the getitem call")


@scenario("store_write", "registryAdd", "run")
def _s_write(env, rng):
    env.node = env.plan.call(ok)
    env.store = Store(fail={"write"})
    return ("env.registry.add(env.node, env.store)", lambda: _run(env, registry=env.registry, output=env.node),
            lambda err: None if err.call.fn is Store.write else f"failing call is {err.call.fn!r}, expected Store.write")


@scenario("store_read_back", "registryAdd", "run")
def _s_readback(env, rng):
    env.node = env.plan.call(ok)
    env.store = Store(fail={"read"})
    return ("env.registry.add(env.node, env.store)", lambda: _run(env, registry=env.registry, output=env.node),
            lambda err: None if err.call.fn is Store.read and env.store.writes == 1 else "failing call is not the read-back after the write")


@scenario("literal_store_write", "registryAdd", "run")
def _s_lit_write(env, rng):
    env.node = env.plan.lit(5)
    env.store = Store(fail={"write"})
    return ("env.registry.add(env.node, env.store)", lambda: _run(env, registry=env.registry, output=env.node),
            lambda err: None if err.call.fn is Store.write else f"failing call is {err.call.fn!r}, expected Store.write")


@scenario("source_read", "registrySource", "run")
def _s_source_read(env, rng):
    env.store = Store(fail={"read"}, mtime=dt.datetime(2020, 1, 1))
    return ("env.registry.source(env.plan, env.store)", lambda: _run(env, registry=env.registry, output=env.result),
            lambda err: None if err.call.fn is Store.read else f"failing call is {err.call.fn!r}, expected Store.read")


@scenario("source_placeholder", "registrySource", "run")
def _s_source_plain(env, rng):
    env.store = Store(mtime=dt.datetime(2020, 1, 1))
    return ("env.registry.source(env.plan, env.store)", lambda: _run(env, output=env.result),     # registry NOT passed
            lambda err: None if err.call is env.result else "failing call is not the source placeholder")


@scenario("mtime_of_call", "planCall", "stale")
def _s_mtime_call(env, rng):
    env.store = Store(fail={"mtime"})

    def go():
        env.registry.add(env.result, env.store)       # some other line: must NOT be the one reported
        return _run(env, registry=env.registry, output=env.result)
    return ("env.plan.call(env.ok)", go,
            lambda err: None if err.call is env.result else "failing call is not the call whose store was examined")


@scenario("mtime_of_source", "registrySource", "stale")
def _s_mtime_source(env, rng):
    env.store = Store(fail={"mtime"})
    return ("env.registry.source(env.plan, env.store)", lambda: _run(env, registry=env.registry, output=env.result),
            lambda err: None if err.call is env.result else "failing call is not the source node that was examined")


@scenario("output_gather", "run", "run")
def _s_output(env, rng):
    y = env.plan.call(unhashable)
    env.value = rng.choice([{y}, [{y}], {"o": {y}}])
    return ("env.run(env.plan, output=env.value, progress=None, max_workers=1)", None,
            lambda err: None if err.call.fn is _builtins.gather_set else f"failing call is {err.call.fn!r}, expected gather_set")


SITE_FN = {"planCall": "call", "planGather": "gather", "planUnpack": "unpack", "registryAdd": "add",
           "registrySource": "source", "run": "run"}


# code that was not loaded from a file: exec / `python -c` / stdin / doctest / generated code
ANGLE = ["<string>", "<stdin>", "<doctest user_mod[3]>", "<generated pipeline>"]


# a package NEXT TO uberjob whose directory name begins with "uberjob" (uberjob_contrib/...): user code like any other
SIBLING = ["@sibling:_contrib/helpers.py", "@sibling:-extras/build.py",      # resolved against the library's directory when used
           # user code as a notebook kernel compiles it (cells live in files named after the kernel), and other paths that merely LOOK
           # like an interpreter's own
           "/tmp/ipykernel_4242/1234567890.py", "/home/user/ipykernel_projects/build.py"]


def resolve_file(f):
    return UBERJOB_DIR.rstrip("/") + f[len("@sibling:"):] if f.startswith("@sibling:") else f


def gen_case(rng, name, depth, threaded, ipython=False, angle=False, inner=None, sibling=False):
    files = [rng.choice(FILES) for _ in range(depth)]
    if sibling:
        files[0] = rng.choice(SIBLING)
        if depth >= 3:
            files[2] = rng.choice(SIBLING)
    if ipython and depth >= 2:
        files[rng.randint(1, depth - 1)] = IPY
    if angle:
        files[0] = rng.choice(ANGLE)                 # the creating line itself
        for k in range(1, depth):
            if rng.random() < 0.4:
                files[k] = rng.choice(ANGLE)
    case = {"scenario": name, "depth": depth, "threaded": threaded, "files": files,
            "offsets": [rng.randint(0, 400) for _ in range(depth)], "variant": rng.randint(0, 10 ** 6)}
    # `inner`: where on its line the creating expression sits - directly in the helper, or in a generator expression / lambda /
    # comprehension
    case["inner"] = inner
    return case


def run_case(case):
    """Executes one scenario on the real code.  Returns a dict with everything observed (no judgement yet)."""
    fn, site, phase = SCENARIOS[case["scenario"]]
    env = Env(plan=Plan(), registry=Registry(), boom=boom, ok=ok, run=uberjob.run)
    env.decoys = [env.plan.call(ok), env.plan.lit(0)]          # other nodes, created on other lines
    env.decoys.append(env.plan.call(ok, env.decoys[0]))
    expr, go, expect = fn(env, random.Random(case["variant"]))
    entry, static = build_chain(case["depth"], [resolve_file(f) for f in case["files"]], case["offsets"], expr, case.get("inner"))
    obs = {"site": site, "phase": phase, "static": static}
    with FrameRecorder() as rec:
        run_chain(entry, env, case["threaded"])
        chain_events = list(rec.events)
        err = env.error
        if go is not None:
            if err is not None:
                raise RuntimeError(f"harness: building the plan failed: {err!r}")
            try:
                go()
                err = None
            except BaseException as e:      # noqa: BLE001 - classified below
                err = e
    obs["user"] = env.probed
    obs["captures"] = chain_events
    obs["err"] = err
    obs["expect"] = expect
    return obs


def judge(case, obs, max_depth):
    """The monitor.  Returns (violation text | None)."""
    err = obs["err"]
    user = obs["user"]
    if user is None or user[:len(obs["static"])] != obs["static"]:
        raise RuntimeError(f"harness: probe {user} does not start with the generated helpers {obs['static']}")
    if case["threaded"] and len(user) != case["depth"] + extra_frames(case.get("inner")):
        raise RuntimeError("harness: thread stack is not exactly the helper chain")
    if err is None:
        return "run did not fail although a symbolic call raised"
    if not isinstance(err, CallError):
        return f"run raised {type(err).__name__}: {err} instead of a CallError"
    if type(err.call) is not Call:
        return f"CallError.call is a {type(err.call).__name__}"
    w = obs["expect"](err)
    if w:
        return w
    if not isinstance(err.__cause__, (Boom, TypeError, ValueError, uberjob.NotTransformedError)):
        return f"CallError.__cause__ is {err.__cause__!r}, not the exception raised by the call"
    got = chain_list(err.call.stack_frame)
    want = expected_chain(user, max_depth)
    if not got or got[0] != user[0]:
        return f"symbolic traceback starts at {got[:1]} instead of the user's line {user[0]}"
    if got != want:
        return f"symbolic traceback is {got}, expected {want}"
    msg = expected_message(fully_qualified_name(err.call.fn), want)
    if str(err) != msg:
        return f"str(CallError) is {str(err)!r}, expected {msg!r}"
    return None


def model_lines(case, obs):
    """Driver requests for one observed case and the replies the real code corresponds to."""
    err, user, site = obs["err"], obs["user"], obs["site"]
    # the capture event of the user's line: get_stack_frame :: API function :: user stack
    mine = [ev for ev in obs["captures"] if ev[2:] == user and len(ev) >= 2]
    out = []
    if len(mine) != 1 or mine[0][0][0] != "get_stack_frame" or mine[0][1][0] != SITE_FN[site] \
            or not mine[0][1][1].startswith(UBERJOB_DIR):
        out.append(("site-shape", None, f"{[ev[:3] for ev in obs['captures']]}",
                    f"exactly one capture with stack get_stack_frame :: {SITE_FN[site]} :: user line"))
        return out
    ev = mine[0]
    if isinstance(err, CallError) and type(err.call) is Call:
        got = enc_chain(chain_list(err.call.stack_frame))
        out.append(("capture", "tb capture default | " + enc_chain(ev), got, None))
        out.append(("site", f"tb site {site} | {enc_frame(ev[0])} | {enc_frame(ev[1])} | {enc_chain(user)}", got, None))
        fqn = fully_qualified_name(err.call.fn)
        if " " not in fqn and "|" not in fqn:
            out.append(("message", f"tb msg {fqn} | {got}", str(err).replace("\n", "\\n"), None))
    return out


# ------------------------------------------------------------------------------------------------------------------
# generic differentials: get_stack_frame(k), render_symbolic_traceback, the calls created by the API functions
# ------------------------------------------------------------------------------------------------------------------

def _canon_tb_lines(ch):
    """Line numbers inside traceback.py move while get_stack_frame runs; they are not part of any claim."""
    return [f if f == TRUNC or f[1] != tbmod.__file__ else (f[0], f[1], 0) for f in ch]


def diff_capture(rng, n):
    reqs = []
    for _ in range(n):
        depth = rng.randint(1, 8)
        k = rng.randint(0, depth + 2)
        env = Env(tb=tbmod, k=k)
        entry, _ = build_chain(depth, [rng.choice(FILES) for _ in range(depth)], [rng.randint(0, 50) for _ in range(depth)],
                               "env.tb.get_stack_frame(env.k)")
        with FrameRecorder() as rec:
            run_chain(entry, env, True)
        if env.error is not None:
            impl = "raise" if isinstance(env.error, AttributeError) else f"other:{env.error!r}"
        else:
            impl = enc_chain(_canon_tb_lines(chain_list(env.result)))
        stack = rec.events[0]
        reqs.append(("get_stack_frame", f"tb capture {k} | " + enc_chain(_canon_tb_lines(stack)), impl,
                     {"depth": depth, "initial_depth": k}))
    return reqs


def diff_render(rng, n):
    reqs = []
    names = ["f", "<module>", "<lambda>", "build", "Cls.method"]
    paths = FILES + [IPY, "/x/IPython/core/a.py", "/x/IPython/corex/a.py", "IPython/core/", "/IPython/core"]
    for _ in range(n):
        m = rng.randint(0, 7)
        fr = [(rng.choice(names), rng.choice(paths if rng.random() < 0.4 else FILES), rng.randint(1, 9999)) for _ in range(m)]
        trunc = rng.random() < 0.5
        sf = TruncatedStackFrame if trunc else None
        for f in reversed(fr):
            sf = StackFrame(name=f[0], path=f[1], line=f[2], outer=sf)
        impl = tbmod.render_symbolic_traceback(sf).replace("\n", "\\n")
        reqs.append(("render", "tb render | " + enc_chain(fr + ([TRUNC] if trunc else [])), impl, {"frames": fr, "trunc": trunc}))
    return reqs


def gen_value(rng, plan, depth, need_hashable=False):
    """A random structured value and its abstraction for the model (`N` node, `L` leaf, `[ … ]` container)."""
    r = rng.random()
    if depth <= 0 or r < 0.3:
        if rng.random() < 0.45:
            return plan.call(ok), "N"
        return rng.randint(0, 10 ** 9), "L"
    kind = rng.choice(["tuple"] if need_hashable else ["list", "tuple", "set", "dict"])
    n = rng.randint(0, 3)
    if kind == "dict":
        items, toks = {}, []
        for _ in range(n):
            k, kt = gen_value(rng, plan, depth - 1, need_hashable=True)
            v, vt = gen_value(rng, plan, depth - 1)
            if k in items:
                continue
            items[k] = v
            toks.append(f"[ {kt} {vt} ]")
        return items, "[ " + " ".join(toks) + " ]"
    vals = [gen_value(rng, plan, depth - 1, need_hashable=(need_hashable or kind == "set")) for _ in range(n)]
    if kind == "set":
        s, toks = set(), []
        for v, t in vals:
            if v not in s:
                s.add(v)
                toks.append(t)
        # the iteration order of a set is not the insertion order; the multiset of created calls does not depend on it
        return s, "[ " + " ".join(toks) + " ]"
    seq = [v for v, _ in vals]
    return (tuple(seq) if kind == "tuple" else seq), "[ " + " ".join(t for _, t in vals) + " ]"


KIND_OF_FN = {_builtins.gather_list: "gather", _builtins.gather_tuple: "gather", _builtins.gather_set: "gather",
              _builtins.gather_dict: "gather", _builtins.unpack: "unpack", operator.getitem: "getitem",
              _builtins.source: "source", Store.read: "read", Store.write: "write", ok: "user"}


def _new_calls(plan, before):
    return [n for n in plan.graph.nodes() if type(n) is Call and n not in before]


def _summ(calls, frame):
    kinds = sorted(KIND_OF_FN.get(c.fn, "?") for c in calls)
    same = all(c.stack_frame is frame for c in calls) and (not calls or frame is not None)
    return " ".join(kinds + ["same" if same else "differ"])


def diff_calls(rng, n):
    """Which symbolic calls one API call creates and that they all share ONE captured frame object."""
    reqs = []
    for _ in range(n):
        plan, op = Plan(), rng.choice(["call", "gather", "unpack", "output", "source", "store"])
        if op == "call":
            args = [gen_value(rng, plan, 3) for _ in range(rng.randint(0, 3))]
            kwargs = [gen_value(rng, plan, 3) for _ in range(rng.randint(0, 2))]
            before = set(plan.graph.nodes())
            c = plan.call(ok, *[v for v, _ in args], **{f"k{i}": v for i, (v, _) in enumerate(kwargs)})
            impl = _summ(_new_calls(plan, before), c.stack_frame)
            line = "tb calls call | " + " ".join(t for _, t in args) + " | " + " ".join(t for _, t in kwargs)
        elif op in ("gather", "output"):
            v, t = gen_value(rng, plan, 4)
            before = set(plan.graph.nodes())
            if op == "gather":
                g = plan.gather(v)
                new, p2 = _new_calls(plan, before), plan
            else:
                p2, g = uberjob.run(plan, output=v, dry_run=True, progress=None)
                # dry_run prunes nothing that the output needs: every gather call created for the output survives
                new = [x for x in p2.graph.nodes() if type(x) is Call and x not in before]
            frame = new[0].stack_frame if new else None
            impl = " ".join(sorted(KIND_OF_FN.get(c.fn, "?") for c in new)
                            + ["same" if all(c.stack_frame is frame for c in new) else "differ"])
            line = f"tb calls {op} | {t}"
        elif op == "unpack":
            v, t = gen_value(rng, plan, 3)
            k = rng.randint(0, 4)
            before = set(plan.graph.nodes())
            res = plan.unpack(v, k)
            new = _new_calls(plan, before)
            frame = next(c.stack_frame for c in new if c.fn is _builtins.unpack)
            impl = _summ(new, frame) if len(res) == k else "wrong-length"
            line = f"tb calls unpack {k} | {t}"
        elif op == "source":
            reg = Registry()
            before = set(plan.graph.nodes())
            s = reg.source(plan, Store())
            new = _new_calls(plan, before)
            entry_ok = reg.mapping[s].stack_frame is s.stack_frame and reg.mapping[s].is_source
            impl = _summ(new, s.stack_frame) if entry_ok else "entry-differs"
            line = "tb calls source"
        else:
            reg = Registry()
            is_source, stale = rng.random() < 0.5, rng.random() < 0.5
            st = Store(mtime=None if stale else dt.datetime(2020, 1, 1))
            node = reg.source(plan, st) if is_source else plan.call(ok)
            if not is_source:
                reg.add(node, st)
            before = set(plan.graph.nodes())
            p2, out = uberjob.run(plan, registry=reg, output=node, dry_run=True, progress=None)
            new = [x for x in p2.graph.nodes() if type(x) is Call and x not in before]
            impl = _summ(new, reg.mapping[node].stack_frame)
            # whether a write is planned is C05/C09's business: the model is told what the real plan decided
            stale_obs = any(c.fn is Store.write for c in new) if not is_source else stale
            line = f"tb calls store {int(is_source)} {int(stale_obs)}"
        # the model lists calls in creation order; only the multiset is compared
        reqs.append(("calls", line, impl, {"op": op}))
    return reqs


def _sorted_kinds(reply):
    toks = reply.split()
    return " ".join(sorted(toks[:-1]) + toks[-1:]) if toks else reply


# ------------------------------------------------------------------------------------------------------------------
# explore / replay / known findings
# ------------------------------------------------------------------------------------------------------------------

def _cases(ctx):
    rng = random.Random(ctx.seed * 7919 + 19)
    quick = ctx.tier == "quick"
    cases = []
    for name in SCENARIOS:
        for depth in range(1, 9):
            cases.append(gen_case(rng, name, depth, True))
        for depth in ([2, 5] if quick else [1, 2, 3, 4, 5, 6]):
            cases.append(gen_case(rng, name, depth, True, ipython=True))
        for depth in ([1, 3] if quick else [1, 2, 3, 5, 8]):
            cases.append(gen_case(rng, name, depth, False))          # on top of the harness' own (deep) stack
        for depth in ([1, 3] if quick else [1, 2, 3, 4, 6]):
            cases.append(gen_case(rng, name, depth, True, angle=True))
    if not quick:
        for _ in range(1500):
            cases.append(gen_case(rng, rng.choice(list(SCENARIOS)), rng.randint(1, 8), rng.random() < 0.85,
                                  ipython=rng.random() < 0.25))
    # the creating expression inside a generator expression / lambda / comprehension on its line (a stream of its own)
    rng2 = random.Random(ctx.seed * 7919 + 23)
    for name in SCENARIOS:
        for depth, inner in ([(1, "genexpr"), (3, "lambda"), (4, "genexpr"), (6, "listcomp"), (2, "dictcomp")] if quick else
                             [(d, i) for d in (1, 2, 3, 4, 5, 7) for i in ("genexpr", "lambda", "listcomp", "setcomp", "dictcomp")]):
            cases.append(gen_case(rng2, name, depth, rng2.random() < 0.8, inner=inner))
        for depth in ((1, 3, 2) if quick else (1, 2, 3, 5, 4, 2)):
            cases.append(gen_case(rng2, name, depth, True, sibling=True))
        cases.append(gen_case(rng2, name, 1, True, inner="recursive"))          # 4 identical frames + h1: exactly the depth limit + 1
        if not quick:
            cases.append(gen_case(rng2, name, 3, True, inner="recursive"))
    return cases


_REUSE_SRC = """
def helper(plan, probes, probe, fn):
    return (probes.append(probe()), plan.call(fn))[1]

def mid(plan, probes, probe, fn):
    return helper(plan, probes, probe, fn)

def build(plan, probes, probe, fn, n):
    a = mid(plan, probes, probe, fn)
    b = mid(plan, probes, probe, fn)
    c = helper(plan, probes, probe, fn)
    return [a, b, c][n]

def build_loop(plan, probes, probe, fn, n):
    out = []
    for _ in range(3):
        out.append(helper(plan, probes, probe, fn))
    out.append(mid(plan, probes, probe, fn))
    return out[n]
"""


def reuse_cases(ctx=None, replay=None):
    """The SAME helper functions invoked several times, from different lines and depths, within one process (frames of
    finished invocations are freed and their addresses reused): every created call keeps the chain of ITS OWN creation."""
    max_depth = tbmod.MAX_TRACEBACK_DEPTH
    ns = {}
    exec(compile(_REUSE_SRC, "/virtual/c19/reuse_mod.py", "exec"), ns)
    viol = []
    cases = [tuple(replay["reuse_case"])] if replay else [(b, n) for b in ("build", "build_loop") for n in range(3 if b == "build" else 4)]
    for builder, n in cases:
        plan, probes = Plan(), []

        def boom():
            raise ValueError("boom")
        node = ns[builder](plan, probes, probe, boom, n)
        try:
            uberjob.run(plan, output=node, progress=None)
            err = None
        except uberjob.CallError as e:
            err = e
        if err is None:
            viol.append({"property": "C19", "what": "the failing call did not make run raise CallError", "reuse_case": [builder, n]})
            continue
        user = [f for f in probes[n] if not f[1].startswith(UBERJOB_DIR)]
        want = expected_chain(user, max_depth)
        got = chain_list(err.call.stack_frame)
        if got != want:
            viol.append({"property": "C19", "what": f"call #{n} created through helpers that were invoked several times ({builder}): symbolic "
                         f"traceback is {got[:4]}, its creation stack was {want[:4]}", "reuse_case": [builder, n], "replay_fn": "reuse"})
            break
    return viol


def explore(ctx):
    max_depth = tbmod.MAX_TRACEBACK_DEPTH
    violations, disagreements, reqs = [], [], []
    violations += reuse_cases(ctx)
    classes = set()
    cases = _cases(ctx)
    for case in cases:
        obs = run_case(case)
        w = judge(case, obs, max_depth)
        d = len(obs["user"])
        classes.add((case["scenario"], "shallower" if d < max_depth + 1 else "equal" if d == max_depth + 1 else "deeper"))
        if w:
            v = {"property": "C19", "what": f"{case['scenario']} at depth {case['depth']}: {w}", "case": case}
            if isinstance(obs["err"], AttributeError) and "Literal" in str(obs["err"]):
                v.update(node_kind="Literal", failing_op="get_modified_time", exception="AttributeError")
            violations.append(v)
            if len(violations) >= 3:
                break
            continue
        for layer, line, impl, want in model_lines(case, obs):
            if line is None:
                disagreements.append({"layer": "traceback-" + layer, "case": case, "impl": impl, "model": want})
            else:
                reqs.append((layer, line, impl, {"case": case}))
    rng = random.Random(ctx.seed * 104729 + 5)
    quick = ctx.tier == "quick"
    reqs += diff_capture(rng, 120 if quick else 3000)
    reqs += diff_render(rng, 300 if quick else 20000)
    reqs += diff_calls(rng, 150 if quick else 4000)
    n_model = 0
    if ctx.driver is not None and not violations:
        replies = ctx.driver.batch([r[1] for r in reqs])
        n_model = len(replies)
        for (layer, line, impl, info), model in zip(reqs, replies):
            a, b = impl.strip(), model.strip()
            if layer == "calls":
                a, b = _sorted_kinds(a), _sorted_kinds(b)
            if a != b:
                disagreements.append({"layer": "traceback-" + layer, "request": line, "impl": impl, "model": model, **info})
                if len(disagreements) >= 3:
                    break
    truncated = sum(1 for c, k in classes if k == "deeper")
    cov = {"evaluations": len(cases) + len(reqs), "programs": len(cases), "model_requests": n_model,
           "distinct_nontrivial": len(classes), "scenario_kinds": len(SCENARIOS), "deeper_than_limit_classes": truncated,
           "rule": "every kind of symbolic call x thread stack depth 1..8 (+ IPython frames, + main-thread stacks), each failing in its phase; "
                   "get_stack_frame(k) for k in 0..depth+2; random chains for render; random structured arguments for the created calls",
           "samples": [cases[0], cases[len(cases) // 2]]}
    want_classes = (3 if max_depth >= 1 else 2) * len(SCENARIOS)      # no stack is shallower than a limit of one frame
    if not violations and len(classes) < want_classes:
        disagreements.append({"layer": "generator-floor", "classes": len(classes), "wanted": want_classes})
    return {"violations": violations, "disagreements": disagreements, "coverage": cov}


def search(ctx, broken):
    """A proof or the correspondence broke: run the monitors alone on a larger, differently seeded sample."""
    class C:
        pass
    found = []
    for k in range(1, 4):
        c = C()
        c.__dict__.update(ctx.__dict__)
        c.seed, c.driver = ctx.seed + 1000 * k, None
        found += explore(c)["violations"]
        if found:
            break
    return found


def replay(ctx, payload):
    w = payload.get("witness", payload)
    if w.get("replay_fn") == "reuse":
        v = reuse_cases(replay=w)
        return v[0]["what"] if v else None
    if w.get("known") == "F5" or "case" not in w:
        return _f5_witness()
    case = w["case"]
    obs = run_case(case)
    return judge(case, obs, tbmod.MAX_TRACEBACK_DEPTH)


def _f5_witness():
    """registry.add(plan.lit(…), store) with a store whose get_modified_time raises."""
    plan, reg = Plan(), Registry()
    lit = plan.lit(1)
    reg.add(lit, Store(fail={"mtime"}))
    try:
        uberjob.run(plan, registry=reg, output=lit, progress=None, max_workers=1)
    except CallError:
        return None
    except AttributeError as e:
        return f"run raised AttributeError ({e}) instead of a CallError naming the registry.add line"
    except BaseException as e:      # noqa: BLE001
        return f"run raised {type(e).__name__}: {e}"
    return "run did not fail although get_modified_time raised"


def probe_known(ctx, k):
    if k.get("id") == "F5":
        w = _f5_witness()
        return "present" if w and "AttributeError" in w else "absent"
    return "absent"


def matches_known(k, v):
    kw = k.get("witness", {})
    return bool(kw) and all(v.get(key) == val for key, val in kw.items())
