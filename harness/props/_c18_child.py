"""Child process of the C18 exploration.  Started by harness/props/c18.py with TZ=<zone> in the environment, so
that CPython's naive-local conversions (`fromtimestamp`, `astimezone` on a naive value) use that zone.

Line protocol on stdin/stdout (one JSON document per line):

  {"op": "scan", "lo": s, "hi": s, "step": s}      -> {"tz": ..., "base": off_s, "trs": [[instant_s, off_s], ...]}
        the offset table of the process's local zone as the C library reports it (`time.localtime(u).tm_gmtoff`)
  {"op": "cases", "cases": [case, ...]}            -> {"results": [result, ...]}
  {"op": "limits"}                                 -> {"notes": {...}}   informational platform probes

A *time spec* is null (None) or {"i": <instant, µs since the epoch>, "rep": [...]}, rep being
  ["nl"]            naive local, as a file store reports it: datetime.fromtimestamp
  ["mts", rep] / ["lits", rep]   the datetime `rep` as ModifiedTimeSource / LiteralSource report it from get_modified_time
  ["file"]          what a REAL bundled file store's get_modified_time returns for a file whose mtime is that instant
  ["nlflip"]        the same with the fold bit flipped (the parent only asks for it where the wall reading is unambiguous)
  ["au"]            aware, UTC
  ["ao", seconds]   aware, fixed offset
  ["az", key]       aware, zoneinfo zone `key`
or {"raw": [wall_µs, fold]}: a naive value given directly (used for wall readings inside a spring-forward gap).

A *case* is {"fresh": spec, "nodes": [{"preds": [k, ...], "kind": "u"|"s"|"n", "t": spec}, ...]}: node k is a source
(`registry.source`), a call with a registered store ("n") or a call without one ("u"); "t" is what the store's
`get_modified_time` returns.  The result reports the datetimes in model terms (["N", wall, fold] / ["A", wall, off]),
what `_to_naive_utc_time` made of each, the stale flags `_get_stale_nodes` computed, and the stores a real
`uberjob.run` wrote.
"""
import datetime as dt
import json
import os
import sys
import time

US = dt.timedelta(microseconds=1)
EPOCH_N = dt.datetime(1970, 1, 1)
EPOCH_A = dt.datetime(1970, 1, 1, tzinfo=dt.timezone.utc)


_TMP = None


def off_at(sec):
    return time.localtime(sec).tm_gmtoff


def scan(lo, hi, step):
    base = prev = off_at(lo)
    trs = []
    u = lo
    while u < hi:
        v = min(u + step, hi)
        if off_at(v) != prev:
            a, b = u, v
            while b - a > 1:
                m = (a + b) // 2
                if off_at(m) == prev:
                    a = m
                else:
                    b = m
            prev = off_at(b)
            trs.append([b, prev])
            v = b
        u = v
    return base, trs


def build(spec):
    if spec is None:
        return None
    if "raw" in spec:
        wall, fold = spec["raw"]
        return (EPOCH_N + wall * US).replace(fold=fold)
    i, rep = spec["i"], spec["rep"]
    if rep[0] in ("mts", "lits"):
        # the datetime as a bundled SOURCE store hands it on (it must be handed on unchanged, aware or naive)
        from uberjob.stores import LiteralSource, ModifiedTimeSource
        inner = build({"i": i, "rep": rep[1]})
        st = ModifiedTimeSource(inner) if rep[0] == "mts" else LiteralSource("value", inner)
        return st.get_modified_time()
    if rep[0] == "file":
        # what a BUNDLED file store reports for a file last modified at that instant (a whole number of seconds)
        import tempfile
        from uberjob.stores import BinaryFileStore
        global _TMP
        if _TMP is None:
            import atexit
            import shutil
            _TMP = tempfile.mkdtemp(prefix="verif-c18-")
            atexit.register(shutil.rmtree, _TMP, True)
        path = os.path.join(_TMP, "f%d" % len(os.listdir(_TMP)))
        with open(path, "wb") as fh:
            fh.write(b"x")
        os.utime(path, ns=(i * 1000, i * 1000))
        return BinaryFileStore(path).get_modified_time()
    if rep[0] in ("nl", "nlflip"):
        d = dt.datetime.fromtimestamp(i // 10**6).replace(microsecond=i % 10**6)
        if rep[0] == "nlflip":
            d = d.replace(fold=1 - d.fold)
        return d
    a = EPOCH_A + i * US
    if rep[0] == "au":
        return a
    if rep[0] == "ao":
        return a.astimezone(dt.timezone(dt.timedelta(seconds=rep[1])))
    if rep[0] == "az":
        import zoneinfo
        return a.astimezone(zoneinfo.ZoneInfo(rep[1]))
    raise ValueError(rep)


def describe(d):
    if d is None:
        return None
    wall = (d.replace(tzinfo=None) - EPOCH_N) // US
    if d.tzinfo is None:
        return ["N", wall, d.fold]
    return ["A", wall, d.utcoffset() // US]


def naive_us(d):
    return None if d is None else (d - EPOCH_N) // US


def exc_name(e):
    c = e.__cause__
    return type(e).__name__ + ("<-" + type(c).__name__ if c is not None else "")


class _FrozenMeta(type(dt.datetime)):
    def __instancecheck__(cls, obj):
        return isinstance(obj, dt.datetime)


def frozen_dt(clock_us):
    """a stand-in for the `datetime` MODULE as uberjob's modules see it, whose datetime.now() / utcnow() / today() say that it
    is `clock_us` (an instant) - in the zone of this process, as the real ones do"""
    import types
    secs = clock_us / 1e6

    class Frozen(dt.datetime, metaclass=_FrozenMeta):
        @classmethod
        def now(cls, tz=None):
            return dt.datetime.fromtimestamp(secs, tz)

        @classmethod
        def utcnow(cls):
            return dt.datetime.fromtimestamp(secs, dt.timezone.utc).replace(tzinfo=None)

        @classmethod
        def today(cls):
            return dt.datetime.fromtimestamp(secs)

    ns = types.SimpleNamespace(**{k: getattr(dt, k) for k in dir(dt) if not k.startswith("__")})
    ns.datetime = Frozen
    return ns


def run_case(case):
    import uberjob
    from uberjob import Plan, Registry, ValueStore
    from uberjob._transformations import caching
    from uberjob.progress._null_progress_observer import NullProgressObserver
    import uberjob._run as runmod
    patched = []
    if case.get("clock") is not None:
        shim = frozen_dt(case["clock"])
        for mod in (caching, runmod):
            if getattr(mod, "dt", None) is dt:
                patched.append(mod)
                mod.dt = shim
    try:
        return _run_case(case, uberjob, Plan, Registry, ValueStore, caching, NullProgressObserver)
    finally:
        for mod in patched:
            mod.dt = dt


def _run_case(case, uberjob, Plan, Registry, ValueStore, caching, NullProgressObserver):

    class Store(ValueStore):
        def __init__(self, k, mt, log):
            self.k, self.mt, self.log = k, mt, log

        def read(self):
            self.log.append(("r", self.k))
            return 0

        def write(self, value):
            self.log.append(("w", self.k))

        def get_modified_time(self):
            self.log.append(("m", self.k))
            return self.mt

    def fn(*args):
        return 0

    fresh = build(case["fresh"])
    times = [build(n["t"]) if n["kind"] != "u" else None for n in case["nodes"]]
    res = {"fresh": describe(fresh), "times": [describe(t) for t in times]}
    try:
        res["conv"] = [naive_us(caching._to_naive_utc_time(fresh))] + [naive_us(caching._to_naive_utc_time(t)) for t in times]
    except Exception as e:
        res["conv"] = "exc:" + exc_name(e)

    def make():
        log = []
        plan, registry = Plan(), Registry()
        nodes = []
        for k, n in enumerate(case["nodes"]):
            if n["kind"] == "s":
                node = registry.source(plan, Store(k, times[k], log))
            else:
                node = plan.call(fn, *[nodes[p] for p in n["preds"]])
                if n["kind"] == "n":
                    registry.add(node, Store(k, times[k], log))
            nodes.append(node)
        return plan, registry, nodes, log

    # observation 1: the stale set itself
    plan, registry, nodes, log = make()
    try:
        stale = caching._get_stale_nodes(plan, registry, retry=lambda f: f, max_workers=1, fresh_time=fresh,
                                         progress_observer=NullProgressObserver())
        res["stale"] = [1 if n in stale else 0 for n in nodes]
    except Exception as e:
        res["stale"] = "exc:" + exc_name(e)
    # observation 2: a real run through the public entry point, with recording stores
    plan, registry, nodes, log = make()
    try:
        uberjob.run(plan, output=nodes[-1], registry=registry, fresh_time=fresh, progress=None, max_workers=1)
        res["written"] = sorted({k for op, k in log if op == "w"})
        res["queried"] = sorted(k for op, k in log if op == "m")
    except Exception as e:
        res["written"] = "exc:" + exc_name(e)
    return res


def limits():
    """Informational: what the conversion does at the edges of CPython's range and inside a gap."""
    from uberjob._transformations import caching
    notes = {}
    for name, d in (("datetime.min", dt.datetime.min), ("datetime.max", dt.datetime.max),
                    ("1970-01-01", dt.datetime(1970, 1, 1)), ("0001-01-03", dt.datetime(1, 1, 3)),
                    ("9999-12-29", dt.datetime(9999, 12, 29))):
        try:
            notes[name] = str(caching._to_naive_utc_time(d))
        except Exception as e:
            notes[name] = "raises " + type(e).__name__ + ": " + str(e)
    return notes


def main():
    import uberjob
    if not os.path.abspath(uberjob.__file__).startswith(os.environ.get("PYTHONPATH", "/repo/src").split(os.pathsep)[0]):
        print(json.dumps({"error": "uberjob imported from " + uberjob.__file__}), flush=True)
        return
    for line in sys.stdin:
        line = line.strip()
        if not line:
            continue
        req = json.loads(line)
        try:
            if req["op"] == "scan":
                base, trs = scan(req["lo"], req["hi"], req["step"])
                out = {"tz": os.environ.get("TZ"), "tzname": list(time.tzname), "base": base, "trs": trs}
            elif req["op"] == "cases":
                out = {"results": [run_case(c) for c in req["cases"]]}
            elif req["op"] == "limits":
                out = {"notes": limits()}
            else:
                out = {"error": "bad op"}
        except Exception as e:  # infrastructure, reported as such by the parent
            import traceback
            out = {"error": traceback.format_exc()[-1500:]}
        print(json.dumps(out), flush=True)


if __name__ == "__main__":
    main()
