"""C16 — intermediate results are released as soon as their last consumer has finished.

T2: the results of all calls are instances of a weakref-able class.  Inside `run_physical` the function handed to
the engine is wrapped (harness-side, module attribute of run_physical) so that at EVERY call start and call end the
harness runs `gc.collect()` and takes the census of live result objects through weakrefs.  The census must EQUAL
(as a set) the live set the Lean `Refs` model computes for the executed prefix; the emptied lookup entries
(`bound_call_lookup[node].value is None`) must equal the model's dropped set; the argument/result slots of the real
BoundCall objects must be the ones the model's edges say.  Runs: the real engine with one worker, and the real engine
under the cooperative scheduler (harness/coop.py) with 2–4 workers; both schedulers; outputs None / a node / nested
structures; with and without a registry of non-retaining stores.

Excluded on purpose (outside the model, see Props/C16.lean): failing runs (the exception's traceback holds frames,
frames hold arguments), call functions or stores that keep their arguments, progress observers.
"""
from __future__ import annotations

import gc
import random
import threading
import weakref

import uberjob
import uberjob._execution.run_physical as rp
from uberjob import _builtins
from uberjob.graph import Call, KeywordArg, Literal, PositionalArg

from harness import coop, plans

GEN = ["Refs"]
ASSUMPTIONS = [
    "CPython reference counting + gc.collect() free an object as soon as nothing references it (weakref census)",
    "call functions and stores used for the census keep no reference to their arguments or results",
    "only successful runs are compared (a raised exception's traceback pins frames and their arguments)",
]
TRUSTED_EXTRA = ["C16 is claimed as proof, PARTIAL: references held by CPython frames, tracebacks, progress observers and "
                 "user code are outside the Refs model"]

GATHER = {_builtins.gather_list, _builtins.gather_tuple, _builtins.gather_set, _builtins.gather_dict}


class Res:
    """A result object: weakref-able, hashable, references nothing."""
    __slots__ = ("vid", "__weakref__")

    def __init__(self, vid):
        self.vid = vid


class DropStore(uberjob.ValueStore):
    """A store that keeps nothing: write() forgets the value, read() makes a fresh result, always stale."""

    def __init__(self, k, refs):
        self.k = k
        self.refs = refs

    def read(self):
        r = Res("rd%d" % self.k)
        self.refs[r.vid] = weakref.ref(r)
        return r

    def write(self, value):
        plans._yield()

    def get_modified_time(self):
        return None


# ------------------------------------------------------------------------------------------------ generation
def _wrap_ref(rng, ref, pool):
    r = rng.random()
    other = {"n": rng.choice(pool)} if pool and rng.random() < 0.6 else {"v": rng.randrange(50)}
    if r < 0.25:
        return {"list": [ref, other]}
    if r < 0.45:
        return {"tuple": [other, ref]}
    if r < 0.6:
        return {"dict": [[{"v": "k"}, ref], [{"v": "o"}, other]]}
    if r < 0.7:
        return {"set": [ref]}
    if r < 0.8:
        return {"list": [{"tuple": [ref, other]}, {"v": 1}]}
    return ref


def gen_case(rng, tier):
    nmax = 8 if tier == "quick" else 13
    spec = plans.gen_spec(rng, nmax=nmax, p_lit=0.15, p_dep=0.2)
    ids = [nd["id"] for nd in spec["nodes"]]
    for nd in spec["nodes"]:
        if nd["kind"] == "call" and rng.random() < 0.3:
            pool = [i for i in ids if i < nd["id"]]
            nd["args"] = [_wrap_ref(rng, r, pool) if "n" in r else r for r in nd["args"]]
    calls = [nd["id"] for nd in spec["nodes"] if nd["kind"] == "call"]
    r = rng.random()
    if r < 0.15:
        out = None
    elif r < 0.5:
        out = {"n": rng.choice(ids)}
    else:
        picks = rng.sample(ids, min(len(ids), rng.choice([1, 2, 2, 3])))
        out = {"list": [{"n": picks[0]}]}
        if len(picks) > 1:
            out["list"].append({"dict": [[{"v": "a"}, {"n": picks[1]}]]})
        if len(picks) > 2:
            out["list"].append({"tuple": [{"n": picks[2]}, {"v": 7}, {"n": picks[0]}]})
    reg = sorted(rng.sample(calls, rng.randint(0, len(calls)))) if rng.random() < (0.9 if out is None else 0.3) else []
    mode = rng.choice(["real1", "coop", "coop", "coop"])
    return {"spec": spec, "output": out, "registered": reg,
            "workers": 1 if mode == "real1" else rng.choice([1, 2, 3, 4]), "mode": mode,
            "scheduler": rng.choice(["default", "random"])}


def build(case, refs, rec):
    spec = case["spec"]
    plan = uberjob.Plan()
    N = {}

    def val(ref):
        if ref is None:
            return None
        if "n" in ref:
            return N[ref["n"]]
        if "v" in ref:
            return ref["v"]
        if "list" in ref:
            return [val(r) for r in ref["list"]]
        if "tuple" in ref:
            return tuple(val(r) for r in ref["tuple"])
        if "set" in ref:
            return {val(r) for r in ref["set"]}
        if "dict" in ref:
            return {val(k): val(v) for k, v in ref["dict"]}
        raise ValueError(ref)

    def make_fn(i):
        def fn(*args, **kwargs):
            rec.add("start", i)
            plans._yield()
            r = Res("c%d" % i)
            refs[r.vid] = weakref.ref(r)
            return r
        fn.__name__ = fn.__qualname__ = "f%d" % i
        fn._vid = "c%d" % i
        return fn

    for nd in spec["nodes"]:
        i = nd["id"]
        with plan.scope(*nd.get("scope", [])):
            if nd["kind"] == "lit":
                N[i] = plan.lit(("lit", i))
            else:
                N[i] = plan.call(make_fn(i), *[val(r) for r in nd["args"]], **{k: val(r) for k, r in nd["kwargs"]})
    for a, b in spec["deps"]:
        plan.add_dependency(N[a], N[b])
    registry = None
    if case["registered"]:
        registry = uberjob.Registry()
        for i in case["registered"]:
            registry.add(N[i], DropStore(i, refs))
    return plan, registry, val(case["output"])


# ------------------------------------------------------------------------------------------------ observation
class Observer:
    """Wraps the function `run_physical` hands to the engine; takes a census at every call start and end."""

    def __init__(self, refs):
        self.refs = refs
        self.lock = threading.Lock()
        self.log = []          # (kind, k, ended(list), census(sorted vids), emptied entries(sorted idx))
        self.model = None
        self.struct_errors = []

    def census(self):
        gc.collect()
        return sorted(v for v, r in self.refs.items() if r() is not None)

    def describe(self, graph, process):
        nodes = list(graph.nodes())
        idx = {n: k for k, n in enumerate(nodes)}
        cl = dict(zip(process.__code__.co_freevars, process.__closure__ or ()))
        lookup = cl["bound_call_lookup"].cell_contents
        kinds, args, vid = {}, {}, {}
        slot_id = {}
        bc = None
        for n in nodes:
            k = idx[n]
            if type(n) is Literal:
                kinds[k] = "L"
                continue
            bc = lookup[n].value
            slot_id[k] = id(bc.result)
            a = [idx[p] for p, _, key in graph.in_edges(n, keys=True) if type(key) in (PositionalArg, KeywordArg)]
            if a:
                args[k] = a
            v = getattr(n.fn, "_vid", None)
            if v is not None:
                kinds[k], vid[k] = "U", v
            elif n.fn in GATHER:
                kinds[k] = "G"
            elif n.fn is DropStore.read:
                kinds[k], vid[k] = "U", "rd%d" % bc.args[0].value.k
            else:
                kinds[k] = "N"      # a call whose value is not tracked (DropStore.write returns None)
        # the real BoundCall objects reference exactly the slots the model's edges say (+ Literal nodes themselves)
        for n in nodes:
            if type(n) is not Call:
                continue
            k = idx[n]
            bc = lookup[n].value
            real = sorted(id(x) for x in list(bc.args) + list(bc.kwargs.values()) if type(x) is not Literal)
            want = sorted(slot_id[a] for a in args.get(k, []) if kinds[a] != "L")
            if real != want:
                self.struct_errors.append(f"BoundCall of node {k} references slots {real}, model edges say {want}")
            if any(type(x) is not Literal and type(x).__name__ != "Slot" for x in list(bc.args) + list(bc.kwargs.values())):
                self.struct_errors.append(f"BoundCall of node {k} holds something that is neither a Slot nor a Literal")
        if set(lookup) != {n for n in nodes if type(n) is Call}:
            self.struct_errors.append("bound_call_lookup keys are not exactly the Call nodes")
        del bc
        self.model = {"nodes": nodes, "idx": idx, "kinds": kinds, "args": args, "vid": vid, "lookup": lookup}
        return idx

    def wrap(self, inner):
        def rfog(graph, fn, **kw):
            if self.model is not None:       # only the run engine of run_physical is observed, once
                return inner(graph, fn, **kw)
            idx = self.describe(graph, fn)
            self.ended = []

            def fn2(node):
                if type(node) is Call:
                    self.hook("start", idx[node])
                    fn(node)
                    self.ended.append(idx[node])
                    self.hook("end", idx[node])
                else:
                    fn(node)

            return inner(graph, fn2, **kw)
        return rfog

    def hook(self, kind, k):
        with self.lock:
            m = self.model
            emptied = sorted(m["idx"][n] for n, s in m["lookup"].items() if s.value is None)
            self.log.append((kind, k, list(self.ended), self.census(), emptied))


def run_case(case, seed):
    refs, rec = {}, plans.Rec()
    plan, registry, output = build(case, refs, rec)
    obs = Observer(refs)
    holder = {}     # the output node run_physical is given (captured from its call of prep_run_physical)

    def thunk():
        cur = rp.run_function_on_graph
        rp.run_function_on_graph = obs.wrap(cur)
        orig_prep = rp.prep_run_physical

        def prep(plan_, **kw):
            holder["output_node"] = kw.get("output_node")
            return orig_prep(plan_, **kw)

        rp.prep_run_physical = prep
        try:
            return uberjob.run(plan, output=output, registry=registry, max_workers=case["workers"],
                               scheduler=case["scheduler"], progress=None)
        finally:
            rp.run_function_on_graph = cur
            rp.prep_run_physical = orig_prep

    class R:
        pass

    if case["mode"] == "real1":
        r = R()
        r.exc, r.deadlock, r.hang = None, False, False
        state = random.getstate()
        random.seed(seed)           # the 'random' scheduler draws from the global generator
        try:
            r.value = thunk()
        except Exception as e:      # noqa: BLE001 - reported by the caller
            r.value, r.exc = None, e
        finally:
            random.setstate(state)
    else:
        r = coop.run_controlled(thunk, seed, mode="prim", snapshots=False)
    r.obs, r.refs, r.holder = obs, refs, holder
    return r


def contained(value, acc):
    if isinstance(value, Res):
        acc.add(value.vid)
    elif isinstance(value, dict):
        for k, v in value.items():
            contained(k, acc)
            contained(v, acc)
    elif isinstance(value, (list, tuple, set, frozenset)):
        for v in value:
            contained(v, acc)
    return acc


# ------------------------------------------------------------------------------------------------ judging
def model_line(m, out_idx, ended):
    kinds = " ".join("%d:%s" % (k, "U" if v == "N" else v) for k, v in sorted(m["kinds"].items()))
    args = " ".join("%d:%s" % (k, ",".join(map(str, a))) for k, a in sorted(m["args"].items()))
    e = " ".join(map(str, ended))
    return "c16 | %s | %s | %s | %s | %s | 0" % (kinds, args, "-" if out_idx is None else out_idx, e, e)


def oracle_live(m, out_idx, ended):
    """Direct statement of the property (not the model): a tracked result may be alive only if it exists and
    (it is the output, or it or one of its argument-consumers has not finished, or a live container holds it)."""
    ended = set(ended)
    consumers = {}
    for j, a in m["args"].items():
        for x in a:
            consumers.setdefault(x, set()).add(j)
    base = {i for i in ended if m["kinds"][i] != "L"
            and (i == out_idx or any(j not in ended for j in consumers.get(i, ())))}
    live = set(base)
    changed = True
    while changed:
        changed = False
        for j in list(live):
            if m["kinds"][j] == "G":
                for a in m["args"].get(j, []):
                    if a in ended and m["kinds"][a] != "L" and a not in live:
                        live.add(a)
                        changed = True
    return live


def judge(case, r, driver):
    """-> (violations [str], disagreements [str], stats)"""
    viol, dis = [], []
    obs = r.obs
    st = {"censuses": 0, "released_early_checks": 0, "max_live": 0, "released_before_end": 0}
    if r.exc is not None or r.deadlock or r.hang:
        dis.append(f"run did not succeed: exc={r.exc!r} deadlock={r.deadlock} hang={r.hang}")
        return viol, dis, st
    m = obs.model
    final_live = sorted(contained(r.value, set()))
    if m is None:
        # nothing reached run_physical's engine?  then nothing may have been created
        if any(ref() is not None for ref in r.refs.values()) and not final_live:
            viol.append("results alive although run_physical was never entered")
        return viol, dis, st
    for e in obs.struct_errors:
        dis.append(e)
    on = r.holder.get("output_node")
    out_idx = m["idx"].get(on) if on is not None else None
    tracked = m["vid"]
    lines, recs = [], []
    for kind, k, ended, census, emptied in obs.log:
        st["censuses"] += 1
        st["max_live"] = max(st["max_live"], len(census))
        want = oracle_live(m, out_idx, ended)
        want_v = sorted(tracked[i] for i in want if i in tracked)
        extra = sorted(set(census) - set(want_v))
        if extra:
            viol.append(f"at {kind} of node {k} (finished {ended}): results {extra} are still alive although they and all "
                        f"their consumers have finished and they are not part of the output")
        if sorted(emptied) != sorted(set(ended)):
            dis.append(f"at {kind} of node {k}: emptied lookup entries {emptied} != finished calls {sorted(set(ended))}")
        done_tracked = [i for i in ended if i in tracked]
        st["released_before_end"] += sum(1 for i in done_tracked if tracked[i] not in census)
        lines.append(model_line(m, out_idx, ended))
        recs.append((kind, k, ended, census))
    # after the run: exactly what the returned value contains is alive; after dropping it, nothing is
    # (first let go of the harness's own handles on uberjob's lookup: the observer's and the scheduler's traces)
    m.pop("lookup", None)
    r.traces = r.sched = None
    after = obs.census()
    if after != final_live:
        (viol if set(after) - set(final_live) else dis).append(
            f"after run returned: alive {after}, contained in the returned value {final_live}")
    r.value = None
    gone = obs.census()
    if gone:
        viol.append(f"after the returned value was dropped, results {gone} are still alive (retained by uberjob)")
    pend = None
    if lines:
        lines.append(model_line(m, out_idx, [i for i in range(len(m["nodes"])) if m["kinds"][i] != "L"]))
        pend = (lines, recs, dict(tracked), final_live)
    st["pending"] = pend
    return viol, dis, st


def batch(driver, lines):
    """One driver call; tolerates the executable being replaced by a concurrent `lake build` of another builder."""
    import time
    for attempt in range(40):
        try:
            return driver.batch(lines)
        except (FileNotFoundError, PermissionError, OSError):
            time.sleep(1.5)
    return driver.batch(lines)


def judge_model(pend, replies):
    """Compare the censuses of one run with the model's replies -> [disagreement strings]."""
    lines, recs, tracked, final_live = pend
    dis = []
    for (kind, k, ended, census), reply in zip(recs, replies):
        if not reply.startswith("slots "):
            return [f"driver: {reply}"]
        vals = [int(t) for t in reply.split(";")[1].split()[1:]]
        model_v = sorted(tracked[i] for i in vals if i in tracked)
        if model_v != census:
            return [f"at {kind} of node {k} (finished {ended}): census {census} != model live set {model_v}"]
    last = replies[-1]
    if not last.startswith("slots "):
        return [f"driver: {last}"]
    vals = [int(t) for t in last.split(";")[1].split()[1:]]
    model_v = sorted(tracked[i] for i in vals if i in tracked)
    # calls the run never executed (pruned) are not in the graph at all, so "all finished" is the final state
    if model_v != final_live:
        dis.append(f"final: returned value contains {final_live}, model final live set {model_v}")
    return dis


def flush(driver, queue, dis):
    if driver is None or not queue:
        queue.clear()
        return 0
    lines = [ln for pend, _, _ in queue for ln in pend[0]]
    rep = batch(driver, lines)
    pos = 0
    for pend, case, seed in queue:
        n = len(pend[0])
        for what in judge_model(pend, rep[pos:pos + n]):
            dis.append({"layer": "refs(run_physical)", "what": what, "case": case, "seed": seed})
        pos += n
    queue.clear()
    return len(lines)


def explore(ctx):
    rng = random.Random(ctx.seed * 7919 + 16)
    n = 300 if ctx.tier == "quick" else 6000
    viol, dis = [], []
    cov = {"programs": 0, "censuses": 0, "coop_runs": 0, "real_single_worker_runs": 0, "with_registry": 0,
           "output_none": 0, "output_structure": 0, "max_live_at_once": 0, "released_before_end_observations": 0,
           "calls_observed": 0, "rule": "weakref census after gc.collect() at every call start/end == Lean Refs live set "
           "(driver c16); emptied lookup entries == finished calls; BoundCall slots == model edges",
           "samples": []}
    distinct = set()
    queue = []
    cov["model_evaluations"] = 0
    gc.collect()
    gc.freeze()
    try:
        for _ in range(n):
            case = gen_case(rng, ctx.tier)
            seed = rng.randrange(1 << 30)
            r = run_case(case, seed)
            v, d, st = judge(case, r, ctx.driver)
            cov["programs"] += 1
            cov["censuses"] += st["censuses"]
            cov["coop_runs"] += case["mode"] == "coop"
            cov["real_single_worker_runs"] += case["mode"] == "real1"
            cov["with_registry"] += bool(case["registered"])
            cov["output_none"] += case["output"] is None
            cov["output_structure"] += bool(case["output"]) and "n" not in case["output"]
            cov["max_live_at_once"] = max(cov["max_live_at_once"], st["max_live"])
            cov["released_before_end_observations"] += st["released_before_end"]
            cov["calls_observed"] += st["censuses"] // 2
            distinct.add(tuple((k, kk, tuple(c)) for k, kk, _, c, _ in r.obs.log))
            if len(cov["samples"]) < 2 and st["censuses"] >= 6:
                cov["samples"].append({"case": case, "seed": seed})
            for what in v:
                viol.append({"property": "C16", "what": what, "case": case, "seed": seed})
            for what in d:
                dis.append({"layer": "refs(run_physical)", "what": what, "case": case, "seed": seed})
            if st.get("pending"):
                queue.append((st["pending"], case, seed))
            if len(queue) >= 150:
                cov["model_evaluations"] += flush(ctx.driver, queue, dis)
            if len(viol) >= 3 or len(dis) >= 3:
                break
        cov["model_evaluations"] += flush(ctx.driver, queue, dis)
    finally:
        gc.unfreeze()
    cov["distinct_nontrivial"] = len([x for x in distinct if len(x) >= 4])
    if not viol and not dis:
        floor = 100 if ctx.tier == "quick" else 2000
        if cov["released_before_end_observations"] < floor or cov["distinct_nontrivial"] < floor // 2:
            from harness.common import Broken
            raise Broken("correspondence", "c16-generator",
                         f"too few informative runs: {cov['released_before_end_observations']} release observations, "
                         f"{cov['distinct_nontrivial']} distinct logs")
    return {"violations": viol[:3], "disagreements": dis[:3], "coverage": cov}


def search(ctx, broken):
    class C:
        pass
    found = []
    for k in range(1, 4):
        c = C()
        c.__dict__.update(ctx.__dict__)
        c.seed, c.driver = ctx.seed + 1000 * k, None
        try:
            found += explore(c)["violations"]
        except Exception:   # noqa: BLE001
            pass
        if found:
            break
    return found


def replay(ctx, payload):
    w = payload.get("witness", payload)
    gc.collect()
    r = run_case(w["case"], w["seed"])
    v, d, st = judge(w["case"], r, None)
    if not v and ctx.driver is not None and st.get("pending") and w.get("layer"):
        d += judge_model(st["pending"], batch(ctx.driver, st["pending"][0]))
    return v[0] if v else (d[0] if d and w.get("layer") else None)
