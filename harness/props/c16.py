"""C16 — intermediate results are released as soon as their last consumer has finished.

T2: the results of all calls are instances of a weakref-able class.  Inside `run_physical` the function handed to
the engine is wrapped (harness-side, module attribute of run_physical) so that at EVERY call start and call end the
harness runs `gc.collect()` and takes the census of live result objects through weakrefs.  The census must EQUAL
(as a set) the live set the Lean `Refs` model computes for the executed prefix; the emptied lookup entries
(`bound_call_lookup[node].value is None`) must equal the model's dropped set; the argument/result slots of the real
BoundCall objects must be the ones the model's edges say.  Runs: the real engine with one worker, and the real engine
under the cooperative scheduler (harness/coop.py) with 2–4 workers; both schedulers; outputs None / a node / nested
structures; with and without a registry of non-retaining stores.

Runs in which calls RAISE are included (max_errors None / 0 / 1 / 3): a consumer that raised has finished, so its
arguments must be released at once (the drop sits in a `finally`); the harness clears the traceback of the user's
exception when the failing call has left `process`, because frames reachable from a traceback (BoundCall.run's frame
holds the argument values) are outside the model and the engine keeps the first error of a run until the end.

"As soon as" is taken literally in a third of the runs: the cyclic collector is disabled for the whole run and the census
collects nothing, so a result pinned only by an (unreachable) reference cycle - e.g. exception -> traceback -> frame ->
exception in a retry wrapper - shows as alive; those runs use an integer retry and calls whose first attempts raise and a
later one succeeds (a successful run).  The referrer paths of the pinned object are recorded for the report.

Excluded on purpose (outside the model, see Props/C16.lean): what tracebacks / frames of ordinary failing functions
pin, call functions or stores that keep their arguments, progress observers, retry wrappers on failing calls.
"""
from __future__ import annotations

import gc
import random
import threading
import weakref

import uberjob
import uberjob._execution.run_physical as rp
from uberjob import _builtins
from uberjob.graph import Call, KeywordArg, Literal, PositionalArg

from harness import coop, plans

GEN = ["Refs"]
ASSUMPTIONS = [
    "CPython reference counting + gc.collect() free an object as soon as nothing references it (weakref census)",
    "call functions and stores used for the census keep no reference to their arguments or results",
    "when a call raises, the harness clears the traceback of the user's exception as soon as it has left `process`: the "
    "traceback references the user function's frame whose f_back chain keeps BoundCall.run's frame (and so the argument "
    "values) alive while the exception lives - the engine keeps the FIRST error of a run until the run ends "
    "(first_node_error.__cause__.__traceback__), so with the traceback intact the arguments of the first failing call stay "
    "referenced until then.  Frames and tracebacks are outside the Refs model (C16 is PARTIAL); the exception objects "
    "themselves are left in place",
    "strict runs (cyclic collector disabled, no collection in the census): reference counting alone must free a result once "
    "its last consumer has finished - an unreachable cycle that still pins it counts as 'not released as soon as ...'",
    "failing runs use retry=None (a retry wrapper's frame would hold the arguments in the traceback) and progress=None; "
    "after a failing run the raised CallError is dropped before the final census (its traceback references run_physical's frame)",
]
TRUSTED_EXTRA = ["C16 is claimed as proof, PARTIAL: references held by CPython frames, tracebacks, progress observers and "
                 "user code are outside the Refs model"]

GATHER = {_builtins.gather_list, _builtins.gather_tuple, _builtins.gather_set, _builtins.gather_dict}


class Res:
    """A result object: weakref-able, hashable, references nothing."""
    __slots__ = ("vid", "__weakref__")

    def __init__(self, vid):
        self.vid = vid


class DropStore(uberjob.ValueStore):
    """A store that keeps nothing: write() forgets the value, read() makes a fresh result, always stale."""

    def __init__(self, k, refs):
        self.k = k
        self.refs = refs

    def read(self):
        r = Res("rd%d" % self.k)
        self.refs[r.vid] = weakref.ref(r)
        return r

    def write(self, value):
        plans._yield()

    def get_modified_time(self):
        return None


# ------------------------------------------------------------------------------------------------ generation
def _wrap_ref(rng, ref, pool):
    r = rng.random()
    other = {"n": rng.choice(pool)} if pool and rng.random() < 0.6 else {"v": rng.randrange(50)}
    if r < 0.25:
        return {"list": [ref, other]}
    if r < 0.45:
        return {"tuple": [other, ref]}
    if r < 0.6:
        return {"dict": [[{"v": "k"}, ref], [{"v": "o"}, other]]}
    if r < 0.7:
        return {"set": [ref]}
    if r < 0.8:
        return {"list": [{"tuple": [ref, other]}, {"v": 1}]}
    return ref


def gen_case(rng, tier):
    nmax = 8 if tier == "quick" else 13
    spec = plans.gen_spec(rng, nmax=nmax, p_lit=0.15, p_dep=0.2)
    ids = [nd["id"] for nd in spec["nodes"]]
    for nd in spec["nodes"]:
        if nd["kind"] == "call" and rng.random() < 0.3:
            pool = [i for i in ids if i < nd["id"]]
            nd["args"] = [_wrap_ref(rng, r, pool) if "n" in r else r for r in nd["args"]]
    calls = [nd["id"] for nd in spec["nodes"] if nd["kind"] == "call"]
    r = rng.random()
    if r < 0.15:
        out = None
    elif r < 0.5:
        out = {"n": rng.choice(ids)}
    else:
        picks = rng.sample(ids, min(len(ids), rng.choice([1, 2, 2, 3])))
        out = {"list": [{"n": picks[0]}]}
        if len(picks) > 1:
            out["list"].append({"dict": [[{"v": "a"}, {"n": picks[1]}]]})
        if len(picks) > 2:
            out["list"].append({"tuple": [{"n": picks[2]}, {"v": 7}, {"n": picks[0]}]})
    reg = sorted(rng.sample(calls, rng.randint(0, len(calls)))) if rng.random() < (0.9 if out is None else 0.3) else []
    mode = rng.choice(["real1", "coop", "coop", "coop"])
    failing = []
    if calls and rng.random() < 0.4:
        # prefer calls that consume something: then the failing call can be the LAST consumer of a result
        consumers = [nd["id"] for nd in spec["nodes"] if nd["kind"] == "call" and (nd["args"] or nd["kwargs"])]
        pool = consumers if consumers and rng.random() < 0.8 else calls
        failing = sorted(rng.sample(pool, min(len(pool), rng.choice([1, 1, 2, 3]))))
    strict, retry, flaky = False, None, {}
    if not failing and rng.random() < 0.35:
        # "as soon as": no cyclic collection at all during the run (gc disabled, census without gc.collect()), with an
        # integer retry and consumers whose first attempt(s) raise and a later one succeeds
        strict = True
        retry = rng.choice([None, 2, 3, 3])
        if retry and calls:
            consumers = [nd["id"] for nd in spec["nodes"] if nd["kind"] == "call" and (nd["args"] or nd["kwargs"])]
            pool = consumers if consumers and rng.random() < 0.85 else calls
            flaky = {str(i): rng.randint(1, retry - 1) for i in rng.sample(pool, min(len(pool), rng.choice([1, 2, 3])))}
    return {"spec": spec, "output": out, "registered": reg, "strict": strict, "retry": retry, "flaky": flaky,
            "workers": 1 if mode == "real1" else rng.choice([1, 2, 3, 4]), "mode": mode,
            "scheduler": rng.choice(["default", "random"]), "failing": failing,
            "max_errors": rng.choice([None, None, None, 0, 1, 3]) if failing else 0}


def build(case, refs, rec):
    spec = case["spec"]
    plan = uberjob.Plan()
    N = {}

    def val(ref):
        if ref is None:
            return None
        if "n" in ref:
            return N[ref["n"]]
        if "v" in ref:
            return ref["v"]
        if "list" in ref:
            return [val(r) for r in ref["list"]]
        if "tuple" in ref:
            return tuple(val(r) for r in ref["tuple"])
        if "set" in ref:
            return {val(r) for r in ref["set"]}
        if "dict" in ref:
            return {val(k): val(v) for k, v in ref["dict"]}
        raise ValueError(ref)

    failing = set(case.get("failing", ()))
    flaky = {int(k): v for k, v in (case.get("flaky") or {}).items()}
    attempts = {}

    def make_fn(i):
        def fn(*args, **kwargs):
            rec.add("start", i)
            plans._yield()
            if i in failing:
                raise plans.Failure("call %d" % i)
            if attempts.get(i, 0) < flaky.get(i, 0):
                attempts[i] = attempts.get(i, 0) + 1
                raise plans.Failure("call %d, attempt %d" % (i, attempts[i]))
            r = Res("c%d" % i)
            refs[r.vid] = weakref.ref(r)
            return r
        fn.__name__ = fn.__qualname__ = "f%d" % i
        fn._vid = "c%d" % i
        return fn

    for nd in spec["nodes"]:
        i = nd["id"]
        with plan.scope(*nd.get("scope", [])):
            if nd["kind"] == "lit":
                N[i] = plan.lit(("lit", i))
            else:
                N[i] = plan.call(make_fn(i), *[val(r) for r in nd["args"]], **{k: val(r) for k, r in nd["kwargs"]})
    for a, b in spec["deps"]:
        plan.add_dependency(N[a], N[b])
    registry = None
    if case["registered"]:
        registry = uberjob.Registry()
        for i in case["registered"]:
            registry.add(N[i], DropStore(i, refs))
    return plan, registry, val(case["output"])


# ------------------------------------------------------------------------------------------------ observation
class Observer:
    """Wraps the function `run_physical` hands to the engine; takes a census at every call start and end."""

    def __init__(self, refs, strict=False):
        self.refs = refs
        self.strict = strict
        self.pins = {}         # strict mode: vid -> who refers to a result that should be gone (taken before any collection)
        self.lock = threading.Lock()
        self.cur = {}          # thread ident -> index of the call that worker is executing
        self.log = []          # (kind, k, ended(list), census(sorted vids), emptied entries(sorted idx))
        self.model = None
        self.struct_errors = []

    def census(self):
        if not self.strict:
            gc.collect()
        return sorted(v for v, r in self.refs.items() if r() is not None)

    def describe(self, graph, process):
        nodes = list(graph.nodes())
        idx = {n: k for k, n in enumerate(nodes)}
        cl = dict(zip(process.__code__.co_freevars, process.__closure__ or ()))
        lookup = cl["bound_call_lookup"].cell_contents
        kinds, args, vid = {}, {}, {}
        slot_id = {}
        bc = None
        for n in nodes:
            k = idx[n]
            if type(n) is Literal:
                kinds[k] = "L"
                continue
            bc = lookup[n].value
            slot_id[k] = id(bc.result)
            a = [idx[p] for p, _, key in graph.in_edges(n, keys=True) if type(key) in (PositionalArg, KeywordArg)]
            if a:
                args[k] = a
            v = getattr(n.fn, "_vid", None)
            if v is not None:
                kinds[k], vid[k] = "U", v
            elif n.fn in GATHER:
                kinds[k] = "G"
            elif n.fn is DropStore.read:
                kinds[k], vid[k] = "U", "rd%d" % bc.args[0].value.k
            else:
                kinds[k] = "N"      # a call whose value is not tracked (DropStore.write returns None)
        # the real BoundCall objects reference exactly the slots the model's edges say (+ Literal nodes themselves)
        for n in nodes:
            if type(n) is not Call:
                continue
            k = idx[n]
            bc = lookup[n].value
            real = sorted(id(x) for x in list(bc.args) + list(bc.kwargs.values()) if type(x) is not Literal)
            want = sorted(slot_id[a] for a in args.get(k, []) if kinds[a] != "L")
            if real != want:
                self.struct_errors.append(f"BoundCall of node {k} references slots {real}, model edges say {want}")
            if any(type(x) is not Literal and type(x).__name__ != "Slot" for x in list(bc.args) + list(bc.kwargs.values())):
                self.struct_errors.append(f"BoundCall of node {k} holds something that is neither a Slot nor a Literal")
        if set(lookup) != {n for n in nodes if type(n) is Call}:
            self.struct_errors.append("bound_call_lookup keys are not exactly the Call nodes")
        del bc
        self.model = {"nodes": nodes, "idx": idx, "kinds": kinds, "args": args, "vid": vid, "lookup": lookup}
        return idx

    def wrap(self, inner):
        def rfog(graph, fn, **kw):
            if self.model is not None:       # only the run engine of run_physical is observed, once
                return inner(graph, fn, **kw)
            idx = self.describe(graph, fn)
            self.ended = []
            self.failed = []

            def fn2(node):
                if type(node) is Call:
                    self.hook("start", idx[node])
                    self.cur[threading.get_ident()] = idx[node]
                    try:
                        fn(node)
                    except BaseException as e:
                        # the call raised: control has left the try/finally of `process`, the call has finished.
                        # The user exception's traceback references the user function's frame, whose f_back chain keeps
                        # the frame of BoundCall.run - and with it the argument values - alive for as long as the
                        # exception lives (the engine keeps the first error of a run until the end; the cooperative
                        # scheduler's trace keeps all of them).  Frames are outside the model: cut that link here.
                        c = e
                        while c is not None:
                            if c is not e:
                                c.__traceback__ = None
                            c = c.__cause__ or c.__context__
                        del c
                        self.failed.append(idx[node])
                        self.hook("fail", idx[node])
                        raise
                    self.ended.append(idx[node])
                    self.hook("end", idx[node])
                else:
                    fn(node)

            return inner(graph, fn2, **kw)
        return rfog

    def reported_completed(self):
        """`increment_completed(section="run")` is being delivered on this thread: uberjob is telling the observer that the call
        this worker ran HAS finished - so by now it must have let go of the call's arguments (census with that call counted as
        finished)."""
        if self.model is None:
            return
        k = self.cur.get(threading.get_ident())
        if k is not None and k not in self.ended and k not in self.failed:
            self.hook("reported-completed", k, also_ended=k)

    def hook(self, kind, k, also_ended=None):
        with self.lock:
            m = self.model
            emptied = sorted(m["idx"][n] for n, s in m["lookup"].items() if s.value is None)
            census = self.census()
            fin = (list(self.ended) + ([also_ended] if also_ended is not None else []), list(self.failed))
            if self.strict and not self.pins:
                on = self.holder.get("output_node")
                want = oracle_live(m, m["idx"].get(on) if on is not None else None, fin)
                extra = set(census) - {m["vid"][i] for i in want if i in m["vid"]}
                for v in sorted(extra):
                    self.pins[v] = who_refers(self.refs[v]())
            self.log.append((kind, k, fin, census, emptied))


def who_refers(obj, depth=7, limit=400):
    """Frames (file:function) and types on the referrer paths to `obj`, taken before any cyclic collection."""
    import sys
    import types
    skip = {id(sys._getframe(0)), id(sys._getframe(1)), id(sys._getframe(2))}
    seen, todo, out = {id(obj)}, [(obj, 0)], []
    while todo and len(seen) < limit:
        o, d = todo.pop(0)
        if d >= depth:
            continue
        for r in gc.get_referrers(o):
            if id(r) in seen or id(r) in skip or r is todo or r is seen:
                continue
            seen.add(id(r))
            if isinstance(r, types.FrameType):
                fn = r.f_code.co_filename
                tag = "frame %s:%s" % ("/".join(fn.split("/")[-2:]), r.f_code.co_name)
                if "harness" in fn:
                    continue
            else:
                tag = type(r).__name__
            if tag not in out:
                out.append(tag)
            todo.append((r, d + 1))
    del todo
    return out[:14]


class _ReportObs(uberjob.progress.ProgressObserver):
    def __init__(self, obs):
        self.obs = obs

    def __enter__(self):
        pass

    def __exit__(self, *a):
        pass

    def increment_total(self, *, section, scope, amount):
        pass

    def increment_running(self, *, section, scope):
        pass

    def increment_completed(self, *, section, scope):
        if section == "run":
            self.obs.reported_completed()

    def increment_failed(self, *, section, scope, exception):
        pass


class ReportHook(uberjob.progress.Progress):
    """a progress observer whose only job is to take a census at the moment a call is reported completed"""

    def __init__(self, obs):
        self.obs1 = _ReportObs(obs)

    def observer(self):
        return self.obs1


def run_case(case, seed):
    refs, rec = {}, plans.Rec()
    plan, registry, output = build(case, refs, rec)
    obs = Observer(refs, strict=bool(case.get("strict")))
    holder = {}     # the output node run_physical is given (captured from its call of prep_run_physical)
    obs.holder = holder

    def thunk():
        cur = rp.run_function_on_graph
        rp.run_function_on_graph = obs.wrap(cur)
        orig_prep = rp.prep_run_physical

        def prep(plan_, **kw):
            holder["output_node"] = kw.get("output_node")
            return orig_prep(plan_, **kw)

        rp.prep_run_physical = prep
        try:
            if obs.strict:
                gc.collect()
                gc.disable()
            return uberjob.run(plan, output=output, registry=registry, max_workers=case["workers"], retry=case.get("retry"),
                               scheduler=case["scheduler"], progress=ReportHook(obs), max_errors=case.get("max_errors", 0))
        finally:
            rp.run_function_on_graph = cur
            rp.prep_run_physical = orig_prep
            if obs.strict:
                gc.enable()

    class R:
        pass

    if case["mode"] == "real1":
        r = R()
        r.exc, r.deadlock, r.hang = None, False, False
        state = random.getstate()
        random.seed(seed)           # the 'random' scheduler draws from the global generator
        try:
            r.value = thunk()
        except Exception as e:      # noqa: BLE001 - reported by the caller
            r.value, r.exc = None, e
        finally:
            random.setstate(state)
    else:
        r = coop.run_controlled(thunk, seed, mode="prim", snapshots=False)
    r.obs, r.refs, r.holder = obs, refs, holder
    obs.holder = None
    # uberjob caches inspect.signature per function (lru_cache(4096)); that keeps every generated call function alive
    # and makes each gc.collect() of the census slower and slower - drop it between cases (harness-side only)
    from uberjob._util import validation
    validation.try_get_signature.cache_clear()
    import uberjob._util as _u
    _u.fully_qualified_name.cache_clear()
    return r


def contained(value, acc):
    if isinstance(value, Res):
        acc.add(value.vid)
    elif isinstance(value, dict):
        for k, v in value.items():
            contained(k, acc)
            contained(v, acc)
    elif isinstance(value, (list, tuple, set, frozenset)):
        for v in value:
            contained(v, acc)
    return acc


# ------------------------------------------------------------------------------------------------ judging
def model_line(m, out_idx, fin):
    """fin = (calls that returned, calls that raised): stored = returned, dropped = returned + raised."""
    kinds = " ".join("%d:%s" % (k, "U" if v == "N" else v) for k, v in sorted(m["kinds"].items()))
    args = " ".join("%d:%s" % (k, ",".join(map(str, a))) for k, a in sorted(m["args"].items()))
    return "c16 | %s | %s | %s | %s | %s | 0" % (kinds, args, "-" if out_idx is None else out_idx,
                                                 " ".join(map(str, fin[0])), " ".join(map(str, fin[0] + fin[1])))


def oracle_live(m, out_idx, fin):
    """Direct statement of the property (not the model): a tracked result may be alive only if it exists and
    (it is the output, or one of its argument-consumers has not finished, or a live container holds it).
    A consumer that raised HAS finished."""
    ended = set(fin[0])
    done = ended | set(fin[1])
    consumers = {}
    for j, a in m["args"].items():
        for x in a:
            consumers.setdefault(x, set()).add(j)
    base = {i for i in ended if m["kinds"][i] != "L"
            and (i == out_idx or any(j not in done for j in consumers.get(i, ())))}
    live = set(base)
    changed = True
    while changed:
        changed = False
        for j in list(live):
            if m["kinds"][j] == "G":
                for a in m["args"].get(j, []):
                    if a in ended and m["kinds"][a] != "L" and a not in live:
                        live.add(a)
                        changed = True
    return live


def judge(case, r, driver):
    """-> (violations [str], disagreements [str], stats)"""
    viol, dis = [], []
    obs = r.obs
    st = {"censuses": 0, "max_live": 0, "released_before_end": 0, "failed_calls": 0, "released_by_failed_consumer": 0}
    expect_fail = bool(case.get("failing"))
    if r.deadlock or r.hang:
        dis.append(f"run did not terminate: deadlock={r.deadlock} hang={r.hang}")
        return viol, dis, st
    if r.exc is not None and not (expect_fail and isinstance(r.exc, uberjob.CallError)):
        dis.append(f"run raised {r.exc!r}")
        return viol, dis, st
    failed_run = r.exc is not None
    m = obs.model
    final_live = sorted(contained(r.value, set()))
    if m is None:
        # nothing reached run_physical's engine?  then nothing may have been created
        if any(ref() is not None for ref in r.refs.values()) and not final_live:
            viol.append("results alive although run_physical was never entered")
        return viol, dis, st
    for e in obs.struct_errors:
        dis.append(e)
    on = r.holder.get("output_node")
    out_idx = m["idx"].get(on) if on is not None else None
    tracked = m["vid"]
    consumers = {}
    for j, a in m["args"].items():
        for x in a:
            consumers.setdefault(x, set()).add(j)
    lines, recs = [], []
    for kind, k, fin, census, emptied in obs.log:
        ok, failed = fin
        st["censuses"] += 1
        st["max_live"] = max(st["max_live"], len(census))
        want = oracle_live(m, out_idx, fin)
        want_v = sorted(tracked[i] for i in want if i in tracked)
        extra = sorted(set(census) - set(want_v))
        if extra:
            pin = ""
            if obs.strict:
                pin = (" [no cyclic collection ran (gc disabled, retry=%r, flaky=%r); referred to by: %s]"
                       % (case.get("retry"), case.get("flaky"), "; ".join(obs.pins.get(extra[0], []))))
            viol.append(f"at {kind} of node {k} (returned {ok}, raised {failed}): results {extra} are still alive although "
                        f"they and all their consumers have finished and they are not part of the output" + pin)
        if sorted(emptied) != sorted(set(ok) | set(failed)):
            dis.append(f"at {kind} of node {k}: emptied lookup entries {emptied} != finished calls {sorted(set(ok) | set(failed))}")
        st["released_before_end"] += sum(1 for i in ok if i in tracked and tracked[i] not in census)
        if kind == "fail":
            st["failed_calls"] += 1
            done = set(ok) | set(failed)
            # results whose LAST consumer is the call that just raised
            st["released_by_failed_consumer"] += sum(
                1 for a in set(m["args"].get(k, [])) if a in tracked and a in ok and a != out_idx
                and consumers[a] <= done and tracked[a] not in census)
        lines.append(model_line(m, out_idx, fin))
        recs.append((kind, k, fin, census))
    # after the run: exactly what the returned value contains is alive; after dropping it, nothing is
    # (first let go of the harness's own handles on uberjob's lookup: the observer's and the scheduler's traces;
    #  the traceback of the exception a failed run raised references the frames of run_physical, so it goes first)
    m.pop("lookup", None)
    r.traces = r.sched = None
    if failed_run:
        r.exc = None
    else:
        after = obs.census()
        if after != final_live:
            (viol if set(after) - set(final_live) else dis).append(
                f"after run returned: alive {after}, contained in the returned value {final_live}")
    r.value = None
    gone = obs.census()
    if gone:
        viol.append(f"after the returned value / the raised exception was dropped, results {gone} are still alive "
                    f"(retained by uberjob)")
    pend = None
    if lines:
        if not failed_run:
            lines.append(model_line(m, out_idx, ([i for i in range(len(m["nodes"])) if m["kinds"][i] != "L"], [])))
        pend = (lines, recs, dict(tracked), None if failed_run else final_live)
    st["pending"] = pend
    return viol, dis, st


def batch(driver, lines):
    """One driver call; tolerates the executable being replaced by a concurrent `lake build` of another builder."""
    import time
    for attempt in range(40):
        try:
            return driver.batch(lines)
        except (FileNotFoundError, PermissionError, OSError):
            time.sleep(1.5)
    return driver.batch(lines)


def judge_model(pend, replies):
    """Compare the censuses of one run with the model's replies -> [disagreement strings]."""
    lines, recs, tracked, final_live = pend
    dis = []
    for (kind, k, ended, census), reply in zip(recs, replies):
        if not reply.startswith("slots "):
            return [f"driver: {reply}"]
        vals = [int(t) for t in reply.split(";")[1].split()[1:]]
        model_v = sorted(tracked[i] for i in vals if i in tracked)
        if model_v != census:
            return [f"at {kind} of node {k} (finished {ended}): census {census} != model live set {model_v}"]
    if final_live is None:        # a failed run returns nothing
        return dis
    last = replies[-1]
    if not last.startswith("slots "):
        return [f"driver: {last}"]
    vals = [int(t) for t in last.split(";")[1].split()[1:]]
    model_v = sorted(tracked[i] for i in vals if i in tracked)
    # calls the run never executed (pruned) are not in the graph at all, so "all finished" is the final state
    if model_v != final_live:
        dis.append(f"final: returned value contains {final_live}, model final live set {model_v}")
    return dis


def flush(driver, queue, dis):
    if driver is None or not queue:
        queue.clear()
        return 0
    lines = [ln for pend, _, _ in queue for ln in pend[0]]
    rep = batch(driver, lines)
    pos = 0
    for pend, case, seed in queue:
        n = len(pend[0])
        for what in judge_model(pend, rep[pos:pos + n]):
            dis.append({"layer": "refs(run_physical)", "what": what, "case": case, "seed": seed})
        pos += n
    queue.clear()
    return len(lines)


def explore(ctx):
    rng = random.Random(ctx.seed * 7919 + 16)
    n = 500 if ctx.tier == "quick" else 9000
    viol, dis = [], []
    cov = {"programs": 0, "censuses": 0, "coop_runs": 0, "real_single_worker_runs": 0, "with_registry": 0,
           "failing_runs": 0, "failed_calls_observed": 0, "results_released_by_a_failing_last_consumer": 0,
           "output_none": 0, "output_structure": 0, "max_live_at_once": 0, "released_before_end_observations": 0,
           "calls_observed": 0, "rule": "weakref census after gc.collect() at every call start/end (a third of the runs: with the cyclic collector "
           "disabled and no collection at all, integer retry and calls whose first attempts raise) == Lean Refs live set "
           "(driver c16); emptied lookup entries == finished calls; BoundCall slots == model edges",
           "samples": []}
    distinct = set()
    queue = []
    cov["model_evaluations"] = 0
    gc.collect()
    gc.freeze()
    try:
        for _ in range(n):
            case = gen_case(rng, ctx.tier)
            seed = rng.randrange(1 << 30)
            r = run_case(case, seed)
            v, d, st = judge(case, r, ctx.driver)
            cov["programs"] += 1
            cov["censuses"] += st["censuses"]
            cov["coop_runs"] += case["mode"] == "coop"
            cov["real_single_worker_runs"] += case["mode"] == "real1"
            cov["with_registry"] += bool(case["registered"])
            cov["failing_runs"] += bool(case["failing"])
            cov["strict_runs_no_cyclic_gc"] = cov.get("strict_runs_no_cyclic_gc", 0) + bool(case.get("strict"))
            cov["strict_runs_with_retry_and_flaky_calls"] = cov.get("strict_runs_with_retry_and_flaky_calls", 0) + bool(case.get("flaky"))
            cov["failed_calls_observed"] += st["failed_calls"]
            cov["results_released_by_a_failing_last_consumer"] += st["released_by_failed_consumer"]
            cov["output_none"] += case["output"] is None
            cov["output_structure"] += bool(case["output"]) and "n" not in case["output"]
            cov["max_live_at_once"] = max(cov["max_live_at_once"], st["max_live"])
            cov["released_before_end_observations"] += st["released_before_end"]
            cov["calls_observed"] += st["censuses"] // 2
            log_key = hash(tuple((k, kk, tuple(c)) for k, kk, _, c, _ in r.obs.log))
            if len(r.obs.log) >= 4:
                distinct.add(log_key)
            if len(cov["samples"]) < 2 and st["censuses"] >= 6:
                cov["samples"].append({"case": case, "seed": seed})
            for what in v:
                viol.append({"property": "C16", "what": what, "case": case, "seed": seed})
            for what in d:
                dis.append({"layer": "refs(run_physical)", "what": what, "case": case, "seed": seed})
            if st.get("pending"):
                queue.append((st["pending"], case, seed))
            if len(queue) >= 150:
                cov["model_evaluations"] += flush(ctx.driver, queue, dis)
            if len(viol) >= 3 or len(dis) >= 3:
                break
        cov["model_evaluations"] += flush(ctx.driver, queue, dis)
    finally:
        gc.unfreeze()
    cov["distinct_nontrivial"] = len(distinct)
    if not viol:
        v2, n2 = after_run_cases()
        viol += v2
        cov["after_run_cases"] = n2
    if not viol and not dis:
        floor = 100 if ctx.tier == "quick" else 2000
        if (cov["released_before_end_observations"] < floor or cov["distinct_nontrivial"] < floor // 2
                or cov["results_released_by_a_failing_last_consumer"] < floor // 10):
            from harness.common import Broken
            raise Broken("correspondence", "c16-generator",
                         f"too few informative runs: {cov['released_before_end_observations']} release observations, "
                         f"{cov['results_released_by_a_failing_last_consumer']} releases by a failing last consumer, "
                         f"{cov['distinct_nontrivial']} distinct logs")
    return {"violations": viol[:3], "disagreements": dis[:3], "coverage": cov}


def after_run_cases(only=None):
    """After `run` has returned or raised - and the caller has dropped the exception - uberjob and its BUNDLED progress displays
    hold no result any more: a weak reference to the result of a consumed call must be dead after a collection.  Console, HTML,
    IPython (widgets live in a process-wide registry), null and composite displays; a successful run and one whose consumer
    fails (the display then keeps exception records)."""
    import contextlib
    import io
    import tempfile
    import warnings
    import weakref
    from uberjob.progress import composite_progress, console_progress, html_progress, ipython_progress, null_progress
    viol, done = [], 0
    for kind in ("console", "html", "ipython", "null", "composite"):
        for fail in (False, True):
            if only is not None and [kind, fail] != list(only):
                continue
            refs = []

            def make():
                r = Res("a")
                refs.append(weakref.ref(r))
                return r

            def consume(x):
                if fail:
                    raise ValueError("the consumer fails")
                return 1

            plan = uberjob.Plan()
            b = plan.call(consume, plan.call(make))
            with tempfile.TemporaryDirectory() as d, warnings.catch_warnings():
                warnings.simplefilter("ignore")
                prog = {"console": console_progress, "html": html_progress(d + "/p.html"), "ipython": ipython_progress, "null": null_progress,
                        "composite": composite_progress(console_progress, html_progress(d + "/q.html"))}[kind]
                buf = io.StringIO()
                with contextlib.redirect_stdout(buf), contextlib.redirect_stderr(buf):
                    try:
                        uberjob.run(plan, output=b, progress=prog, max_workers=2)
                    except uberjob.CallError:
                        pass            # the exception (and with it the failed call's frame) is dropped here
            del plan, b, prog
            gc.collect()
            done += 1
            alive = [r() for r in refs if r() is not None]
            if alive:
                holders = who_refers(alive[0])
                viol.append({"property": "C16", "what": f"{kind} progress, {'failing' if fail else 'successful'} run: after run "
                             f"{'raised and the error was dropped' if fail else 'returned'} the consumed result is still alive; referred to by {str(holders)[:300]}",
                             "kind": "after-run", "case": [kind, fail]})
                break
        if viol:
            break
    return viol, done


def search(ctx, broken):
    class C:
        pass
    found = []
    for k in range(1, 4):
        c = C()
        c.__dict__.update(ctx.__dict__)
        c.seed, c.driver = ctx.seed + 1000 * k, None
        try:
            found += explore(c)["violations"]
        except Exception:   # noqa: BLE001
            pass
        if found:
            break
    return found


def replay(ctx, payload):
    w = payload.get("witness", payload)
    gc.collect()
    if w.get("kind") == "after-run":
        v, _ = after_run_cases(only=w["case"])
        return v[0]["what"] if v else None
    r = run_case(w["case"], w["seed"])
    v, d, st = judge(w["case"], r, None)
    if not v and ctx.driver is not None and st.get("pending") and w.get("layer"):
        d += judge_model(st["pending"], batch(ctx.driver, st["pending"][0]))
    return v[0] if v else (d[0] if d and w.get("layer") else None)


def explore_shard(ctx):
    """extra parallel shard of the thorough tier (weakref / gc census: no timing involved)"""
    return explore(ctx)
