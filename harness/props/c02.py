"""C02 — run returns exactly what direct evaluation of the call graph would return.

T2: seeded programs are built through the REAL API (Plan.lit/call/gather/unpack/add_dependency, uberjob.run) with
recording call functions that return Herbrand objects `H(f, args, kwargs)` holding the very argument objects and the
kwargs order.  The result of `uberjob.run` and the recordings are canonicalised (object identity becomes
"#k = the object supplied with id k" / "~ = built during the run") and compared with
  * the Lean model (`c02 prog ...` of the driver: `addCall/gather/unpack/eval/runResult`)   -> disagreement
  * a straightforward recursive Python evaluator on the supplied objects (the monitor)        -> violation
and the same plan is run with several worker counts, both schedulers and several controlled schedules
(harness/coop.py) — any difference is a violation ("same for every worker count, scheduler and timing").
Also: `get_argument_nodes` vs the model on explicit edge lists (well-formed in shuffled insertion order and after
`Graph.copy()`, and ill-formed ones), `_builtins.unpack` vs the generated `unpackTake/unpackOk`.

program = {"stmts": [stmt...], "out": pv | None}
stmt = ["lit", pv] | ["call", f, [pv...], [[name, pv]...]] | ["gather", pv] | ["unpack", n, pv] | ["dep", a, b]
pv   = ["a", id] | ["i", k] | ["n", var] | ["L"|"T"|"S", id, [pv...]] | ["D", id, [[pv, pv]...]]
     | ["O", id, "list"|"tuple"|"dict"|"box", [pv...]]           (dict: k0, v0, k1, v1, ...)
The same id always denotes the same object (shared sub-objects).
"""
from __future__ import annotations

import copy
import itertools
import random

import uberjob
from harness import coop, plans
from uberjob import _builtins
from uberjob import graph as ug
from uberjob.graph import Node

GEN = ["Plan"]

ASSUMPTIONS = [
    "user call functions are deterministic and do not mutate their arguments (Herbrand results H(f, args, kwargs))",
    "equality/hash of user objects inside set/dict is Python's; the harness's opaque objects compare by identity",
    "the iteration order of a supplied set is read off the supplied object (it is not insertion order)",
]
TRUSTED_EXTRA = ["harness/props/c02.py: program generator, canonicalisation of values and object identity, reference evaluator"]


# ------------------------------------------------------------------------------------------------
# the value universe
# ------------------------------------------------------------------------------------------------

class Atom:
    """A hashable, non-iterable object; equality is identity."""
    __slots__ = ("k",)

    def __init__(self, k):
        self.k = k

    def __repr__(self):
        return "a%d" % self.k


class _Opaque:
    __slots__ = ()

    def __eq__(self, other):
        return self is other

    def __ne__(self, other):
        return self is not other

    def __hash__(self):
        return id(self) >> 4


class MyList(_Opaque, list):
    __slots__ = ()
    __eq__, __ne__, __hash__ = _Opaque.__eq__, _Opaque.__ne__, _Opaque.__hash__


class MyTuple(_Opaque, tuple):
    __slots__ = ()
    __eq__, __ne__, __hash__ = _Opaque.__eq__, _Opaque.__ne__, _Opaque.__hash__


class MyDict(_Opaque, dict):
    __slots__ = ()
    __eq__, __ne__, __hash__ = _Opaque.__eq__, _Opaque.__ne__, _Opaque.__hash__


class Box(_Opaque):
    __slots__ = ("items",)

    def __init__(self, items):
        self.items = items


OPAQUE = (MyList, MyTuple, MyDict, Box)


class H:
    """Herbrand result of user function f: holds the very argument objects and the kwargs in the order received."""
    __slots__ = ("f", "args", "kwargs")

    def __init__(self, f, args, kwargs):
        self.f, self.args, self.kwargs = f, args, kwargs

    def __eq__(self, other):
        return type(other) is H and self.f == other.f and self.args == other.args and self.kwargs == other.kwargs

    def __ne__(self, other):
        return not self == other

    def __hash__(self):
        return hash(("H", self.f))

    def __repr__(self):
        return "f%d%r%r" % (self.f, self.args, self.kwargs)


class _Fail:
    def __repr__(self):
        return "FAIL"


FAIL = _Fail()


# ------------------------------------------------------------------------------------------------
# generator
# ------------------------------------------------------------------------------------------------

NAMES = ["a", "b", "c", "d", "k1", "zz"]


class Gen:
    def __init__(self, rng, tier):
        self.rng = rng
        self.big = tier != "quick"
        self.next_id = 1
        self.pool = []          # container / opaque pvs generated so far (for sharing and cloning)
        self.vars = []          # per var: {"rank": int, "shape": tuple}
        self.rank = 0
        self.deps = set()
        self.twins = []         # pairs of vars that evaluate to equal values held by different objects
        self.stmts = []

    def fresh(self):
        self.next_id += 1
        return self.next_id - 1

    # --- structural key of a hashable pv under Python equality (nodes by identity = rank)
    def key(self, pv):
        t = pv[0]
        if t == "a":
            return ("a", pv[1])
        if t == "i":
            return ("i", pv[1])
        if t == "n":
            return ("n", self.vars[pv[1]]["rank"])
        if t == "T":
            return ("T",) + tuple(self.key(c) for c in pv[2])
        return ("o", pv[1])

    def hashable(self, pv):
        t = pv[0]
        if t in ("a", "i", "n", "O"):
            return True
        if t == "T":
            return all(self.hashable(c) for c in pv[2])
        return False

    def clone(self, pv):
        """Equal value, different objects (containers get new ids)."""
        t = pv[0]
        if t in ("a", "i", "n"):
            return list(pv)
        if t == "D":
            return ["D", self.fresh(), [[self.clone(k), self.clone(v)] for k, v in pv[2]]]
        if t == "O":
            return ["O", self.fresh(), pv[2], [self.clone(c) for c in pv[3]]]
        return [t, self.fresh(), [self.clone(c) for c in pv[2]]]

    def pv(self, depth, hashable=False, p_node=0.35):
        r = self.rng
        x = r.random()
        if self.vars and x < p_node:
            if hashable and r.random() < 0.75:
                cand = [i for i, v in enumerate(self.vars) if v["shape"][0] in ("other", "unk")]
                if cand:
                    return ["n", r.choice(cand)]
            return ["n", r.randrange(len(self.vars))]
        if depth <= 0 or x < p_node + 0.2:
            return ["a", r.randint(1, 6)] if r.random() < 0.7 else ["i", r.randint(0, 3)]
        if self.pool and r.random() < 0.2:
            cand = [p for p in self.pool if not hashable or self.hashable(p)]
            if cand:
                p = r.choice(cand)
                return copy.deepcopy(p) if r.random() < 0.5 else self.remember(self.clone(p))
        kinds = ["T", "O"] if hashable else ["L", "T", "S", "D", "O", "L", "T", "S", "D"]
        t = r.choice(kinds)
        n = r.choice([0, 1, 1, 2, 2, 3])
        if t in ("L", "T"):
            out = [t, self.fresh(), [self.pv(depth - 1, hashable and t == "T", p_node) for _ in range(n)]]
        elif t == "S":
            out = ["S", self.fresh(), self.distinct(self.twin_nodes(p_node) + [self.pv(depth - 1, True, p_node) for _ in range(n)])]
        elif t == "D":
            ks = self.distinct(self.twin_nodes(p_node) + [self.pv(depth - 1, True, p_node) for _ in range(n)])
            out = ["D", self.fresh(), [[k, self.pv(depth - 1, False, p_node)] for k in ks]]
        else:
            kind = r.choice(["list", "tuple", "dict", "box"])
            if kind == "dict":
                ks = self.distinct([self.pv(depth - 1, True, p_node) for _ in range(n)])
                items = []
                for k in ks:
                    items += [k, self.pv(depth - 1, False, p_node)]
            else:
                items = [self.pv(depth - 1, False, p_node) for _ in range(n)]
            out = ["O", self.fresh(), kind, items]
        return self.remember(out)

    def twin_nodes(self, p_node):
        """Both nodes of a pair that evaluates to equal values (they collide as set elements / dict keys)."""
        if self.twins and p_node > 0 and self.rng.random() < 0.6:
            a, b = self.rng.choice(self.twins)
            return [["n", a], ["n", b]] if self.rng.random() < 0.5 else [["n", b], ["n", a]]
        return []

    def remember(self, pv):
        if pv[0] not in ("a", "i", "n"):
            self.pool.append(pv)
        return pv

    def distinct(self, pvs):
        seen, out = set(), []
        for p in pvs:
            k = self.key(p)
            if k not in seen:
                seen.add(k)
                out.append(p)
        return out

    # --- what is known statically about the value of a pv / var (for choosing unpack sources)
    def shape(self, pv):
        t = pv[0]
        if t == "n":
            return self.vars[pv[1]]["shape"]
        if t in ("L", "T"):
            return ("seq", len(pv[2]))
        if t == "S":
            return ("set", len(pv[2]))
        if t == "D":
            return ("map", len(pv[2]))
        if t == "O":
            return {"list": ("seq", len(pv[3])), "tuple": ("seq", len(pv[3])), "dict": ("seq", len(pv[3]) // 2),
                    "box": ("other",)}[pv[2]]
        return ("other",)

    def new_var(self, shape, alias=None):
        if alias is not None:
            self.vars.append({"rank": self.vars[alias]["rank"], "shape": self.vars[alias]["shape"]})
        else:
            self.rank += 1
            self.vars.append({"rank": self.rank, "shape": shape})
        return len(self.vars) - 1

    def stmt(self):
        r = self.rng
        depth = r.choice([0, 1, 1, 2, 2, 3]) if self.big else r.choice([0, 1, 1, 2, 2])
        x = r.random()
        if self.stmts and r.random() < 0.18:
            # a twin: an earlier lit/gather/call again, with cloned (equal, not identical) argument objects
            cand = [(i, st_) for i, st_ in enumerate(self.stmts) if st_[1][0] in ("lit", "gather", "call")
                    and not (st_[1][0] == "gather" and st_[1][1][0] == "n")]
            if cand:
                _, (var, st_) = r.choice(cand)
                if st_[0] == "call":
                    new = ["call", st_[1], [self.clone(p) for p in st_[2]], [[nm, self.clone(p)] for nm, p in st_[3]]]
                else:
                    new = [st_[0], self.remember(self.clone(st_[1]))]
                v2 = self.new_var(self.vars[var]["shape"])
                self.twins.append((var, v2))
                return new
        if x < 0.12 or not self.vars:
            # a literal; sometimes of a value containing Node objects (lit does not traverse)
            pv = self.pv(depth, p_node=0.05 if self.vars else 0.0)
            if pv[0] == "n":
                pv = ["a", r.randint(1, 6)]
            self.new_var(self.shape(pv))
            return ["lit", pv]
        if x < 0.62:
            f = r.randint(0, 2)
            npos = r.choice([0, 1, 1, 2, 2, 3])
            nkw = r.choice([0, 0, 1, 2, 2, 3])
            args = [self.pv(depth, p_node=0.45) for _ in range(npos)]
            names = r.sample(NAMES, nkw)
            kws = [[nm, self.pv(depth, p_node=0.5)] for nm in names]
            # one node used several times, positionally and by keyword
            if self.vars and r.random() < 0.35 and (args or kws):
                v = ["n", r.randrange(len(self.vars))]
                if args and r.random() < 0.7:
                    args[r.randrange(len(args))] = list(v)
                if kws:
                    kws[r.randrange(len(kws))][1] = list(v)
                if args and r.random() < 0.3:
                    args.append(list(v))
                # the SAME node under two keyword names with other keywords in between, or positionally around another
                # argument (in_edges groups parallel edges by predecessor: only the edge keys carry the order)
                if len(kws) >= 2 and r.random() < 0.5:
                    kws[0][1] = list(v)
                    kws[-1][1] = list(v)
                if len(args) >= 3 and r.random() < 0.5:
                    args[0] = list(v)
                    args[-1] = list(v)
            self.new_var(("other",))
            return ["call", f, args, kws]
        if x < 0.74:
            pv = self.pv(max(depth, 1), p_node=0.45)
            if pv[0] == "n":
                self.new_var(None, alias=pv[1])
            else:
                self.new_var(self.shape(pv))
            return ["gather", pv]
        if x < 0.94:
            n = r.choice([0, 1, 1, 2, 2, 3, 4])
            y = r.random()
            src = None
            if y < 0.4:
                cand = [i for i, v in enumerate(self.vars) if v["shape"][0] in ("seq", "map") or v["shape"] == ("set", 1)
                        or v["shape"] == ("set", 0)]
                good = [i for i in cand if self.vars[i]["shape"][1] == n]
                if good and r.random() < 0.7:
                    src = ["n", r.choice(good)]
                elif cand:
                    src = ["n", r.choice(cand)]
            if src is None and y < 0.5:
                others = [i for i, v in enumerate(self.vars) if v["shape"] == ("other",)]
                if others:
                    src = ["n", r.choice(others)]          # not iterable -> TypeError inside the run
            if src is None:
                m = n if r.random() < 0.7 else max(0, n + r.choice([-2, -1, 1, 2]))
                t = r.choice(["L", "T", "L", "T", "O"])
                items = [self.pv(depth - 1, p_node=0.5) for _ in range(m)]
                src = self.remember(["O", self.fresh(), r.choice(["list", "tuple"]), items] if t == "O"
                                    else [t, self.fresh(), items])
            for _ in range(n):
                self.new_var(("unk",))
            if n == 0:
                pass
            return ["unpack", n, src]
        # add_dependency between two existing nodes, forward in creation order (keeps the plan acyclic)
        if len(self.vars) >= 2:
            a, b = r.sample(range(len(self.vars)), 2)
            if self.vars[a]["rank"] > self.vars[b]["rank"]:
                a, b = b, a
            ra, rb = self.vars[a]["rank"], self.vars[b]["rank"]
            if ra < rb and (ra, rb) not in self.deps:
                self.deps.add((ra, rb))
                return ["dep", a, b]
        return self.stmt()

    def program(self):
        r = self.rng
        n = r.randint(1, 12 if self.big else 7)
        stmts = []
        for _ in range(n):
            nv = len(self.vars)
            st_ = self.stmt()
            stmts.append(st_)
            self.stmts.append((nv, st_))
        y = r.random()
        nv = len(self.vars)
        if y < 0.05:
            out = None
        elif y < 0.12:
            out = self.pv(2, p_node=0.0)                      # literals only
        elif y < 0.27 and nv:
            out = ["n", r.randrange(nv)]
        elif y < 0.65 and nv:
            # several nodes (mostly late ones) in a structure, so that most of the program is needed
            k = r.randint(1, min(5, nv))
            picks = [["n", max(0, nv - 1 - int(r.expovariate(0.5)))] for _ in range(k)]
            t = r.choice(["L", "T", "L", "T", "D", "S"])
            if t == "D":
                out = ["D", self.fresh(), [[kk, self.pv(1, p_node=0.5)] for kk in self.distinct(picks)]]
            elif t == "S":
                out = ["S", self.fresh(), self.distinct(picks)]
            else:
                out = [t, self.fresh(), picks + [self.pv(2, p_node=0.4) for _ in range(r.choice([0, 0, 1]))]]
        else:
            out = self.pv(r.choice([1, 2, 2, 3]), p_node=0.5)
            if out[0] in ("a", "i") and nv:
                out = ["T", self.fresh(), [["n", r.randrange(nv)] for _ in range(r.randint(1, 3))]]
        return {"stmts": stmts, "out": out}


# ------------------------------------------------------------------------------------------------
# building through the real API, canonicalisation, the reference evaluator
# ------------------------------------------------------------------------------------------------

def has_node(x):
    """Is a Node reachable through exact built-in containers?"""
    if isinstance(x, Node):
        return True
    t = type(x)
    if t in (list, tuple, set):
        return any(has_node(c) for c in x)
    if t is dict:
        return any(has_node(k) or has_node(v) for k, v in x.items())
    return False


def node_deps(x, acc):
    if isinstance(x, Node):
        acc.append(x)
        return
    t = type(x)
    if t in (list, tuple, set):
        for c in x:
            node_deps(c, acc)
    elif t is dict:
        for k, v in x.items():
            node_deps(k, acc)
            node_deps(v, acc)


class Session:
    """One program built through the real API."""

    def __init__(self, prog):
        self.prog = prog
        self.atoms = {}
        self.objs = {}          # pv id -> supplied object
        self.ids = {}           # id(object) -> pv id
        self.set_order = {}     # pv id of a set -> indices of its children in the iteration order of the real set
        self.nodes = []         # var -> Node
        self.var_of_node = {}   # id(Node) -> first var
        self.rec = {}           # var of a call -> [H, ...] of the current run
        self.call_vars = []
        self.plan = uberjob.Plan()
        self.ref = {}           # id(Node) -> reference value (direct evaluation), for statement nodes
        self.build_violation = None
        self.events = {"rebuilt": 0, "collapsed": 0, "unhashable": 0, "unpack_len": 0, "unpack_type": 0, "unpack_ok": 0}
        self.extra_deps = {}    # id(Node) -> [Node]   (add_dependency)
        self.arg_deps = {}      # id(Node) -> [Node]
        self.build()

    # --- supplied objects
    def mk(self, pv):
        t = pv[0]
        if t == "a":
            if pv[1] not in self.atoms:
                self.atoms[pv[1]] = Atom(pv[1])
            return self.atoms[pv[1]]
        if t == "i":
            return pv[1]
        if t == "n":
            return self.nodes[pv[1]]
        k = pv[1]
        if k in self.objs:
            return self.objs[k]
        if t == "L":
            o = [self.mk(c) for c in pv[2]]
        elif t == "T":
            o = tuple([self.mk(c) for c in pv[2]])
        elif t == "S":
            cs = [self.mk(c) for c in pv[2]]
            o = set(cs)
            if len(o) != len(cs):
                raise AssertionError("generator produced a set with equal elements: %r" % (pv,))
            self.set_order[k] = [next(i for i, c in enumerate(cs) if c is e) for e in o]
        elif t == "D":
            o = {}
            for kk, vv in pv[2]:
                o[self.mk(kk)] = self.mk(vv)
            if len(o) != len(pv[2]):
                raise AssertionError("generator produced a dict with equal keys: %r" % (pv,))
        else:
            cs = [self.mk(c) for c in pv[3]]
            o = {"list": lambda: MyList(cs), "tuple": lambda: MyTuple(cs),
                 "dict": lambda: MyDict(zip(cs[0::2], cs[1::2])), "box": lambda: Box(cs)}[pv[2]]()
        self.objs[k] = o
        self.ids[id(o)] = k
        return o

    def make_fn(self, var, f):
        rec = self.rec

        def fn(*args, **kwargs):
            h = H(f, args, tuple(kwargs.items()))
            rec.setdefault(var, []).append(h)
            plans._yield()
            return h

        fn.__name__ = fn.__qualname__ = "f%d" % f
        return fn

    def add_var(self, node):
        self.var_of_node.setdefault(id(node), len(self.nodes))
        self.nodes.append(node)

    def build(self):
        plan = self.plan
        for st in self.prog["stmts"]:
            op = st[0]
            if op == "lit":
                o = self.mk(st[1])
                nd = plan.lit(o)
                self.ref[id(nd)] = ("lit", o)
                self.arg_deps[id(nd)] = []
                self.add_var(nd)
            elif op == "call":
                args = [self.mk(p) for p in st[2]]
                kws = [(nm, self.mk(p)) for nm, p in st[3]]
                var = len(self.nodes)
                nd = plan.call(self.make_fn(var, st[1]), *args, **dict(kws))
                self.call_vars.append(var)
                self.ref[id(nd)] = ("call", st[1], args, kws)
                acc = []
                for a in args:
                    node_deps(a, acc)
                for _, a in kws:
                    node_deps(a, acc)
                self.arg_deps[id(nd)] = acc
                self.add_var(nd)
            elif op == "gather":
                o = self.mk(st[1])
                nd = plan.gather(o)
                if not isinstance(o, Node):
                    self.ref[id(nd)] = ("gather", o)
                    acc = []
                    node_deps(o, acc)
                    self.arg_deps[id(nd)] = acc
                self.add_var(nd)
            elif op == "unpack":
                o = self.mk(st[2])
                nds = plan.unpack(o, st[1])
                acc = []
                node_deps(o, acc)
                if any(id(nd) in self.ref for nd in nds):
                    # `unpack` handed out nodes that already existed (instead of new symbolic items): the reference cannot tell
                    # them from the variables they already are.  Judge it here: they must be, in order, the items of the
                    # EVALUATED iterable - and if that has another number of items, the error due at run time is lost.
                    memo = {}
                    ev = self.direct(o, memo)
                    try:
                        items = None if ev is FAIL else list(iter(ev))
                    except TypeError:
                        items = None
                    if items is None or len(items) != st[1]:
                        self.build_violation = ("plan.unpack(<a container with nodes in it>, %d) handed out nodes that already existed; the "
                                                "evaluated container has %s items, so the ValueError due when the plan runs can no longer "
                                                "happen" % (st[1], "no" if items is None else len(items)))
                    else:
                        got = [self.canon(self.value(nd, memo) if id(nd) in self.ref else getattr(nd, "value", FAIL)) for nd in nds]
                        want = [self.canon(x) for x in items]
                        if got != want:
                            self.build_violation = ("plan.unpack(<a container with nodes in it>, %d) yields %s, the items of the evaluated "
                                                    "container are %s" % (st[1], got, want))
                    for nd in nds:
                        self.add_var(nd)
                    continue
                for i, nd in enumerate(nds):
                    self.ref[id(nd)] = ("item", o, st[1], i)
                    self.arg_deps[id(nd)] = acc
                    self.add_var(nd)
            elif op == "dep":
                a, b = self.nodes[st[1]], self.nodes[st[2]]
                plan.add_dependency(a, b)
                self.extra_deps.setdefault(id(b), []).append(a)
            else:
                raise ValueError(st)
        self.n_nodes = plan.graph.number_of_nodes()
        self.n_edges = plan.graph.number_of_edges()
        self.out = None if self.prog["out"] is None else self.mk(self.prog["out"])

    # --- the driver request
    def tok(self, pv, out):
        t = pv[0]
        if t in ("a", "i", "n"):
            out.append("%s%d" % (t, pv[1]))
        elif t in ("L", "T"):
            out.append("%s%d:%d" % (t, pv[1], len(pv[2])))
            for c in pv[2]:
                self.tok(c, out)
        elif t == "S":
            out.append("S%d:%d" % (pv[1], len(pv[2])))
            for i in self.set_order[pv[1]]:
                self.tok(pv[2][i], out)
        elif t == "D":
            out.append("D%d:%d" % (pv[1], len(pv[2])))
            for k, v in pv[2]:
                self.tok(k, out)
                self.tok(v, out)
        else:
            kind = pv[2]
            items = pv[3][0::2] if kind == "dict" else pv[3]          # iterating a dict subclass yields its keys
            out.append("O%d:%d:%d" % (pv[1], 0 if kind == "box" else 1, len(items)))
            for c in items:
                self.tok(c, out)

    def request(self):
        out = ["c02", "prog"]
        for st in self.prog["stmts"]:
            op = st[0]
            if op in ("lit", "gather"):
                out.append(op)
                self.tok(st[1], out)
            elif op == "call":
                out += ["call", str(st[1]), str(len(st[2])), str(len(st[3]))]
                for p in st[2]:
                    self.tok(p, out)
                for nm, p in st[3]:
                    out.append(nm)
                    self.tok(p, out)
            elif op == "unpack":
                out += ["unpack", str(st[1])]
                self.tok(st[2], out)
            else:
                out += ["dep", str(st[1]), str(st[2])]
        if self.prog["out"] is None:
            out.append("outnone")
        else:
            out.append("out")
            self.tok(self.prog["out"], out)
        return " ".join(out)

    # --- canonical form of a run-time value
    def tag(self, x):
        k = self.ids.get(id(x))
        return "#%d" % k if k is not None and self.objs[k] is x else "~"

    def canon(self, x):
        if x is FAIL:
            return "FAIL"
        if x is None:
            return "None"
        if isinstance(x, Atom):
            return "a%d" % x.k
        if type(x) is int:
            return "i%d" % x
        if isinstance(x, Node):
            v = self.var_of_node.get(id(x))
            return "N?" if v is None else "N%d" % v
        if isinstance(x, H):
            return "f%d(%s;%s)" % (x.f, ",".join(self.canon(a) for a in x.args),
                                   ",".join("%s=%s" % (n, self.canon(v)) for n, v in x.kwargs))
        if isinstance(x, OPAQUE):
            return "o" + self.tag(x)
        t = type(x)
        if t is list:
            return "L%s[%s]" % (self.tag(x), ",".join(self.canon(c) for c in x))
        if t is tuple:
            return "T()" if not x else "T%s(%s)" % (self.tag(x), ",".join(self.canon(c) for c in x))
        if t is set:
            return "S%s{%s}" % (self.tag(x), ",".join(sorted(self.canon(c) for c in x)))
        if t is dict:
            return "D%s{%s}" % (self.tag(x), ",".join("%s:%s" % (self.canon(k), self.canon(v)) for k, v in x.items()))
        return "?%s" % type(x).__name__

    # --- the monitor's reference: straightforward recursive evaluation on the supplied objects
    def direct(self, x, memo):
        """`x` with each Node replaced by its value; exact list/tuple/set/dict containing a Node are rebuilt,
        everything else is the very object."""
        if isinstance(x, Node):
            return self.value(x, memo)
        if not has_node(x):
            return x
        t = type(x)
        if t is dict:
            pairs = [(self.direct(k, memo), self.direct(v, memo)) for k, v in x.items()]
            if any(a is FAIL or b is FAIL for a, b in pairs):
                return FAIL
            try:
                out = dict(pairs)
            except TypeError:
                self.events["unhashable"] += 1
                return FAIL
            self.events["rebuilt"] += 1
            self.events["collapsed"] += len(out) < len(pairs)
            return out
        cs = [self.direct(c, memo) for c in x]
        if any(c is FAIL for c in cs):
            return FAIL
        try:
            out = t(cs)
        except TypeError:
            self.events["unhashable"] += 1
            return FAIL
        self.events["rebuilt"] += 1
        self.events["collapsed"] += len(out) < len(cs)
        return out

    def value(self, node, memo):
        k = id(node)
        if k in memo:
            return memo[k]
        r = self.ref[k]
        if r[0] == "lit":
            v = r[1]
        elif r[0] == "gather":
            v = self.direct(r[1], memo)
        elif r[0] == "call":
            args = [self.direct(a, memo) for a in r[2]]
            kws = [(n, self.direct(a, memo)) for n, a in r[3]]
            if any(a is FAIL for a in args) or any(a is FAIL for _, a in kws):
                v = FAIL
            else:
                v = H(r[1], tuple(args), tuple(kws))
        else:
            _, src, n, i = r
            s = self.direct(src, memo)
            v = FAIL
            if s is not FAIL:
                try:
                    items = list(iter(s))
                except TypeError:
                    items = None
                if i == 0:
                    self.events["unpack_type" if items is None else "unpack_ok" if len(items) == n else "unpack_len"] += 1
                if items is not None and len(items) == n:         # "unpack yields exactly the n items"
                    v = items[i]
        memo[k] = v
        return v

    def needed(self):
        if self.out is None:
            return []
        acc, seen, todo = [], set(), []
        node_deps(self.out, todo)
        while todo:
            nd = todo.pop()
            if id(nd) in seen:
                continue
            seen.add(id(nd))
            acc.append(nd)
            todo += self.arg_deps.get(id(nd), [])
            todo += self.extra_deps.get(id(nd), [])
        return acc

    def reference(self):
        """(canonical result, {var: canonical value of a needed user call})"""
        memo = {}
        if self.out is None:
            return "None", {}
        need = self.needed()
        vals = {id(nd): self.value(nd, memo) for nd in need}
        recs = {}
        for var in self.call_vars:
            nd = self.nodes[var]
            if id(nd) in vals and self.var_of_node[id(nd)] == var:
                recs[var] = self.canon(vals[id(nd)])
        if any(v is FAIL for v in vals.values()):
            return "FAIL", recs
        return self.canon(self.direct(self.out, memo)), recs

    # --- running the real thing
    def run(self, workers=1, scheduler=None, coop_seed=None):
        """(canonical result | 'EXC:<type>', {var: [canonical H...]}, note)"""
        self.rec.clear()
        kw = dict(output=self.out, max_workers=workers, scheduler=scheduler, progress=None)
        if workers == "bare":
            kw = dict(output=self.out)
        note = None
        if coop_seed is None:
            try:
                import contextlib
                import io
                with contextlib.redirect_stdout(io.StringIO()), contextlib.redirect_stderr(io.StringIO()):
                    res = self.canon(uberjob.run(self.plan, **kw))
            except uberjob.CallError:
                res = "FAIL"
            except Exception as e:  # anything else is not what C02 allows
                res = "EXC:%s:%s" % (type(e).__name__, str(e)[:80])
        else:
            r = coop.run_controlled(lambda: uberjob.run(self.plan, **kw), coop_seed, mode="prim", snapshots=False)
            if r.deadlock or r.hang:
                res, note = "EXC:no-termination", "deadlock" if r.deadlock else "step limit"
            elif isinstance(r.exc, uberjob.CallError):
                res = "FAIL"
            elif r.exc is not None:
                res = "EXC:%s:%s" % (type(r.exc).__name__, str(r.exc)[:80])
            else:
                res = self.canon(r.value)
        recs = {var: [self.canon(h) for h in hs] for var, hs in self.rec.items()}
        return res, recs, note


def parse_reply(line):
    """'ok res=<v> rec=<j>:<v>|... nodes=<n> edges=<e>' -> (res, {j: v}, n, e)"""
    if not line.startswith("ok "):
        return None
    parts = line.split(" ")
    d = {}
    for p in parts[1:]:
        k, _, v = p.partition("=")
        d[k] = v
    recs = {}
    if d.get("rec"):
        for item in d["rec"].split("|"):
            j, _, v = item.partition(":")
            recs[int(j)] = v
    return d.get("res"), recs, int(d.get("nodes", -1)), int(d.get("edges", -1))


# workers None = `max_workers` at its default; "bare" = `uberjob.run(plan, output=...)` with EVERY option at its default (the
# default pool, the default display - its output is swallowed -, the default scheduler)
CONFIGS_Q = [(2, "default", None), (8, "random", None), (3, "random", None), (2, None, 0), (3, "random", 1), (None, None, 2),
             ("bare", None, None)]
CONFIGS_T = [(2, "default", None), (8, "random", None), (3, "random", None), (1, "random", None),
             (2, None, 0), (3, "random", 1), (1, "default", 2), (4, "default", 3), (None, None, 2), (None, "random", None),
             ("bare", None, None)]


# ------------------------------------------------------------------------------------------------
# get_argument_nodes and _builtins.unpack against the model
# ------------------------------------------------------------------------------------------------

def gen_edge_case(rng):
    """(edges in insertion order, call id).  edge = (src, dst, key) with key = 'd' | ('p', i) | ('k', i, name)."""
    c = 9
    npos, nkw = rng.choice([0, 1, 2, 3, 4]), rng.choice([0, 1, 2, 3])
    names = rng.sample(NAMES, nkw)
    edges = [(rng.randrange(4), c, ("p", i)) for i in range(npos)] + [(rng.randrange(4), c, ("k", i, names[i])) for i in range(nkw)]
    kind = rng.random()
    if kind < 0.35:
        # ill-formed: drop / duplicate / shift an index, repeat a name
        for _ in range(rng.choice([1, 1, 2])):
            y = rng.random()
            if edges and y < 0.3:
                edges.pop(rng.randrange(len(edges)))
            elif y < 0.6:
                edges.append((rng.randrange(4), c, ("p", rng.randrange(5))))
            elif y < 0.9:
                edges.append((rng.randrange(4), c, ("k", rng.randrange(4), rng.choice(NAMES))))
            else:
                edges.append((rng.randrange(4), c, "d"))
    for _ in range(rng.choice([0, 0, 1, 2])):
        edges.append((rng.randrange(4), rng.choice([c, 8]), rng.choice(["d", ("p", 0), ("k", 0, "a")])))
    rng.shuffle(edges)
    out, seen = [], set()
    for e in edges:
        if e not in seen:
            seen.add(e)
            out.append(e)
    return out, c, kind >= 0.35


def edge_tok(e):
    s, d, k = e
    if k == "d":
        return "%d:%d:d" % (s, d)
    if k[0] == "p":
        return "%d:%d:p%d" % (s, d, k[1])
    return "%d:%d:k%d:%s" % (s, d, k[1], k[2])


def real_argnodes(edges, c, do_copy):
    g = ug.Graph()
    nodes = {i: ug.Call(len) for i in range(10)}
    ids = {id(n): i for i, n in nodes.items()}
    for i in range(10):
        g.add_node(nodes[i])
    for s, d, k in edges:
        key = ug.Dependency() if k == "d" else ug.PositionalArg(k[1]) if k[0] == "p" else ug.KeywordArg(k[2], k[1])
        g.add_edge(nodes[s], nodes[d], key)
    if do_copy:
        g = g.copy()
    order = []
    for s, d, key in g.in_edges(nodes[c], keys=True):
        k = "d" if type(key) is ug.Dependency else ("p", key.index) if type(key) is ug.PositionalArg else ("k", key.index, key.name)
        order.append((ids[id(s)], ids[id(d)], k))
    try:
        args, kwargs = ug.get_argument_nodes(g, nodes[c])
        if any(a is None for a in args):
            return "raise", order                      # result_lookup[None] raises in _create_bound_call
        return "args=%s kws=%s" % (",".join(str(ids[id(a)]) for a in args),
                                   ",".join("%s:%d" % (n, ids[id(a)]) for n, a in kwargs.items())), order
    except (IndexError, TypeError):
        return "raise", order
    except Exception as e:      # any other exception type is reported as a difference, not as a harness failure
        return "raise-" + type(e).__name__, order


class Lying:
    """an iterable whose `len()` is not the number of items it yields (a table whose len is its row count and whose
    iteration yields its column labels): `unpack` is about the ITEMS"""

    def __init__(self, items, reported):
        self.items, self.reported = items, reported

    def __len__(self):
        return self.reported

    def __iter__(self):
        return iter(range(self.items))


def identity_cases(only=None):
    """Plain things are passed ON AS THEY ARE, whatever they are:
    * callables that compare and hash EQUAL but are different objects with different behaviour (two calls, two functions);
    * a call's RESULT that is a one-shot object (a generator) with several consumers: each receives the very object;
    * a frozenset (and other containers `gather` does not know) that contains a node: handed on as the very object - it is not
      one of the four structures that are rebuilt;
    with and without `retry`, one and three workers."""
    import dataclasses
    viol, done = [], 0

    @dataclasses.dataclass(frozen=True)
    class Scale:
        k: object

        def __call__(self, x):
            return (type(self.k).__name__, self.k * x)

    for case in ([only] if only is not None else [[k, w, r] for k in ("equal-callables", "generator-result", "frozenset-argument")
                                                  for w in (1, 3) for r in (None, 2)]):
        kind, workers, retry = case
        plan = uberjob.Plan()
        what = None
        try:
            if kind == "equal-callables":
                a, b = Scale(2), Scale(2.0)              # equal, same hash, different behaviour (int vs float)
                assert a == b and hash(a) == hash(b)
                out = [plan.call(a, 3), plan.call(b, 3), plan.call(b, 5), plan.call(a, 5)]
                got = uberjob.run(plan, output=out, max_workers=workers, retry=retry, progress=None)
                want = [("int", 6), ("float", 6.0), ("float", 10.0), ("int", 10)]
                if got != want or [type(x[1]) for x in got] != [int, float, float, int]:
                    what = f"calls of equal-but-different callables returned {got}, their own functions give {want}"
            elif kind == "generator-result":
                made = []

                def produce():
                    g = (i for i in range(3))
                    made.append(g)
                    return g
                g = plan.call(produce)
                first = plan.call(lambda x: (type(x).__name__, id(x)), g)
                second = plan.call(lambda x: (type(x).__name__, id(x)), g)
                plan.add_dependency(first, second)
                got = uberjob.run(plan, output=[first, second], max_workers=workers, retry=retry, progress=None)
                want = [("generator", id(made[0]))] * 2
                if got != want:
                    what = f"two consumers of a call that returned a generator received {[x[0] for x in got]} (the very object: {[x[1] == id(made[0]) for x in got]})"
            else:
                x = plan.call(lambda: 1)
                fs = frozenset({x, 2})
                got = uberjob.run(plan, output=plan.call(lambda s: (type(s).__name__, s is fs), fs), max_workers=workers, retry=retry, progress=None)
                if got != ("frozenset", True):
                    what = f"a frozenset that contains a node, passed as an argument, arrived as {got} (type, the very object)"
        except Exception as e:      # noqa: BLE001
            what = f"raised {type(e).__name__}: {str(e)[:100]}"
        done += 1
        if what:
            viol.append({"property": "C02", "what": f"{kind}, {workers} worker(s), retry={retry}: {what}", "identity_case": case})
            break
    return viol, done


def explore_small(ctx, n_edges_cases):
    rng = random.Random(ctx.seed * 8191 + 3)
    dis, lines, cases = [], [], []
    for _ in range(n_edges_cases):
        edges, c, wf = gen_edge_case(rng)
        do_copy = rng.random() < 0.5
        impl, order = real_argnodes(edges, c, do_copy)
        # well-formed graphs: the model gets the edges in INSERTION order (the real in_edges order differs);
        # ill-formed ones (two sources for one index): in the order the real code iterates them
        send = edges if wf else order + [e for e in edges if e[1] != c]
        lines.append("c02 args %d %s" % (c, " ".join(edge_tok(e) for e in send)))
        cases.append(("args", edges, do_copy, impl))
    for n in range(0, 7):
        for ln in range(0, 10):
            outs = []
            for it in (list(range(ln)), iter(range(ln)), (x for x in range(ln)), Lying(ln, n), Lying(ln, ln + 3)):
                try:
                    t = _builtins.unpack(it, n)
                    outs.append("ok %d" % len(t) if t == tuple(range(ln)) else "wrong-items")
                except ValueError:
                    outs.append("raise")
            if ln > n:
                try:
                    _builtins.unpack(itertools.count(), n)      # an endless iterable must not hang
                    outs.append("ok-endless")
                except ValueError:
                    outs.append("raise")
            impl = outs[0] if len(set(outs)) == 1 else "mixed:" + "/".join(outs)
            lines.append("c02 unpack %d %d" % (n, ln))
            cases.append(("unpack", n, ln, impl))
    viol = []
    for cse in cases:
        if cse[0] == "unpack":
            _, n, ln, impl = cse
            want = "ok %d" % n if ln == n else "raise"
            if impl != want:
                viol.append({"property": "C02", "what": "unpack(iterable of %d items, %d) gave %s, expected %s" % (ln, n, impl, want),
                             "replay_unpack": [n, ln]})
    if ctx.driver is not None:
        out = ctx.driver.batch(lines)
        for cse, line, model in zip(cases, lines, out):
            if cse[-1] != model.strip():
                dis.append({"layer": "plan(" + cse[0] + ")", "request": line, "impl": cse[-1], "model": model})
                break
    return viol, dis, {"argnode_graphs": n_edges_cases, "argnode_raise": sum(1 for c in cases if c[0] == "args" and c[-1] == "raise"),
                       "unpack_cases": sum(1 for c in cases if c[0] == "unpack")}


# ------------------------------------------------------------------------------------------------
# entry points
# ------------------------------------------------------------------------------------------------

FIXED = [
    # keyword values created in a different order than passed; one node positionally and as the last keyword
    {"stmts": [["call", 0, [], []], ["call", 1, [], []], ["call", 2, [], []],
               ["call", 0, [], [["zz", ["n", 2]], ["k1", ["n", 1]], ["a", ["n", 0]]]],
               ["call", 1, [["n", 0]], [["k1", ["n", 1]], ["b", ["n", 0]]]]],
     "out": ["T", 1, [["n", 3], ["n", 4]]]},
    # one node under the first and the last keyword name (and positionally first and last), another node in between
    {"stmts": [["call", 0, [], []], ["call", 1, [], []],
               ["call", 2, [["n", 0], ["n", 1], ["n", 0]], [["c", ["n", 0]], ["a", ["n", 1]], ["b", ["n", 0]]]]],
     "out": ["n", 2]},
    # nodes as dict keys evaluating to equal values (first key object stays, last value wins); set collapsing
    {"stmts": [["lit", ["T", 1, [["a", 1]]]], ["lit", ["T", 2, [["a", 1]]]],
               ["gather", ["D", 3, [[["n", 0], ["a", 2]], [["n", 1], ["a", 3]]]]],
               ["gather", ["S", 4, [["n", 0], ["n", 1], ["a", 5]]]]],
     "out": ["L", 5, [["n", 2], ["n", 3], ["L", 6, [["a", 4]]], ["O", 7, "list", [["n", 0]]]]]},
    # unpack of every kind
    {"stmts": [["unpack", 2, ["L", 1, [["a", 1], ["a", 2]]]], ["unpack", 0, ["T", 2, []]],
               ["call", 0, [["n", 1], ["n", 0]], []]], "out": ["n", 2]},
    {"stmts": [["unpack", 2, ["L", 1, [["a", 1], ["a", 2], ["a", 3]]]]], "out": ["n", 0]},
    {"stmts": [["unpack", 2, ["L", 1, [["a", 1]]]]], "out": ["n", 1]},
    {"stmts": [["lit", ["a", 1]]], "out": None},
    {"stmts": [["lit", ["a", 1]]], "out": ["L", 1, [["a", 2], ["T", 2, [["a", 3]]]]]},
    # unpack applied DIRECTLY to a set / a dict that contains nodes: it is the EVALUATED container that is unpacked - two nodes
    # with equal values are one element of the set (then there are not 2 items), two node keys with equal values one key
    {"stmts": [["lit", ["T", 1, [["a", 1]]]], ["lit", ["T", 2, [["a", 1]]]], ["unpack", 2, ["S", 3, [["n", 0], ["n", 1]]]]], "out": ["n", 2]},
    {"stmts": [["lit", ["T", 1, [["a", 1]]]], ["lit", ["T", 2, [["a", 1]]]],
               ["unpack", 2, ["D", 3, [[["n", 0], ["a", 2]], [["n", 1], ["a", 3]]]]]], "out": ["n", 3]},
    {"stmts": [["lit", ["a", 1]], ["unpack", 1, ["D", 3, [[["n", 0], ["a", 2]]]]]], "out": ["n", 1]},
]


def explore(ctx):
    quick = ctx.tier == "quick"
    n_prog = 600 if quick else 20000
    configs = CONFIGS_Q if quick else CONFIGS_T
    rng = random.Random(ctx.seed * 1000003 + 2)
    viol, dis = [], []
    progs = [copy.deepcopy(p) for p in FIXED]
    for _ in range(n_prog):
        progs.append(Gen(rng, ctx.tier).program())
    cov = {"programs": 0, "runs": 0, "failed_runs": 0, "with_fresh_container": 0, "with_kept_identity": 0,
           "recorded_calls": 0, "with_unpack": 0, "with_kwargs": 0, "with_dep": 0, "with_opaque": 0, "with_set_or_dict": 0}
    distinct = set()
    CH = 400
    for base in range(0, len(progs), CH):
        chunk = progs[base:base + CH]
        # the request describes the very objects that are run (iteration order of the supplied sets), so the
        # sessions of a chunk are built first, the model is asked once per chunk, then each session is run
        sessions = []
        for p in chunk:
            try:
                sessions.append(Session(p))
            except Exception as e:  # building a generated program must not fail
                sessions.append(None)
                viol.append({"property": "C02", "what": "building the plan raised %s: %s" % (type(e).__name__, e), "prog": p})
        replies = [None] * len(chunk)
        if ctx.driver is not None:
            replies = ctx.driver.batch([s.request() if s is not None else "c02 prog outnone" for s in sessions])
        for p, s, rep in zip(chunk, sessions, replies):
            seed = rng.randrange(1 << 30)
            if s is None:
                continue
            if s.build_violation:
                viol.append({"property": "C02", "what": s.build_violation, "prog": p})
                continue
            v, d, st = check_session(s, p, rep, configs, seed)
            viol += v
            dis += d
            cov["programs"] += 1
            cov["runs"] += 1 + len(configs)
            cov["failed_runs"] += st["failed"]
            cov["with_fresh_container"] += st["fresh"]
            cov["with_kept_identity"] += st["kept"]
            cov["recorded_calls"] += st["rec"]
            for k, n in st["events"].items():
                cov["ev_" + k] = cov.get("ev_" + k, 0) + (n > 0)
            distinct.add(st["res"])
            txt = repr(p)
            cov["with_unpack"] += "'unpack'" in txt
            cov["with_kwargs"] += any(x[0] == "call" and x[3] for x in p["stmts"])
            cov["with_dep"] += "'dep'" in txt
            cov["with_opaque"] += "'O'" in txt
            cov["with_set_or_dict"] += "'S'" in txt or "'D'" in txt
            if len(viol) >= 3 or len(dis) >= 3:
                break
        if len(viol) >= 3 or len(dis) >= 3:
            break
    cov["distinct_nontrivial"] = len(distinct)
    v2, d2, c2 = explore_small(ctx, 300 if quick else 6000)
    viol += v2
    dis += d2
    cov.update(c2)
    if not viol:
        v3, n3 = identity_cases()
        viol += v3
        cov["identity_cases"] = n3
    cov["evaluations"] = cov["runs"]
    cov["rule"] = ("seeded programs over Plan.lit/call/gather/unpack/add_dependency with nested list/tuple/set/dict/opaque "
                   "values, shared and cloned sub-objects, nodes as set elements and dict keys, one node used several times, "
                   "keyword values created in another order than passed; each run with 1 worker, then 2/3/8 workers, both "
                   "schedulers and controlled schedules; result and per-call recordings compared with the Lean model and with a "
                   "recursive reference evaluator")
    cov["samples"] = [progs[len(FIXED)], progs[len(FIXED) + 1]] if len(progs) > len(FIXED) + 1 else progs[:1]
    for k in ("failed_runs", "with_fresh_container", "with_kept_identity", "with_unpack", "with_kwargs", "with_opaque",
              "with_set_or_dict", "ev_rebuilt", "ev_collapsed", "ev_unhashable", "ev_unpack_len", "ev_unpack_type", "ev_unpack_ok"):
        if cov["programs"] >= 300 and cov.get(k, 0) * 200 < cov["programs"]:
            dis.append({"layer": "generator-coverage", "what": "%s = %d of %d programs" % (k, cov[k], cov["programs"])})
    return {"violations": viol, "disagreements": dis, "coverage": cov}


def check_session(s, prog, model_reply, configs, seed):
    viol, dis = [], []
    ref_res, ref_recs = s.reference()
    res, recs, _ = s.run(1, None)
    allrec = res + "".join(h for hs in recs.values() for h in hs)
    stats = {"failed": res == "FAIL", "res": res, "rec": sum(len(v) for v in recs.values()),
             "fresh": "~" in allrec, "kept": "#" in allrec, "events": dict(s.events)}

    def compare(res_, recs_, what):
        if res_ != ref_res:
            return "%s: run returned %s, direct evaluation gives %s" % (what, res_, ref_res)
        for var, hs in recs_.items():
            if len(hs) == 1 and var in ref_recs and hs[0] != ref_recs[var]:
                return "%s: call v%d received/returned %s, direct evaluation gives %s" % (what, var, hs[0], ref_recs[var])
        if res_ != "FAIL":
            missing = sorted(set(ref_recs) - set(recs_))
            if missing:
                return "%s: needed calls never executed: %s" % (what, missing)
        return None

    w = compare(res, recs, "workers=1")
    if w:
        viol.append({"property": "C02", "what": w, "prog": prog, "config": [1, None, None]})
    if model_reply is not None:
        m = parse_reply(model_reply)
        bad = None
        if m is None:
            bad = "no reply"
        else:
            mres, mrecs, mn, me = m
            if mres != res:
                bad = "result: impl %s model %s" % (res, mres)
            elif (mn, me) != (s.n_nodes, s.n_edges):
                bad = "graph size: impl %s model %s" % ((s.n_nodes, s.n_edges), (mn, me))
            else:
                for var, hs in recs.items():
                    if len(hs) == 1 and mrecs.get(var) != hs[0]:
                        bad = "call v%d: impl %s model %s" % (var, hs[0], mrecs.get(var))
                        break
                if bad is None and res != "FAIL" and set(mrecs) != set(recs):
                    bad = "executed calls: impl %s model %s" % (sorted(recs), sorted(mrecs))
        if bad:
            dis.append({"layer": "plan(c02 prog)", "what": bad, "prog": prog, "request": s.request(), "model": model_reply})
    for wk, sch, cs in configs:
        cseed = None if cs is None else (seed * 7919 + cs * 104729 + 13) % (1 << 30)
        res2, recs2, _ = s.run(wk, sch, cseed)
        w = compare(res2, recs2, "workers=%s scheduler=%s%s" % (wk, sch, "" if cs is None else " schedule=%d" % cseed))
        if w is None and res2 != res:
            w = "result differs between runs: %s vs %s" % (res, res2)
        if w is None and res != "FAIL" and recs2 != recs:
            w = "recordings differ between runs (workers=%s scheduler=%s)" % (wk, sch)
        if w:
            viol.append({"property": "C02", "what": w, "prog": prog, "config": [wk, sch, cseed]})
            break
    return viol, dis, stats


def search(ctx, broken):
    """A proof or a correspondence is broken: run the monitors alone on more programs."""
    class C:
        pass
    for k in range(1, 4):
        c = C()
        c.__dict__.update(ctx.__dict__)
        c.seed = ctx.seed + 1000 * k
        c.driver = None
        res = explore(c)
        if res["violations"]:
            return res["violations"]
    return []


def replay(ctx, payload):
    w = payload.get("witness", payload)
    if "identity_case" in w:
        v, _ = identity_cases(only=w["identity_case"])
        return v[0]["what"] if v else None
    if "replay_unpack" in w:
        n, ln = w["replay_unpack"]
        try:
            t = _builtins.unpack(iter(range(ln)), n)
            got = "ok" if t == tuple(range(ln)) else "wrong-items"
        except ValueError:
            got = "raise"
        want = "ok" if ln == n else "raise"
        if got == want:
            # the same with iterables whose len() differs from the number of items they yield
            for rep in (n, ln + 3):
                try:
                    t = _builtins.unpack(Lying(ln, rep), n)
                    g2 = "ok" if t == tuple(range(ln)) else "wrong-items"
                except ValueError:
                    g2 = "raise"
                if g2 != want:
                    return "unpack(iterable of %d items whose len() says %d, %d) gave %s" % (ln, rep, n, g2)
        return None if got == want else "unpack(iterable of %d items, %d) gave %s" % (ln, n, got)
    if "prog" not in w:
        return None
    cfg = w.get("config") or [1, None, None]
    s = Session(w["prog"])
    ref_res, ref_recs = s.reference()
    res, recs, _ = s.run(cfg[0], cfg[1], cfg[2])
    if res != ref_res:
        return "run returned %s, direct evaluation gives %s" % (res, ref_res)
    for var, hs in recs.items():
        if len(hs) == 1 and var in ref_recs and hs[0] != ref_recs[var]:
            return "call v%d received/returned %s, direct evaluation gives %s" % (var, hs[0], ref_recs[var])
    res1, _, _ = s.run(1, None)
    if res1 != res:
        return "result differs between runs: %s vs %s" % (res1, res)
    return None


def explore_shard(ctx):
    """extra parallel shard of the thorough tier (generated programs; deterministic given the seed)"""
    return explore(ctx)
