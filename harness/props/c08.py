from harness import cache_explore as ce

GEN = ["Stale", "Engine"]
PROPS = {"C08"}
ASSUMPTIONS = [
    "call functions are deterministic (Herbrand terms); a store returns what was last written; every write gets a newer modified time",
    "a dependent source is written only by its private producer; every other predecessor of it is also upstream of the producer (DESIGN 7.7); dependent sources count as sources for 'from scratch'",
    "the idempotence clause is checked only when every pure source holds a value (DESIGN 7.8)",
    "the order/atomicity of store events inside one run (ancestors written first, reads after writes) is the subject of C09/C01/C04",
]


def explore(ctx):
    n = 200 if ctx.tier == "quick" else 5000
    res = ce.explore_cache(ctx, PROPS, n, steps=6)
    if not res["violations"]:
        from harness import c08_files
        f = c08_files.files_explore(ctx)
        res["violations"] += f["violations"]
        res["coverage"].update(f["coverage"])
    return res


def search(ctx, broken):
    class C:
        pass
    found = []
    for k in range(1, 4):
        c = C()
        c.__dict__.update(ctx.__dict__)
        c.seed = ctx.seed + 977 * k
        c.driver = None
        found += ce.explore_cache(c, PROPS, 400, steps=7)["violations"]
        if found:
            break
    return found


def replay(ctx, payload):
    w = payload.get("witness", payload)
    if w.get("replay_fn") == "files":
        from harness import c08_files
        return c08_files.files_explore(ctx, replay=w)
    return ce.replay_cache(ctx, w, PROPS)
