from harness import cache_explore as ce

GEN = ["Stale", "Engine"]
PROPS = {"C08"}
ASSUMPTIONS = [
    "call functions are deterministic (Herbrand terms); a store returns what was last written; every write gets a newer modified time",
    "a dependent source is written only by its private producer; every other predecessor of it is also upstream of the producer (DESIGN 7.7); dependent sources count as sources for 'from scratch'",
    "the idempotence clause is checked only when every pure source holds a value (DESIGN 7.8)",
    "the order/atomicity of store events inside one run (ancestors written first, reads after writes) is the subject of C09/C01/C04",
]


def phys_structure(ctx, res):
    """The end-to-end theorems of this property stand on the model of the physical plan (`physFinal`, `physEngine`): compare
    it, node by node and keyed edge by keyed edge, with the graphs the real dry run and the real run build (the structural
    half of C09's check; a deviation is a broken correspondence here too, and starts the search for a failing history)."""
    from harness.props import c09
    r = c09.explore_phys(ctx, 40 if ctx.tier == "quick" else 400, steps=3, structural=True, behavioural=False, salt=17)
    res["disagreements"] += r["disagreements"]
    res["coverage"]["phys_graph_comparisons"] = r["coverage"].get("comparisons", 0)


def explore(ctx):
    n = 200 if ctx.tier == "quick" else 5000
    res = ce.explore_cache(ctx, PROPS, n, steps=6)
    phys_structure(ctx, res)
    if not res["violations"]:
        from harness import c08_files
        f = c08_files.files_explore(ctx)
        res["violations"] += f["violations"]
        res["coverage"].update(f["coverage"])
    if not res["violations"]:
        # "the next run does not redo writes that completed", on the BUNDLED file stores: a rebuild whose values serialise to the
        # very bytes already on disk is a completed write like any other - the run after it must do nothing (shared with C05)
        from harness.props import c05
        f = c05.files_idempotence(ctx)
        for v in f["violations"]:
            v.update(property="C08", replay_fn="files_idempotence")
        res["violations"] += f["violations"]
        res["coverage"]["file_store_settled_rebuilds"] = f["coverage"].get("file_store_idempotence_cases", f["coverage"].get("files_idempotence_cases", 0))
    if not res["violations"]:
        # calls that work through side effects and are tied by add_dependency only (harness/c08_effects.py)
        from harness import c08_effects
        f = c08_effects.side_effect_cases(ctx)
        res["violations"] += f["violations"]
        res["coverage"].update(f["coverage"])
    return res


def search(ctx, broken):
    class C:
        pass
    found = []
    for k in range(1, 4):
        c = C()
        c.__dict__.update(ctx.__dict__)
        c.seed = ctx.seed + 977 * k
        c.driver = None
        found += ce.explore_cache(c, PROPS, 400, steps=7)["violations"]
        if not found:
            found += ce.explore_cache(c, PROPS, 400, steps=7, stress=True)["violations"]
        if found:
            break
    if not found:
        from harness import c08_effects
        found += c08_effects.side_effect_cases(ctx)["violations"]
    return found


def replay(ctx, payload):
    w = payload.get("witness", payload)
    if w.get("replay_fn") == "files_idempotence":
        from harness.props import c05
        r = c05.files_idempotence(ctx, replay=w)
        return r["violations"][0]["what"] if r["violations"] else None
    if w.get("replay_fn") == "side_effects":
        from harness import c08_effects
        r = c08_effects.side_effect_cases(ctx, replay=w)
        return r["violations"][0]["what"] if r["violations"] else None
    if w.get("replay_fn") == "files":
        from harness import c08_files
        return c08_files.files_explore(ctx, replay=w)
    return ce.replay_cache(ctx, w, PROPS)


def explore_shard(ctx):
    """extra parallel shard of the thorough tier: the seeded histories (cooperative scheduler, logical clock)"""
    return ce.explore_cache(ctx, PROPS, 5000, steps=6)
