import random

from harness.props._engine_common import make

GEN = ["Engine", "Queues"]


def queue_diff(ctx, replay=None):
    """T2: the transcribed RandomQueue._put/_get (Lean) vs the real class, with random.randrange pinned."""
    import uberjob._execution.scheduler as sch
    rng = random.Random(ctx.seed * 17 + 1)
    n = 300 if ctx.tier == "quick" else 6000
    lines, want = [], []
    real_randrange = sch.random.randrange
    real_shuffle = sch.random.shuffle
    try:
        for _ in range(n):
            q0 = [rng.randrange(50) for _ in range(rng.randint(0, 7))]
            item, r = rng.randrange(50), rng.randrange(1000)
            sch.random.shuffle = lambda l: None
            q = sch.RandomQueue(q0)
            sch.random.randrange = lambda k, _r=r: _r % k
            q._put(item)
            lines.append("rq put %s | %d %d" % (" ".join(map(str, q0)), item, r))
            want.append(" ".join(map(str, q.queue)))
            before = list(q.queue)
            got = q._get()
            lines.append("rq get %s" % " ".join(map(str, before)))
            want.append("%d | %s" % (got, " ".join(map(str, q.queue))))
    finally:
        sch.random.randrange = real_randrange
        sch.random.shuffle = real_shuffle
    dis = []
    if ctx.driver is not None:
        for line, w, g in zip(lines, want, ctx.driver.batch(lines)):
            if w.strip() != g.strip():
                dis.append({"layer": "random-queue", "request": line, "impl": w, "model": g})
                break
    return {"violations": [], "disagreements": dis, "coverage": {"random_queue_ops": len(lines)}}


def pqueue_ops(seed, n_ops):
    """one random operation sequence for the priority heap: initial items, then puts and gets; priorities are a small range so
    that ties are common, absent items get -1 (the DONE sentinel's priority), as in create_queue"""
    rng = random.Random(seed)
    prio = {v: rng.randrange(-1, 6) for v in range(40) if rng.random() < 0.8}
    init = [rng.randrange(40) for _ in range(rng.choice((0, 1, 2, 3, 5, 8, 13)))]
    ops = [("put", rng.randrange(40)) if rng.random() < 0.55 else ("get",) for _ in range(n_ops)]
    return prio, init, ops


def pqueue_play(prio, init, ops):
    """Play the sequence on the real PriorityQueue.  Returns (driver lines, expected replies, conservation violation or None):
    whatever the model says, the real heap must hold exactly the items put and not yet got, and get must return one of them."""
    import collections
    import uberjob._execution.scheduler as sch
    show = lambda q: " ".join("%d:%d" % (kv.key, kv.value) for kv in q.queue)
    pr = lambda v: prio.get(v, -1)
    lines, want = [], []
    lines.append("pq heapify " + " ".join("%d:%d" % (pr(v), v) for v in init))
    q = sch.PriorityQueue(init, pr)
    want.append(show(q))
    bag = collections.Counter(init)
    for k, op in enumerate(ops):
        before = show(q)
        if op[0] == "put":
            q._put(op[1])
            bag[op[1]] += 1
            lines.append("pq push %s | %d:%d" % (before, pr(op[1]), op[1]))
            want.append(show(q))
        else:
            if q._qsize() == 0:
                continue
            got = q._get()
            lines.append("pq pop " + before)
            want.append("%d:%d | %s" % (pr(got), got, show(q)))
            if bag[got] <= 0:
                return lines, want, f"operation {k}: _get returned {got}, which is not in the queue"
            bag[got] -= 1
        have = collections.Counter(kv.value for kv in q.queue)
        if have != +bag or q._qsize() != sum(bag.values()):
            return lines, want, (f"operation {k} ({op[0]}): the heap holds {sorted(have.elements())}, "
                                 f"the items put and not yet taken are {sorted(bag.elements())}")
    return lines, want, None


def pqueue_diff(ctx, only=None):
    """T2: the transcribed heapq algorithms behind PriorityQueue (Lean, `PQueue`) vs the real class (C `_heapq`), whole
    list compared after construction and after every `_put` / `_get`; and conservation judged on the real class itself."""
    n = 60 if ctx.tier == "quick" else 1500
    seeds = [only] if only is not None else [ctx.seed * 7919 + i for i in range(n)]
    lines, want, viol, sizes = [], [], [], []
    for sd in seeds:
        prio, init, ops = pqueue_ops(sd, 14 if ctx.tier == "quick" else 30)
        l, w, bad = pqueue_play(prio, init, ops)
        lines += l
        want += w
        sizes.append(len(init))
        if bad:
            viol.append({"property": "C04", "what": "PriorityQueue (scheduler='default') lost or duplicated an item: " + bad,
                         "replay_fn": "pqueue", "pq_seed": sd})
            break
    dis = []
    if ctx.driver is not None:
        for line, w, g in zip(lines, want, ctx.driver.batch(lines)):
            if w.strip() != g.strip():
                dis.append({"layer": "priority-queue", "request": line, "impl": w, "model": g})
                break
    return {"violations": viol, "disagreements": dis,
            "coverage": {"priority_queue_ops": len(lines), "priority_queue_sequences": len(seeds),
                         "priority_queue_max_initial": max(sizes) if sizes else 0}}


def equal_constant_cases(only=None):
    """Two nodes are not the same node because they hold equal constants: a literal that something must WAIT for (the target
    of add_dependency) next to an unrelated call that is given an equal constant.  Asking for the unrelated call must not run
    what the literal waits for."""
    import uberjob
    viol, done = [], 0
    for const in (0, 1, "x", None, True, 1.5, b"b"):
        for scoped in (False, True):
            if only and [repr(const), scoped] != list(only):
                continue
            ran = []
            plan = uberjob.Plan()

            def build():
                w = plan.call(lambda: ran.append("write_file"))
                lit = plan.lit(const)
                plan.add_dependency(w, lit)
                a = plan.call(lambda v: ran.append("use") or v, lit)
                label = plan.call(lambda v: ran.append("label") or v, const)
                return a, label
            if scoped:
                with plan.scope("s"):
                    a, label = build()
            else:
                a, label = build()
            got = uberjob.run(plan, output=label, progress=None, max_workers=1)
            done += 1
            if sorted(ran) != ["label"] or got != const:
                viol.append({"property": "C04", "what": f"constant {const!r}{' in a scope' if scoped else ''}: asking for a call that is given "
                             f"the constant executed {sorted(ran)}; needed: ['label']", "replay_fn": "equal-constant",
                             "const_case": [repr(const), scoped]})
                continue
            del ran[:]
            uberjob.run(plan, output=a, progress=None, max_workers=1)
            if sorted(ran) != ["use", "write_file"]:
                viol.append({"property": "C04", "what": f"constant {const!r}: asking for the consumer of the literal executed {sorted(ran)}; "
                             "needed: ['use', 'write_file']", "replay_fn": "equal-constant", "const_case": [repr(const), scoped]})
    return viol, done


def extras(ctx, replay=None):
    """the queue differential, and - for `C04_runs_exactly_needed` - histories of real runs WITH a registry in which the calls
    executed by every successful run are compared with `Needed` evaluated on the plan (cache_explore.needed_calls)"""
    from harness import cache_explore as ce
    if replay is not None:
        if replay.get("replay_fn") == "equal-constant":
            v, _ = equal_constant_cases(only=replay["const_case"])
            return v[0]["what"] if v else None
        if replay.get("replay_fn") == "pqueue":
            v = pqueue_diff(ctx, only=replay["pq_seed"])["violations"]
            return v[0]["what"] if v else None
        if "spec" in replay and "hseed" in replay:
            return ce.replay_cache(ctx, replay, {"C04"})
        return None
    a = queue_diff(ctx)
    b = pqueue_diff(ctx)
    a["violations"] += b["violations"]
    a["disagreements"] += b["disagreements"]
    a["coverage"].update(b["coverage"])
    v, n = equal_constant_cases()
    a["violations"] += v[:2]
    a["coverage"]["equal_constant_cases"] = n
    h = ce.explore_cache(ctx, {"C04"}, 90 if ctx.tier == "quick" else 1500, steps=5)
    a["violations"] += h["violations"]
    for v in a["violations"]:
        v.setdefault("replay_fn", "cache-history")
    a["disagreements"] += h["disagreements"]
    a["coverage"].update({"registry_histories": h["coverage"].get("histories", 0), "registry_runs_ok": h["coverage"].get("runs_ok", 0)})
    return a


explore, search, replay = make({"C04"}, extra=extras)
