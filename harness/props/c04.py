import random

from harness.props._engine_common import make

GEN = ["Engine", "Queues"]


def queue_diff(ctx, replay=None):
    """T2: the transcribed RandomQueue._put/_get (Lean) vs the real class, with random.randrange pinned."""
    import uberjob._execution.scheduler as sch
    rng = random.Random(ctx.seed * 17 + 1)
    n = 300 if ctx.tier == "quick" else 6000
    lines, want = [], []
    real_randrange = sch.random.randrange
    real_shuffle = sch.random.shuffle
    try:
        for _ in range(n):
            q0 = [rng.randrange(50) for _ in range(rng.randint(0, 7))]
            item, r = rng.randrange(50), rng.randrange(1000)
            sch.random.shuffle = lambda l: None
            q = sch.RandomQueue(q0)
            sch.random.randrange = lambda k, _r=r: _r % k
            q._put(item)
            lines.append("rq put %s | %d %d" % (" ".join(map(str, q0)), item, r))
            want.append(" ".join(map(str, q.queue)))
            before = list(q.queue)
            got = q._get()
            lines.append("rq get %s" % " ".join(map(str, before)))
            want.append("%d | %s" % (got, " ".join(map(str, q.queue))))
    finally:
        sch.random.randrange = real_randrange
        sch.random.shuffle = real_shuffle
    dis = []
    if ctx.driver is not None:
        for line, w, g in zip(lines, want, ctx.driver.batch(lines)):
            if w.strip() != g.strip():
                dis.append({"layer": "random-queue", "request": line, "impl": w, "model": g})
                break
    return {"violations": [], "disagreements": dis, "coverage": {"random_queue_ops": len(lines)}}


def equal_constant_cases(only=None):
    """Two nodes are not the same node because they hold equal constants: a literal that something must WAIT for (the target
    of add_dependency) next to an unrelated call that is given an equal constant.  Asking for the unrelated call must not run
    what the literal waits for."""
    import uberjob
    viol, done = [], 0
    for const in (0, 1, "x", None, True, 1.5, b"b"):
        for scoped in (False, True):
            if only and [repr(const), scoped] != list(only):
                continue
            ran = []
            plan = uberjob.Plan()

            def build():
                w = plan.call(lambda: ran.append("write_file"))
                lit = plan.lit(const)
                plan.add_dependency(w, lit)
                a = plan.call(lambda v: ran.append("use") or v, lit)
                label = plan.call(lambda v: ran.append("label") or v, const)
                return a, label
            if scoped:
                with plan.scope("s"):
                    a, label = build()
            else:
                a, label = build()
            got = uberjob.run(plan, output=label, progress=None, max_workers=1)
            done += 1
            if sorted(ran) != ["label"] or got != const:
                viol.append({"property": "C04", "what": f"constant {const!r}{' in a scope' if scoped else ''}: asking for a call that is given "
                             f"the constant executed {sorted(ran)}; needed: ['label']", "replay_fn": "equal-constant",
                             "const_case": [repr(const), scoped]})
                continue
            del ran[:]
            uberjob.run(plan, output=a, progress=None, max_workers=1)
            if sorted(ran) != ["use", "write_file"]:
                viol.append({"property": "C04", "what": f"constant {const!r}: asking for the consumer of the literal executed {sorted(ran)}; "
                             "needed: ['use', 'write_file']", "replay_fn": "equal-constant", "const_case": [repr(const), scoped]})
    return viol, done


def extras(ctx, replay=None):
    """the queue differential, and - for `C04_runs_exactly_needed` - histories of real runs WITH a registry in which the calls
    executed by every successful run are compared with `Needed` evaluated on the plan (cache_explore.needed_calls)"""
    from harness import cache_explore as ce
    if replay is not None:
        if replay.get("replay_fn") == "equal-constant":
            v, _ = equal_constant_cases(only=replay["const_case"])
            return v[0]["what"] if v else None
        if "spec" in replay and "hseed" in replay:
            return ce.replay_cache(ctx, replay, {"C04"})
        return None
    a = queue_diff(ctx)
    v, n = equal_constant_cases()
    a["violations"] += v[:2]
    a["coverage"]["equal_constant_cases"] = n
    h = ce.explore_cache(ctx, {"C04"}, 90 if ctx.tier == "quick" else 1500, steps=5)
    a["violations"] += h["violations"]
    for v in a["violations"]:
        v.setdefault("replay_fn", "cache-history")
    a["disagreements"] += h["disagreements"]
    a["coverage"].update({"registry_histories": h["coverage"].get("histories", 0), "registry_runs_ok": h["coverage"].get("runs_ok", 0)})
    return a


explore, search, replay = make({"C04"}, extra=extras)
