import random

from harness.props._engine_common import make

GEN = ["Engine", "Queues"]


def queue_diff(ctx, replay=None):
    """T2: the transcribed RandomQueue._put/_get (Lean) vs the real class, with random.randrange pinned."""
    import uberjob._execution.scheduler as sch
    rng = random.Random(ctx.seed * 17 + 1)
    n = 300 if ctx.tier == "quick" else 6000
    lines, want = [], []
    real_randrange = sch.random.randrange
    real_shuffle = sch.random.shuffle
    try:
        for _ in range(n):
            q0 = [rng.randrange(50) for _ in range(rng.randint(0, 7))]
            item, r = rng.randrange(50), rng.randrange(1000)
            sch.random.shuffle = lambda l: None
            q = sch.RandomQueue(q0)
            sch.random.randrange = lambda k, _r=r: _r % k
            q._put(item)
            lines.append("rq put %s | %d %d" % (" ".join(map(str, q0)), item, r))
            want.append(" ".join(map(str, q.queue)))
            before = list(q.queue)
            got = q._get()
            lines.append("rq get %s" % " ".join(map(str, before)))
            want.append("%d | %s" % (got, " ".join(map(str, q.queue))))
    finally:
        sch.random.randrange = real_randrange
        sch.random.shuffle = real_shuffle
    dis = []
    if ctx.driver is not None:
        for line, w, g in zip(lines, want, ctx.driver.batch(lines)):
            if w.strip() != g.strip():
                dis.append({"layer": "random-queue", "request": line, "impl": w, "model": g})
                break
    return {"violations": [], "disagreements": dis, "coverage": {"random_queue_ops": len(lines)}}


explore, search, replay = make({"C04"}, extra=queue_diff)
