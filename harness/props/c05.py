from harness import cache_explore as ce

GEN = ["Stale", "Engine"]
PROPS = {"C05"}
ASSUMPTIONS = [
    "call functions are deterministic (Herbrand terms); a store returns what was last written; every write gets a newer modified time",
    "a dependent source is written only by its private producer; every other predecessor of it is also upstream of the producer (DESIGN 7.7); dependent sources count as sources for 'from scratch'",
    "the idempotence clause is checked only when every pure source holds a value (DESIGN 7.8)",
    "the order/atomicity of store events inside one run (ancestors written first, reads after writes) is the subject of C09/C01/C04",
]


def files_idempotence(ctx, replay=None):
    """C05's last clause on the BUNDLED file stores (the in-memory stores of the histories tick a logical clock on every
    write; whether a real store's modified time moves on every completed write is a fact about the store): build; make the
    source newer WITHOUT changing its content (or advance fresh_time), so that the rebuilt values serialise to the very
    bytes already on disk; rebuild; a third run must perform no call, no read and no write."""
    import os
    import random
    import tempfile
    import time

    import uberjob
    from uberjob.stores import BinaryFileStore, JsonFileStore, PickleFileStore, TextFileStore, TouchFileStore
    rng = random.Random(ctx.seed * 13 + 1)
    kinds = {"json": (JsonFileStore, lambda v: ["x", v]), "pickle": (PickleFileStore, lambda v: ("x", v)),
             "text": (TextFileStore, lambda v: "x%s" % (v,)), "binary": (BinaryFileStore, lambda v: b"x" + repr(v).encode()),
             "touch": (TouchFileStore, lambda v: None),
             # EMPTY values are values: a zero-length file is a stored value like any other
             "text-empty": (TextFileStore, lambda v: ""), "binary-empty": (BinaryFileStore, lambda v: b"")}
    cases = [replay["files_case"]] if replay else [(k, how, w) for k in kinds for how in ("touch-source", "fresh-time")
                                                   for w in (rng.choice([1, 3]),)]
    viol, done = [], 0
    for kind, how, workers in cases:
        S, f = kinds[kind]
        with tempfile.TemporaryDirectory() as d:
            calls, ops = [], []

            class Rec(S):                    # counts the store operations without changing them
                def read(self):
                    ops.append(("read", os.path.basename(self.path)))
                    return super().read()

                def write(self, value):
                    ops.append(("write", os.path.basename(self.path)))
                    return super().write(value)
            Rec.__name__ = Rec.__qualname__ = S.__name__

            def build():
                plan, reg = uberjob.Plan(), uberjob.Registry()
                src = reg.source(plan, TextFileStore(os.path.join(d, "src.txt")))

                def fa(v):
                    calls.append("a")
                    return f(v)

                def fb(v):
                    calls.append("b")
                    return f(repr(v))
                a = plan.call(fa, src)
                reg.add(a, Rec(os.path.join(d, "a.dat")))
                b = plan.call(fb, a)
                reg.add(b, Rec(os.path.join(d, "b.dat")))
                return plan, reg

            def run(fresh=None):
                del calls[:], ops[:]
                plan, reg = build()
                uberjob.run(plan, registry=reg, progress=None, max_workers=workers, fresh_time=fresh)
                return list(calls), list(ops)
            with open(os.path.join(d, "src.txt"), "w") as fh:
                fh.write("input")
            time.sleep(0.02)
            first = run()
            time.sleep(0.02)
            fresh = None
            if how == "touch-source":
                with open(os.path.join(d, "src.txt"), "w") as fh:      # same content, newer modified time
                    fh.write("input")
            else:
                import datetime as dt
                fresh = dt.datetime.now()
            time.sleep(0.02)
            second = run(fresh)
            time.sleep(0.02)
            third = run(fresh)
            done += 1
            case = [kind, how, workers]
            if sorted(second[0]) != ["a", "b"]:
                viol.append({"property": "C05", "what": f"{kind} stores, {how}: the out-of-date stored values were not both rebuilt "
                             f"(calls {second[0]}, store operations {second[1]})", "replay_fn": "files", "files_case": case})
            elif third[0] or third[1]:
                viol.append({"property": "C05", "what": f"{kind} stores, {how}: a run repeated right after a successful rebuild (whose values "
                             f"serialise to the bytes already on disk) performed calls {third[0]} and store operations {third[1]}",
                             "replay_fn": "files", "files_case": case})
            if viol:
                break
    return {"violations": viol, "disagreements": [], "coverage": {"file_store_idempotence_cases": done}}


def path_source_cases(ctx, replay=None):
    """A bundled PathSource upstream of a stored value: when the file behind the path changes (the path given as str, as
    pathlib.Path, or being a symbolic link to the file), the stored value is out of date and is rebuilt — once."""
    import os
    import pathlib
    import tempfile
    import time

    import uberjob
    from uberjob.stores import JsonFileStore, PathSource
    viol, done = [], 0
    # "...-reused": the SAME Plan, Registry and PathSource objects serve all three runs (a store object must not remember
    # what it saw in an earlier run)
    cases = [replay["path_case"]] if replay else ["str", "pathlib", "symlink", "symlink-pathlib", "str-reused", "symlink-pathlib-reused"]
    for kind0 in cases:
        reused = kind0.endswith("-reused")
        kind = kind0[:-len("-reused")] if reused else kind0
        with tempfile.TemporaryDirectory() as d:
            data = os.path.join(d, "data.txt")
            with open(data, "w") as fh:
                fh.write("v1")
            p = data
            if kind.startswith("symlink"):
                p = os.path.join(d, "latest")
                os.symlink(data, p)
            if kind.endswith("pathlib"):
                p = pathlib.Path(p)
            calls = []

            def build():
                plan, reg = uberjob.Plan(), uberjob.Registry()
                src = reg.source(plan, PathSource(p))

                def load(path):
                    calls.append("load")
                    with open(path) as fh:
                        return fh.read()
                a = plan.call(load, src)
                reg.add(a, JsonFileStore(os.path.join(d, "a.json")))
                return plan, reg, a

            shared = []

            def run():
                del calls[:]
                if reused:
                    if not shared:
                        shared.append(build())
                    plan, reg, a = shared[0]
                else:
                    plan, reg, a = build()
                return uberjob.run(plan, registry=reg, output=a, progress=None), list(calls)
            time.sleep(0.02)
            r1 = run()
            time.sleep(0.02)
            with open(data, "w") as fh:                       # the file behind the path changes, in place
                fh.write("v2")
            time.sleep(0.02)
            r2 = run()
            r3 = run()
            done += 1
            if r1 != ("v1", ["load"]) or r2 != ("v2", ["load"]) or r3 != ("v2", []):
                viol.append({"property": "C05", "what": f"PathSource given as {kind}{' (the same Plan / Registry / PathSource objects in all runs)' if reused else ''}: "
                             f"run / change the file / run / run gave "
                             f"{[r1, r2, r3]}, expected [('v1', ['load']), ('v2', ['load']), ('v2', [])]",
                             "replay_fn": "path_source", "path_case": kind0})
                break
    return {"violations": viol, "disagreements": [], "coverage": {"path_source_cases": done}}


def dir_source_cases(ctx, replay=None):
    """A PathSource on a DIRECTORY: a file removed from it, or copied into it with its old modified time (`shutil.copy2`), changes
    the directory - what is stored downstream of the source is out of date and is rebuilt, once."""
    import os
    import shutil
    import tempfile
    import time

    import uberjob
    from uberjob.stores import JsonFileStore, PathSource
    viol, done = [], 0
    for kind in ([replay["dir_case"]] if replay else ["delete", "copy2", "rename"]):
        with tempfile.TemporaryDirectory() as d:
            src_dir, other = os.path.join(d, "input"), os.path.join(d, "elsewhere")
            os.makedirs(src_dir)
            os.makedirs(other)
            for name in ("a.txt", "b.txt"):
                with open(os.path.join(src_dir, name), "w") as fh:
                    fh.write(name)
            with open(os.path.join(other, "c.txt"), "w") as fh:
                fh.write("c")
            old = time.time() - 86400
            os.utime(os.path.join(other, "c.txt"), (old, old))
            calls = []

            def run():
                del calls[:]
                plan, reg = uberjob.Plan(), uberjob.Registry()
                src = reg.source(plan, PathSource(src_dir))

                def listing(path):
                    calls.append("list")
                    return sorted(os.listdir(path))
                a = plan.call(listing, src)
                reg.add(a, JsonFileStore(os.path.join(d, "a.json")))
                return uberjob.run(plan, registry=reg, output=a, progress=None), list(calls)
            time.sleep(0.02)
            r1 = run()
            time.sleep(0.02)
            if kind == "delete":
                os.remove(os.path.join(src_dir, "b.txt"))
                want = ["a.txt"]
            elif kind == "copy2":
                shutil.copy2(os.path.join(other, "c.txt"), os.path.join(src_dir, "c.txt"))
                want = ["a.txt", "b.txt", "c.txt"]
            else:
                os.rename(os.path.join(src_dir, "b.txt"), os.path.join(src_dir, "z.txt"))
                want = ["a.txt", "z.txt"]
            time.sleep(0.02)
            r2 = run()
            r3 = run()
            done += 1
            if r1 != (["a.txt", "b.txt"], ["list"]) or r2 != (want, ["list"]) or r3 != (want, []):
                viol.append({"property": "C05", "what": f"PathSource on a directory, {kind} of a file in it between runs: run / change / run / run gave "
                             f"{[r1, r2, r3]}, expected the listing {want} after one rebuild", "replay_fn": "dir_source", "dir_case": kind})
                break
    return {"violations": viol, "disagreements": [], "coverage": {"dir_source_cases": done}}


def special_source_cases(ctx, replay=None):
    """Sources at the edges of "has a modified time": a source that never has one (LiteralSource(v, None),
    ModifiedTimeSource(None)) is out of date in every run, so whatever is stored downstream of it is rebuilt in every run and
    follows its value; a source FILE whose modified time is the Unix epoch itself (timestamp 0) HAS a modified time - an old
    one - so nothing downstream is rebuilt on its account."""
    import os
    import tempfile

    import uberjob
    from uberjob.stores import JsonFileStore, LiteralSource, ModifiedTimeSource, PathSource
    viol, done = [], 0
    cases = [replay["source_case"]] if replay else ["timeless-literal", "timeless-mts", "epoch-file", "epoch-file-optional"]
    for kind in cases:
        with tempfile.TemporaryDirectory() as d:
            calls = []
            if kind.startswith("epoch-file"):
                data = os.path.join(d, "data.txt")
                with open(data, "w") as fh:
                    fh.write("v1")
                os.utime(data, (0, 0))
                store = PathSource(data, required=(kind == "epoch-file"))
            elif kind == "timeless-literal":
                store = LiteralSource(3, None)
            else:
                store = ModifiedTimeSource(None)

            def run():
                del calls[:]
                plan, reg = uberjob.Plan(), uberjob.Registry()
                src = reg.source(plan, store)

                def f(v):
                    calls.append("f")
                    if kind.startswith("epoch-file"):
                        with open(v) as fh:
                            return fh.read()
                    return [v, 6]
                a = plan.call(f, src)
                reg.add(a, JsonFileStore(os.path.join(d, "a.json")))
                try:
                    return uberjob.run(plan, registry=reg, output=a, progress=None), list(calls)
                except Exception as e:      # noqa: BLE001
                    return "raised %s: %s" % (type(e).__name__, str(e)[:80]), list(calls)
            r1 = run()
            if kind == "timeless-literal":
                store.value = 5
            r2 = run()
            done += 1
            if kind == "timeless-literal":
                want = [([3, 6], ["f"]), ([5, 6], ["f"])]
            elif kind == "timeless-mts":
                want = [([None, 6], ["f"]), ([None, 6], ["f"])]
            else:
                want = [("v1", ["f"]), ("v1", [])]
            if [r1, r2] != want:
                viol.append({"property": "C05", "what": f"{kind}: two runs gave {[r1, r2]}, expected {want}",
                             "replay_fn": "special_source", "source_case": kind})
                break
    return {"violations": viol, "disagreements": [], "coverage": {"special_source_cases": done}}


def zoned_source_cases(ctx, replay=None):
    """Sources that report an AWARE modified time (ModifiedTimeSource, LiteralSource) next to file stores (which report naive
    local times), with the process in a zone east and in a zone west of UTC: a source one hour NEWER than the stored value makes
    it out of date, one an hour OLDER does not - whatever the zone.  (The process zone is switched with `time.tzset()` and
    restored.)"""
    import datetime as dt
    import os
    import tempfile
    import time

    import uberjob
    from uberjob.stores import JsonFileStore, LiteralSource, ModifiedTimeSource
    viol, done = [], 0
    cases = [replay["zoned_case"]] if replay else [[tz, cls, newer] for tz in ("UJT-9", "UJW8") for cls in ("mts", "lit") for newer in (True, False)]
    old_tz = os.environ.get("TZ")
    try:
        for tz, cls, newer in cases:
            os.environ["TZ"] = tz
            time.tzset()
            with tempfile.TemporaryDirectory() as d:
                calls = []
                now = dt.datetime.now(dt.timezone.utc)
                early = now - dt.timedelta(hours=2)

                def run(when):
                    del calls[:]
                    plan, reg = uberjob.Plan(), uberjob.Registry()
                    store = ModifiedTimeSource(when) if cls == "mts" else LiteralSource("v", when)
                    src = reg.source(plan, store)
                    a = plan.call(lambda v: (calls.append("f"), 1)[1], src)
                    reg.add(a, JsonFileStore(os.path.join(d, "a.json")))
                    uberjob.run(plan, registry=reg, output=a, progress=None)
                    return list(calls)
                first = run(early)                      # builds a.json now; the source is two hours old
                second = run(now + dt.timedelta(hours=1) if newer else now - dt.timedelta(hours=1))
                done += 1
                want = ["f"] if newer else []
                if first != ["f"] or second != want:
                    viol.append({"property": "C05", "what": f"TZ={tz}, {'ModifiedTimeSource' if cls == 'mts' else 'LiteralSource'} reporting an aware time one "
                                 f"hour {'after' if newer else 'before'} the stored file was written: the second run executed {second}, expected {want}",
                                 "replay_fn": "zoned_source", "zoned_case": [tz, cls, newer]})
                    break
    finally:
        if old_tz is None:
            os.environ.pop("TZ", None)
        else:
            os.environ["TZ"] = old_tz
        time.tzset()
    return {"violations": viol, "disagreements": [], "coverage": {"zoned_source_cases": done}}


def phys_structure(ctx, res):
    """The end-to-end theorems of this property stand on the model of the physical plan (`physFinal`, `physEngine`): compare
    it, node by node and keyed edge by keyed edge, with the graphs the real dry run and the real run build (the structural
    half of C09's check; a deviation is a broken correspondence here too, and starts the search for a failing history)."""
    from harness.props import c09
    r = c09.explore_phys(ctx, 40 if ctx.tier == "quick" else 400, steps=3, structural=True, behavioural=False, salt=17)
    res["disagreements"] += r["disagreements"]
    res["coverage"]["phys_graph_comparisons"] = r["coverage"].get("comparisons", 0)


def explore(ctx):
    n = 110 if ctx.tier == "quick" else 4000
    res = ce.explore_cache(ctx, PROPS, n, steps=6)
    from harness.props.c08 import phys_structure
    phys_structure(ctx, res)
    if not res["violations"]:
        f = files_idempotence(ctx)
        res["violations"] += f["violations"]
        res["coverage"].update(f["coverage"])
        if not res["violations"]:
            f = special_source_cases(ctx)
            res["violations"] += f["violations"]
            res["coverage"].update(f["coverage"])
        if not res["violations"]:
            f = path_source_cases(ctx)
            res["violations"] += f["violations"]
            res["coverage"].update(f["coverage"])
        if not res["violations"]:
            f = dir_source_cases(ctx)
            res["violations"] += f["violations"]
            res["coverage"].update(f["coverage"])
        if not res["violations"]:
            f = zoned_source_cases(ctx)
            res["violations"] += f["violations"]
            res["coverage"].update(f["coverage"])
    return res


def search(ctx, broken):
    class C:
        pass
    found = []
    for k in range(1, 4):
        c = C()
        c.__dict__.update(ctx.__dict__)
        c.seed = ctx.seed + 977 * k
        c.driver = None
        found += ce.explore_cache(c, PROPS, 400, steps=7)["violations"]
        if not found:
            found += ce.explore_cache(c, PROPS, 400, steps=7, stress=True)["violations"]
        if found:
            break
    return found


def replay(ctx, payload):
    w = payload.get("witness", payload)
    if w.get("replay_fn") == "special_source":
        r = special_source_cases(ctx, replay=w)
        return r["violations"][0]["what"] if r["violations"] else None
    if w.get("replay_fn") == "dir_source":
        r = dir_source_cases(ctx, replay=w)
        return r["violations"][0]["what"] if r["violations"] else None
    if w.get("replay_fn") == "zoned_source":
        r = zoned_source_cases(ctx, replay=w)
        return r["violations"][0]["what"] if r["violations"] else None
    if w.get("replay_fn") == "path_source":
        r = path_source_cases(ctx, replay=w)
        return r["violations"][0]["what"] if r["violations"] else None
    if w.get("replay_fn") == "files":
        r = files_idempotence(ctx, replay=w)
        return r["violations"][0]["what"] if r["violations"] else None
    return ce.replay_cache(ctx, w, PROPS)


def explore_shard(ctx):
    """extra parallel shard of the thorough tier: the seeded histories (cooperative scheduler, logical clock)"""
    return ce.explore_cache(ctx, PROPS, 4000, steps=6)
