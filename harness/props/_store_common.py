"""Shared by harness/props/c11.py and c12.py: value generators, value (de)serialisation for replay files, strict
equality, the content hash shared with the Lean driver, store factories, and the file-operation recorder that wraps
`builtins.open` / `os.replace` / `os.remove` FROM THE HARNESS (no change to /repo)."""
from __future__ import annotations

import builtins
import codecs
import contextlib
import datetime as dt
import decimal
import fractions
import locale
import math
import os
import pathlib
import shutil
import tempfile

from uberjob.stores import (BinaryFileStore, JsonFileStore, PickleFileStore, TextFileStore, TouchFileStore)
from uberjob.stores._file_store import get_modified_time
from uberjob.stores._mounted_store import MountedStore

SCRATCH = "/tmp/verif-c11c12-%d" % os.getpid()     # per process: concurrent checks must not clean up each other
STAGING_SUFFIX = ".STAGING"          # the harness's own expectation; the model's comes from T1
DEFAULT_ENCODING = locale.getencoding()


# ------------------------------------------------------------------------------------------------------------------
# content hash (same as Uberjob.FileStoreDrv.hashBytes / TextCodecDrv.hashNats)
# ------------------------------------------------------------------------------------------------------------------

def hash_nats(xs):
    h = 7
    for x in xs:
        h = (h * 257 + x + 1) % 1000000007
    return h


def show_content(b):
    return "-" if b is None else "%d:%d" % (len(b), hash_nats(b))


# ------------------------------------------------------------------------------------------------------------------
# values: tagged JSON for replay files, strict equality
# ------------------------------------------------------------------------------------------------------------------

class Point:
    """a picklable (by reference) user class"""

    def __init__(self, x, y):
        self.x, self.y = x, y

    def __eq__(self, o):
        return type(o) is Point and strict_eq(self.x, o.x) and strict_eq(self.y, o.y)

    def __hash__(self):
        return 1

    def __repr__(self):
        return f"Point({self.x!r}, {self.y!r})"


class Unserialisable:
    """neither JSON-serialisable nor picklable (instance attribute holding a lambda)"""

    def __init__(self):
        self.f = lambda: 1

    def __reduce__(self):
        raise TypeError("Unserialisable cannot be pickled")


def enc_value(v):
    if v is None or isinstance(v, bool):
        return v
    if isinstance(v, int):
        return {"t": "int", "v": str(v)}
    if isinstance(v, float):
        return {"t": "float", "v": v.hex() if math.isfinite(v) else repr(v)}
    if isinstance(v, complex):
        return {"t": "complex", "v": [enc_value(v.real), enc_value(v.imag)]}
    if isinstance(v, str):
        return {"t": "str", "v": [ord(c) for c in v]} if len(v) <= 4096 else {"t": "bigstr", "v": [ord(c) for c in v[:64]], "n": len(v)}
    if isinstance(v, (bytes, bytearray)):
        return {"t": type(v).__name__, "v": bytes(v).hex()} if len(v) <= 4096 else {"t": "bigbytes", "v": bytes(v[:64]).hex(), "n": len(v)}
    if isinstance(v, (list, tuple, set, frozenset)):
        items = list(v)
        if isinstance(v, (set, frozenset)):
            items = sorted(items, key=repr)
        return {"t": type(v).__name__, "v": [enc_value(x) for x in items]}
    if isinstance(v, dict):
        return {"t": "dict", "v": [[enc_value(k), enc_value(x)] for k, x in v.items()]}
    if isinstance(v, Point):
        return {"t": "Point", "v": [enc_value(v.x), enc_value(v.y)]}
    if isinstance(v, Unserialisable):
        return {"t": "Unserialisable"}
    if isinstance(v, dt.datetime):
        return {"t": "datetime", "v": v.isoformat()}
    if isinstance(v, decimal.Decimal):
        return {"t": "Decimal", "v": str(v)}
    if isinstance(v, fractions.Fraction):
        return {"t": "Fraction", "v": str(v)}
    if isinstance(v, range):
        return {"t": "range", "v": [v.start, v.stop, v.step]}
    return {"t": "repr", "v": repr(v)}


def dec_value(j):
    if j is None or isinstance(j, bool):
        return j
    t, v = j["t"], j.get("v")
    if t == "int":
        return int(v)
    if t == "float":
        return float.fromhex(v) if v not in ("inf", "-inf", "nan") else float(v)
    if t == "complex":
        return complex(dec_value(v[0]), dec_value(v[1]))
    if t == "str":
        return "".join(chr(c) for c in v)
    if t == "bigstr":
        p = "".join(chr(c) for c in v)
        return (p * (j["n"] // max(1, len(p)) + 1))[:j["n"]]
    if t in ("bytes", "bytearray"):
        return bytes.fromhex(v) if t == "bytes" else bytearray(bytes.fromhex(v))
    if t == "bigbytes":
        p = bytes.fromhex(v)
        return (p * (j["n"] // max(1, len(p)) + 1))[:j["n"]]
    if t in ("list", "tuple", "set", "frozenset"):
        return {"list": list, "tuple": tuple, "set": set, "frozenset": frozenset}[t](dec_value(x) for x in v)
    if t == "dict":
        return {dec_value(k): dec_value(x) for k, x in v}
    if t == "Point":
        return Point(dec_value(v[0]), dec_value(v[1]))
    if t == "Unserialisable":
        return Unserialisable()
    if t == "datetime":
        return dt.datetime.fromisoformat(v)
    if t == "Decimal":
        return decimal.Decimal(v)
    if t == "Fraction":
        return fractions.Fraction(v)
    if t == "range":
        return range(*v)
    raise ValueError("cannot rebuild value " + repr(j)[:100])


def strict_eq(a, b):
    """equal value OF THE SAME TYPE, recursively (1 == 1.0 == True does not count)"""
    if type(a) is not type(b):
        return False
    if isinstance(a, (list, tuple)):
        return len(a) == len(b) and all(strict_eq(x, y) for x, y in zip(a, b))
    if isinstance(a, dict):
        if len(a) != len(b) or list(map(repr, a.keys())) != list(map(repr, b.keys())):     # json/pickle keep the order
            return False
        return all(strict_eq(ka, kb) and strict_eq(va, vb) for (ka, va), (kb, vb) in zip(a.items(), b.items()))
    if isinstance(a, (set, frozenset)):
        return len(a) == len(b) and sorted(map(repr, a)) == sorted(map(repr, b))
    if isinstance(a, float):
        return a == b or (math.isnan(a) and math.isnan(b))
    return a == b


def brief(v, n=80):
    r = repr(v)
    return r if len(r) <= n else r[:n] + "...(%d)" % len(r)


# ------------------------------------------------------------------------------------------------------------------
# generators
# ------------------------------------------------------------------------------------------------------------------

LINE_TERMINATORS = ["\n", "\r", "\r\n", "\x0b", "\x0c", "\x1c", "\x1d", "\x1e", "\x85", "\u2028", "\u2029"]
ENCODINGS = [None, "utf-8", "utf-16", "latin-1"]


def encodable(s, encoding):
    try:
        s.encode(encoding or DEFAULT_ENCODING)
        return True
    except UnicodeEncodeError:
        return False


def gen_char(rng, encoding, allow_surrogate=False):
    """one code point from a randomly chosen class, inside the repertoire of `encoding`"""
    latin = encoding == "latin-1"
    k = rng.random()
    if k < 0.30:
        return rng.choice(LINE_TERMINATORS if not latin else [t for t in LINE_TERMINATORS if ord(t[0]) < 256])
    if k < 0.42:
        return chr(rng.choice(list(range(0, 32)) + [127] + list(range(128, 160))))       # C0, DEL, C1 controls
    if k < 0.65:
        return chr(rng.randint(32, 126))
    if k < 0.75 or latin:
        return chr(rng.randint(160, 255))
    if allow_surrogate and k < 0.78:
        return chr(rng.randint(0xD800, 0xDFFF))
    if k < 0.90:
        c = rng.randint(0x100, 0xFFFF)
        return chr(c) if not 0xD800 <= c <= 0xDFFF else "\ufffd"
    return chr(rng.randint(0x10000, 0x10FFFF))


def gen_text(rng, encoding, max_len=40, allow_surrogate=False):
    n = rng.choice([0, 1, 2, 3, 5, 8, 13, max_len])
    return "".join(gen_char(rng, encoding, allow_surrogate) for _ in range(n))


def systematic_texts(encoding):
    """every line terminator alone, doubled, between letters, and every ordered pair of terminators"""
    lts = [t for t in LINE_TERMINATORS if encodable(t, encoding)]
    out = ["", "a", "\r\n\r", "\r\r\n", "\n\r", "a\rb", "a\r\nb", "\r", "\r\n", "line1\nline2\n", "\x00", "\x1a", "\ufeff", "\ufeffa"]
    for t in lts:
        out += [t, t + t, "a" + t + "b", t + "a", "a" + t]
    for a in lts:
        for b in lts:
            out.append(a + b)
            out.append("x" + a + "y" + b + "z")
    return [s for s in out if encodable(s, encoding)]


def big_text(rng, encoding, n):
    unit = "".join(gen_char(rng, encoding) for _ in range(997))
    return (unit * (n // len(unit) + 1))[:n]


def gen_bytes(rng, max_len=40):
    n = rng.choice([0, 1, 2, 3, 8, max_len])
    if rng.random() < 0.3:
        return bytes(rng.choice([10, 13, 0, 255, 26, 0x85]) for _ in range(n))
    return bytes(rng.randrange(256) for _ in range(n))


def has_surrogate_pair(s):
    """a high surrogate immediately followed by a low one: json.dumps escapes them separately and json.loads joins
    them into ONE astral character - such a str is outside the domain on which json round-trips"""
    return any(0xD800 <= ord(a) <= 0xDBFF and 0xDC00 <= ord(b) <= 0xDFFF for a, b in zip(s, s[1:]))


def gen_json_text(rng, n):
    while True:
        s = gen_text(rng, "utf-8", n, allow_surrogate=rng.random() < 0.2)
        if not has_surrogate_pair(s):
            return s


def gen_json(rng, depth=0):
    """JSON values as the harness defines them: None | bool | int | finite float | str | list of JSON values |
    dict with str keys and JSON values, where a str may contain lone surrogates but no high surrogate immediately
    followed by a low one.  (Tuples, non-str keys, NaN/Infinity, surrogate PAIRS are outside: json turns tuples into
    lists, coerces keys to str, NaN != NaN, and an escaped surrogate pair is read back as one astral character.)"""
    k = rng.random()
    if depth >= 5 or k < 0.55:
        c = rng.randrange(7)
        if c == 0:
            return None
        if c == 1:
            return rng.random() < 0.5
        if c == 2:
            return rng.choice([0, 1, -1, 2 ** 31, -2 ** 63, 10 ** 30, rng.randint(-10 ** 6, 10 ** 6)])
        if c == 3:
            return rng.choice([0.0, -0.0, 1.5, 1e300, 5e-324, 0.1, -2.5e-7, rng.uniform(-1e9, 1e9)])
        return gen_json_text(rng, 12)
    if k < 0.78:
        return [gen_json(rng, depth + 1) for _ in range(rng.randint(0, 4))]
    d = {}
    for _ in range(rng.randint(0, 4)):
        d[gen_json_text(rng, 6)] = gen_json(rng, depth + 1)
    return d


def nested_json(depth):
    v = "leaf\r\n"
    for i in range(depth):
        v = [v] if i % 2 else {"k\r%d" % i: v}
    return v


def gen_picklable(rng, depth=0):
    k = rng.random()
    if depth >= 4 or k < 0.5:
        c = rng.randrange(12)
        if c == 0:
            return None
        if c == 1:
            return rng.random() < 0.5
        if c == 2:
            return rng.choice([0, -1, 2 ** 100, rng.randint(-10 ** 9, 10 ** 9)])
        if c == 3:
            return rng.choice([0.0, -0.0, float("inf"), float("-inf"), float("nan"), 1e-310, rng.uniform(-1, 1)])
        if c == 4:
            return complex(rng.uniform(-1, 1), rng.uniform(-1, 1))
        if c == 5:
            return gen_bytes(rng)
        if c == 6:
            return bytearray(gen_bytes(rng, 8))
        if c == 7:
            return dt.datetime(2020, 1, 1) + dt.timedelta(seconds=rng.randint(0, 10 ** 8), microseconds=rng.randint(0, 999999))
        if c == 8:
            return decimal.Decimal(rng.randint(-10 ** 6, 10 ** 6)) / decimal.Decimal(1000)
        if c == 9:
            return fractions.Fraction(rng.randint(-99, 99), rng.randint(1, 99))
        if c == 10:
            return range(rng.randint(-5, 5), rng.randint(5, 50), rng.randint(1, 3))
        return gen_text(rng, "utf-8", 12, allow_surrogate=True)
    if k < 0.62:
        return [gen_picklable(rng, depth + 1) for _ in range(rng.randint(0, 4))]
    if k < 0.74:
        return tuple(gen_picklable(rng, depth + 1) for _ in range(rng.randint(0, 4)))
    if k < 0.82:
        return frozenset(rng.randint(0, 20) for _ in range(rng.randint(0, 4)))
    if k < 0.88:
        return {rng.choice(["a", 1, (1, 2), None, 2.5]): gen_picklable(rng, depth + 1) for _ in range(rng.randint(0, 3))}
    if k < 0.94:
        return Point(gen_picklable(rng, depth + 1), gen_picklable(rng, depth + 1))
    return {gen_text(rng, "utf-8", 5, True): gen_picklable(rng, depth + 1) for _ in range(rng.randint(0, 3))}


# ------------------------------------------------------------------------------------------------------------------
# stores
# ------------------------------------------------------------------------------------------------------------------

STORE_CLASSES = {"TextFileStore": TextFileStore, "BinaryFileStore": BinaryFileStore, "JsonFileStore": JsonFileStore,
                 "PickleFileStore": PickleFileStore, "TouchFileStore": TouchFileStore}
TEXT_MODE = {"TextFileStore", "JsonFileStore"}


def make_store(cls_name, path, encoding=None, pathlib_path=False):
    p = pathlib.Path(path) if pathlib_path else str(path)
    cls = STORE_CLASSES[cls_name]
    if cls_name in TEXT_MODE:
        return cls(p, encoding=encoding)
    return cls(p)


class ShutilMountedStore(MountedStore):
    """a MountedStore whose remote side is a file in another directory, copied with shutil"""

    def __init__(self, create_store, remote_path):
        super().__init__(create_store)
        self.remote_path = remote_path

    def copy_from_local(self, local_path):
        shutil.copyfile(local_path, self.remote_path)

    def copy_to_local(self, local_path):
        shutil.copyfile(self.remote_path, local_path)

    def get_modified_time(self):
        return get_modified_time(self.remote_path)


@contextlib.contextmanager
def scratch_dir(tag="d"):
    os.makedirs(SCRATCH, exist_ok=True)
    d = tempfile.mkdtemp(prefix=tag + "-", dir=SCRATCH)
    try:
        yield d
    finally:
        shutil.rmtree(d, ignore_errors=True)


def cleanup_scratch():
    shutil.rmtree(SCRATCH, ignore_errors=True)


def exc_class(e):
    """the three classes the model distinguishes"""
    if isinstance(e, OSError):
        return "o"
    if isinstance(e, Exception):
        return "e"
    return "b"


# ------------------------------------------------------------------------------------------------------------------
# the file-operation recorder
# ------------------------------------------------------------------------------------------------------------------

class Injected:
    """marker mixin so that injected exceptions can be told from natural ones"""


class InjOSError(OSError, Injected):
    pass


class InjTypeError(TypeError, Injected):
    pass


class InjKeyboardInterrupt(KeyboardInterrupt, Injected):
    pass


class InjPermissionError(PermissionError, Injected):
    """an OSError of a SPECIFIC kind (code that special-cases PermissionError / FileExistsError ... takes another path)"""


INJ = {"o": InjOSError, "e": InjTypeError, "b": InjKeyboardInterrupt, "p": InjPermissionError}
DIE_CODE = 66


class Recorder:
    """Counts the file operations (open for writing, write, close, os.replace, os.remove) on paths below `root`
    and injects faults: `faults` = {op index: ("r", exc class letter, partial) | ("d", partial)}.
    `partial` = 0: the operation has no effect; > 0: open creates/truncates the file, write writes its first unit,
    close closes — then the fault happens."""

    def __init__(self, root, faults=None):
        self.root = os.path.realpath(root) + os.sep
        self.faults = dict(faults or {})
        self.ops = []           # names, in call order
        self.chunks = []        # data passed to write()
        self.paths = []         # (op, path[, path2]) for open/replace/remove
        self.count = 0
        self.natural_faults = {}    # op index -> exception class letter, for operations that failed by themselves
        self.die_hook = None    # called right before os._exit (the forked child reports what it did so far)
        self._orig = None

    def mine(self, p):
        try:
            return os.path.realpath(os.fspath(p)).startswith(self.root)
        except TypeError:
            return False

    def _op(self, name, perform, partial_perform=None):
        i = self.count
        self.count += 1
        self.ops.append(name)
        f = self.faults.get(i)
        if f is None:
            return perform()
        if f[0] == "d":
            if f[1] and partial_perform is not None:
                partial_perform()
            if self.die_hook is not None:
                self.die_hook()
            os._exit(DIE_CODE)
        _, cls, partial = f
        if partial and partial_perform is not None:
            partial_perform()
        raise INJ[cls]("injected fault at op %d (%s)" % (i, name))

    # ---- patched entry points
    def open(self, file, mode="r", *args, **kwargs):
        if isinstance(file, (str, bytes, os.PathLike)) and any(c in mode for c in "wxa+") and self.mine(file):
            self.paths.append(("open", os.fspath(file), mode, dict(kwargs)))

            def perform():
                return FileProxy(self, self._orig["open"](file, mode, *args, **kwargs))

            def partial():
                self._orig["open"](file, mode if "b" in mode else "w").close()     # created / truncated, then the failure

            return self._op("open", perform, partial)
        return self._orig["open"](file, mode, *args, **kwargs)

    def replace(self, src, dst, *a, **k):
        if self.mine(src):
            self.paths.append(("replace", os.fspath(src), os.fspath(dst)))
            return self._op("replace", lambda: self._orig["replace"](src, dst, *a, **k))     # atomic: no partial effect
        return self._orig["replace"](src, dst, *a, **k)

    def remove(self, path, *a, **k):
        if self.mine(path):
            self.paths.append(("remove", os.fspath(path)))
            return self._op("remove", lambda: self._orig["remove"](path, *a, **k))
        return self._orig["remove"](path, *a, **k)

    def rename(self, src, dst, *a, **k):
        # the unchanged library never calls os.rename / os.unlink; a change that does gets them counted (and faulted) too
        if self.mine(src):
            self.paths.append(("rename", os.fspath(src), os.fspath(dst)))
            return self._op("rename", lambda: self._orig["rename"](src, dst, *a, **k))
        return self._orig["rename"](src, dst, *a, **k)

    def unlink(self, path, *a, **k):
        if self.mine(path):
            self.paths.append(("remove", os.fspath(path)))
            return self._op("remove", lambda: self._orig["unlink"](path, *a, **k))
        return self._orig["unlink"](path, *a, **k)

    def __enter__(self):
        self._orig = {"open": builtins.open, "replace": os.replace, "remove": os.remove, "rename": os.rename,
                      "unlink": os.unlink}
        builtins.open, os.replace, os.remove = self.open, self.replace, self.remove
        os.rename, os.unlink = self.rename, self.unlink
        return self

    def __exit__(self, *a):
        builtins.open, os.replace, os.remove = self._orig["open"], self._orig["replace"], self._orig["remove"]
        os.rename, os.unlink = self._orig["rename"], self._orig["unlink"]
        return False


class FileProxy:
    def __init__(self, rec, f):
        self._rec, self._f, self._closed = rec, f, False

    def write(self, data):
        rec = self._rec

        def perform():
            try:
                return self._f.write(data)
            except BaseException as e:
                # a NATURAL failure of the real write (e.g. UnicodeEncodeError): nothing reached the file; for the
                # model it is a fault of this very operation without effect
                rec.natural_faults[len(rec.ops) - 1] = exc_class(e)
                raise

        def partial():
            self._f.write(data[:1])

        rec.chunks.append(data)
        return rec._op("write", perform, partial)

    def close(self):
        if self._closed:
            return
        self._closed = True

        def really():
            self._f.close()

        try:
            return self._rec._op("close", really, really)
        finally:
            if not self._f.closed:
                try:
                    self._f.close()         # never leak the descriptor (the model's close has no visible effect)
                except Exception:
                    pass

    def __enter__(self):
        return self

    def __exit__(self, *a):
        self.close()

    def __getattr__(self, name):
        return getattr(self._f, name)


def encode_chunks(chunks, text_mode, encoding):
    """the bytes each observed `write` call contributes to the file (text mode: incremental encoder, as TextIOWrapper)"""
    if not text_mode:
        return [bytes(c) for c in chunks]
    if not chunks:
        return []
    enc = codecs.getincrementalencoder(encoding or DEFAULT_ENCODING)()
    out = []
    for c in chunks:
        try:
            out.append(enc.encode(c))
        except UnicodeEncodeError:
            out.append(b"")             # this write failed by itself, nothing reached the file
    return out
