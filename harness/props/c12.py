"""C12 — stores return what was written and report modified times faithfully.   (claimed: proof, PARTIAL)

T2 with the REAL stores in temp directories under /tmp/verif-c11c12-<pid> and seeded generators.

PROVED in Lean (Props/C12.lean) and only cross-checked here: newline handling of TextFileStore for the `newline=`
arguments T1 reads from the source; BinaryFileStore/TouchFileStore; MountedStore; modified times — all on top of the
staged-write model of C11.  ASSUMED in Lean and therefore only SAMPLED here: CPython's text codecs, json and pickle
round-trip on their domains (`Encoding.Roundtrip`, `TextSer.Roundtrip`, `TextSer.NoCR`, `Codec.Roundtrip`).

What is compared:
* text: for every generated string the Lean driver (`text rt <enc> gen gen`) predicts whether it can be encoded, the
  EXACT bytes on disk (length + hash) and the EXACT string `read()` returns; all three are compared with the real store
  (equality with the prediction, not only a round trip); raw external content (`text dec gen`) checks the read side alone.
  Strings: every line terminator (\\n \\r \\r\\n \\x0b \\x0c \\x1c-\\x1e \\x85 U+2028 U+2029) alone, doubled, embedded
  and in every ordered pair; C0/C1 controls; BOM; astral; lone surrogates (must raise UnicodeEncodeError, nothing
  stored, no staging file); empty; ~1 MB.  Encodings None(=locale, utf-8 here)/utf-8/utf-16/latin-1, characters
  restricted to the repertoire.
* JSON values = None | bool | int | finite float | str | list of JSON values | dict with str keys (tuples, non-str keys,
  NaN, and strings with a high surrogate immediately followed by a low one are outside: json turns them into something
  else by design - the last one comes back as ONE astral character); picklable objects; bytes; None (touch).
* equality is type-strict and recursive (1 == 1.0 == True does not count).
* str and pathlib paths; directly and through two MountedStore subclasses (shutil copies; uberjob._testing's).
* get_modified_time: None exactly when nothing is stored; over sequences of completing / failing writes (serialiser
  errors, injected OSError at a random operation) compared with the model (`fs seq`): before each attempt the target's
  mtime is set to a known past instant with os.utime (no sleeps), so "changed" is observable exactly; plus back-to-back
  real writes without utime (non-decreasing).
"""
from __future__ import annotations

import datetime as dt
import json
import os
import random

from harness import json_model
from harness.props import _store_common as sc
from harness.props._store_common import Recorder, Unserialisable, dec_value, enc_value, strict_eq
from uberjob._testing import TestMountedFileStore
from uberjob.stores import LiteralSource, ModifiedTimeSource, PathSource

GEN = ["TextCodec", "FileStore"]
ASSUMPTIONS = [
    "PARTIAL: pickle (dump/load), float(repr(x)) == x, and text codecs other than utf-8 / utf-16 / latin-1 round-trip on their domains - "
    "hypotheses of the Lean theorems, validated by the sampled runs only (json on every JSON value - floats as the text that denotes them - "
    "and the three codecs are modelled and proved; CPython's recursion limit and its 4300-digit int<->str limit are outside the model)",
    "os.linesep == '\\n' (POSIX); a monotone file-system clock; getmtime reflects the last completed content change",
    "JSON domain: None | bool | int | finite float | str without a high surrogate immediately followed by a low one | "
    "list | dict with str keys; equality is type-strict (json reads an escaped surrogate PAIR back as one astral character)",
]
TRUSTED_EXTRA = ["harness/gen/filestore.py (newline=/encoding= arguments of the stores' open calls)",
                 "harness/props/_store_common.py (generators, strict equality, Recorder)"]

ENC_NAME = {None: sc.DEFAULT_ENCODING.lower(), "utf-8": "utf-8", "utf-16": "utf-16", "latin-1": "latin-1"}
PAST = 1_000_000_000            # seconds; base of the mtimes set with os.utime


def cps(s):
    return " ".join(str(ord(c)) for c in s)


def show_str(s):
    """as Uberjob.TextCodecDrv.showStr"""
    if len(s) <= 4096:
        return cps(s)
    return "#%d:%d" % (len(s), sc.hash_nats(ord(c) for c in s))


def staging_left(d):
    return sorted(n for n in os.listdir(d) if n.endswith(sc.STAGING_SUFFIX) or ".STAGING" in n)


# ------------------------------------------------------------------------------------------------------------------
# round trips
# ------------------------------------------------------------------------------------------------------------------

def build_store(d, w):
    """the store of witness `w` in directory `d` (direct, or mounted over a second directory)"""
    path = os.path.join(d, "value")
    if w.get("mounted") == "shutil":
        remote = os.path.join(d, "remote")
        return sc.ShutilMountedStore(lambda p: sc.make_store(w["store"], p, w.get("encoding"), w["pathlib"]), remote), remote
    if w.get("mounted") == "testing":
        return TestMountedFileStore(lambda p: sc.make_store(w["store"], p, w.get("encoding"), w["pathlib"])), None
    return sc.make_store(w["store"], path, w.get("encoding"), w["pathlib"]), path


def roundtrip(w, value):
    """write then read on the real store; returns (status, read-back value or exception name, bytes on disk, staging left)"""
    with sc.scratch_dir("c12") as d:
        store, file_path = build_store(d, w)
        if w.get("pre") and file_path is not None and not w.get("mounted"):
            # the path already holds something else (another store's file, a hand-edited marker ...)
            with open(file_path, "wb") as f:
                f.write(bytes.fromhex(w["pre"]))
        try:
            store.write(value)
        except Exception as e:      # noqa: BLE001
            exists = file_path is not None and os.path.exists(file_path)
            return "write-error", type(e).__name__, (b"" if exists else None), staging_left(d), store.get_modified_time()
        data = None
        if file_path is not None and os.path.exists(file_path):
            with open(file_path, "rb") as f:
                data = f.read()
        mt = store.get_modified_time()
        try:
            got = store.read()
        except Exception as e:      # noqa: BLE001
            return "read-error", type(e).__name__ + ": " + str(e)[:100], data, staging_left(d), mt
        return "ok", got, data, staging_left(d), mt


def witness(store, encoding, pathlib_path, mounted, value):
    return {"kind": "roundtrip", "store": store, "encoding": encoding, "pathlib": pathlib_path, "mounted": mounted,
            "value": enc_value(value)}


def check_roundtrip(w, value, expect_write_error=None):
    """the property monitor: read after write returns an equal value of the same type (or, for a value outside the
    store's domain, the write raises the expected error and stores nothing)"""
    status, got, data, left, mt = roundtrip(w, value)
    out = []
    if expect_write_error is not None:
        if status != "write-error" or got != expect_write_error:
            out.append("expected %s from write, got %s %s" % (expect_write_error, status, sc.brief(got)))
        if data is not None:
            out.append("a failing write left something at the target")
        if mt is not None:
            out.append("get_modified_time is not None although nothing is stored")
    elif status != "ok":
        out.append("%s: %s" % (status, got))
    else:
        if not strict_eq(got, value):
            out.append("read after write returned %s (%s) for %s (%s)" % (
                sc.brief(got), type(got).__name__, sc.brief(value), type(value).__name__))
        if mt is None:
            out.append("get_modified_time is None right after a completed write")
    if left:
        out.append("staging file left behind: %s" % left)
    return out, (status, got, data)


def text_cases(rng, n_random, big_n):
    cases = []
    for enc in sc.ENCODINGS:
        for s in sc.systematic_texts(enc):
            cases.append((enc, s))
        for _ in range(n_random):
            cases.append((enc, sc.gen_text(rng, enc, 60)))
        for _ in range(max(3, n_random // 10)):
            cases.append((enc, sc.gen_text(rng, enc, 20) + chr(rng.randint(0xD800, 0xDFFF)) + sc.gen_text(rng, enc, 5)))
    cases.append(("latin-1", "a\u0100b"))                 # outside latin-1's repertoire
    cases.append(("utf-8", sc.big_text(rng, "utf-8", big_n)))
    cases.append(("utf-16", sc.big_text(rng, "utf-16", big_n // 8)))
    cases.append(("latin-1", sc.big_text(rng, "latin-1", big_n // 8)))
    return cases


def explore_text(ctx, rng, stats, violations, disagreements):
    quick = ctx.tier == "quick"
    cases = text_cases(rng, 40 if quick else 1500, 1_000_000)
    lines, pend = [], []
    for i, (enc, s) in enumerate(cases):
        mounted = None if i % 7 else rng.choice(["shutil", "testing"])
        w = witness("TextFileStore", enc, bool(i % 2), mounted, s)
        ok_enc = sc.encodable(s, enc)
        found, (status, got, data) = check_roundtrip(w, s, None if ok_enc else "UnicodeEncodeError")
        stats["text"] += 1
        stats["text_unencodable"] += 0 if ok_enc else 1
        stats["text_with_cr"] += 1 if "\r" in s else 0
        stats["classes"].update(classify(s))
        for f in found:
            violations.append({"property": "C12", "what": "TextFileStore(encoding=%r): %s" % (enc, f), "witness_case": w})
        if violations:
            return
        lines.append("text rt %s gen gen | %s" % (ENC_NAME[enc], cps(s)))
        if status == "write-error":
            real = "err"
        else:
            real = "ok b=%s r=%s" % ("%d:%d" % (len(data), sc.hash_nats(data)) if data is not None else "?", show_str(got) if isinstance(got, str) else "?")
        pend.append((w, real, data is None))
    # the read side alone: raw external content (latin-1 decodes every byte string)
    raw = [bytes(ord(c) for c in s) for s in sc.systematic_texts("latin-1")] + [sc.gen_bytes(rng, 30) for _ in range(30 if quick else 600)]
    for b in raw:
        with sc.scratch_dir("c12") as d:
            p = os.path.join(d, "value")
            with open(p, "wb") as f:
                f.write(b)
            got = sc.make_store("TextFileStore", p, "latin-1").read()
        stats["text_raw_reads"] += 1
        lines.append("text dec gen | " + " ".join(map(str, b)))
        pend.append(({"kind": "rawread", "bytes": b.hex()}, "ok r=" + show_str(got), False))
    if ctx.driver is not None:
        for (w, real, mounted_file), reply in zip(pend, ctx.driver.batch(lines)):
            reply = reply.strip()
            if mounted_file and reply.startswith("ok b="):
                # through a MountedStore the local file is gone: only the read-back string is compared
                reply = "ok b=? r=" + reply.split(" r=", 1)[1]
            if reply.rstrip() != real.rstrip():
                disagreements.append({"layer": "textcodec", "case": w, "impl": real[:300], "model": reply[:300]})
                return
        stats["model_comparisons"] += len(lines)


def classify(s):
    out = set()
    for c in s:
        o = ord(c)
        if c in "\n\r\x0b\x0c\x1c\x1d\x1e\x85\u2028\u2029":
            out.add("lt-%04x" % o)
        elif o < 32 or 127 <= o < 160:
            out.add("control")
        elif o < 128:
            out.add("ascii")
        elif o < 256:
            out.add("latin1")
        elif 0xD800 <= o <= 0xDFFF:
            out.add("surrogate")
        elif o < 0x10000:
            out.add("bmp")
        else:
            out.add("astral")
    if "\r\n" in s:
        out.add("crlf")
    if not s:
        out.add("empty")
    if len(s) > 500_000:
        out.add("large")
    return out


def value_cases(rng, quick):
    n = 60 if quick else 2500
    out = []
    for i in range(n):
        out.append(("BinaryFileStore", None, sc.gen_bytes(rng, 64)))
        out.append(("JsonFileStore", rng.choice(sc.ENCODINGS), sc.gen_json(rng)))
        out.append(("PickleFileStore", None, sc.gen_picklable(rng)))
    out.append(("BinaryFileStore", None, bytes(rng.randrange(256) for _ in range(1_000_000))))
    out.append(("BinaryFileStore", None, bytes(range(256)) * 3))
    out.append(("JsonFileStore", "utf-16", sc.nested_json(150)))
    out.append(("JsonFileStore", None, {"text": sc.big_text(rng, "utf-8", 200_000), "n": [1, 2.5, None, True]}))
    out.append(("JsonFileStore", "latin-1", ["\r", "\r\n", "\x85\u2028\u2029", "\ud800", "\U0010ffff"]))
    out.append(("PickleFileStore", None, [b"x" * 200_000, "y" * 200_000, list(range(20_000))]))
    out.append(("PickleFileStore", None, {"s": "\r\n\ud800", "p": sc.Point(1, (2.0, None)), "f": frozenset({1, 2})}))
    for _ in range(6 if quick else 60):
        out.append(("TouchFileStore", None, None))
    return out


def explore_values(ctx, rng, stats, violations):
    for i, (store, enc, v) in enumerate(value_cases(rng, ctx.tier == "quick")):
        mounted = None if i % 5 else rng.choice(["shutil", "testing"])
        w = witness(store, enc, bool(i % 2), mounted, v)
        if mounted is None and i % 3 == 0:
            w["pre"] = rng.choice([b"previous content\n", b"\x80\x04K\x01.", b"{\"a\": 1}", b"x"]).hex()
        found, (status, got, data) = check_roundtrip(w, v)
        stats[store] = stats.get(store, 0) + 1
        stats["mounted"] += 1 if mounted else 0
        if store == "JsonFileStore" and data is not None:
            text = data.decode(enc or sc.DEFAULT_ENCODING)
            if "\r" in text:
                found.append("json.dump emitted a carriage return (hypothesis TextSer.NoCR of C12_json_store)")
        if store == "BinaryFileStore" and data is not None and data != v:
            found.append("bytes on disk differ from the value")
        if store == "TouchFileStore" and data is not None and data != b"":
            found.append("touch file is not empty")
        for f in found:
            violations.append({"property": "C12", "what": "%s: %s" % (store, f), "witness_case": w})
        if violations:
            return
    # a recursive object (pickle keeps the cycle)
    with sc.scratch_dir("c12") as d:
        lst = [1, "a\r"]
        lst.append(lst)
        st = sc.make_store("PickleFileStore", os.path.join(d, "value"))
        try:
            st.write(lst)
            got = st.read()
            if not (type(got) is list and len(got) == 3 and got[2] is got and got[:2] == [1, "a\r"]):
                violations.append({"property": "C12", "what": "PickleFileStore lost a cyclic reference", "witness_case": {"kind": "cycle"}})
            shared = ["x" * 40, {"k": 1}]
            st.write([shared, shared, {"again": shared}])
            got = st.read()
            if not (got[0] is got[1] and got[2]["again"] is got[0] and got[0] == shared):
                violations.append({"property": "C12", "what": "PickleFileStore: an object referred to three times came back as separate copies",
                                   "witness_case": {"kind": "cycle"}})
        except Exception as e:      # noqa: BLE001 - a picklable value (a list that contains itself) must be storable
            violations.append({"property": "C12", "what": f"PickleFileStore: write / read of a list that contains itself raised {type(e).__name__}: {str(e)[:100]}",
                               "witness_case": {"kind": "cycle"}})
    # TouchFileStore outside its domain / over foreign content
    for bad in (0, "", False, b"", [], "x"):
        w = witness("TouchFileStore", None, False, None, bad)
        found, _ = check_roundtrip(w, bad, "TypeError")
        stats["touch_rejects"] += 1
        for f in found:
            violations.append({"property": "C12", "what": "TouchFileStore: %s" % f, "witness_case": w})
    with sc.scratch_dir("c12") as d:
        p = os.path.join(d, "value")
        st = sc.make_store("TouchFileStore", p)
        try:
            st.read()
            violations.append({"property": "C12", "what": "TouchFileStore.read succeeded on a missing file", "witness_case": {"kind": "touch-missing"}})
        except OSError:
            pass
        with open(p, "wb") as f:
            f.write(b"x")
        try:
            st.read()
            violations.append({"property": "C12", "what": "TouchFileStore.read accepted a non-empty file", "witness_case": {"kind": "touch-nonempty"}})
        except OSError:
            pass
    # documented behaviour OUTSIDE the JSON domain (not claimed, only counted)
    with sc.scratch_dir("c12") as d:
        st = sc.make_store("JsonFileStore", os.path.join(d, "value"))
        for v in ((1, 2), {1: "a"}, {"t": (1,)}, "\udbf5\udddd"):
            st.write(v)
            stats["outside_json_domain_changed"] += 0 if strict_eq(st.read(), v) else 1


# ------------------------------------------------------------------------------------------------------------------
# MountedStore: read/write = the inner store's on the local path
# ------------------------------------------------------------------------------------------------------------------

def explore_mounted(ctx, rng, stats, violations):
    n = 12 if ctx.tier == "quick" else 300
    for i in range(n):
        store = rng.choice(["TextFileStore", "BinaryFileStore", "JsonFileStore", "PickleFileStore", "TouchFileStore"])
        enc = rng.choice(sc.ENCODINGS) if store in sc.TEXT_MODE else None
        v = {"TextFileStore": lambda: sc.gen_text(rng, enc), "BinaryFileStore": lambda: sc.gen_bytes(rng),
             "JsonFileStore": lambda: sc.gen_json(rng), "PickleFileStore": lambda: sc.gen_picklable(rng),
             "TouchFileStore": lambda: None}[store]()
        kind = rng.choice(["shutil", "testing"])
        wm = witness(store, enc, bool(i % 2), kind, v)
        wd = witness(store, enc, bool(i % 2), None, v)
        s1, g1, _, l1, mt1 = roundtrip(wm, v)
        s2, g2, d2, l2, _ = roundtrip(wd, v)
        stats["mounted_vs_inner"] += 1
        if s1 != s2 or (s1 == "ok" and not strict_eq(g1, g2)):
            violations.append({"property": "C12", "what": "MountedStore(%s) read %s %s, the inner store %s %s" % (
                kind, s1, sc.brief(g1), s2, sc.brief(g2)), "witness_case": wm})
            return
        if s1 == "ok" and mt1 is None:
            violations.append({"property": "C12", "what": "MountedStore.get_modified_time is None after a write", "witness_case": wm})
            return
    # nothing stored: a mounted store reports None and cannot be read
    with sc.scratch_dir("c12") as d:
        st, _ = build_store(d, witness("BinaryFileStore", None, False, "shutil", b""))
        if st.get_modified_time() is not None:
            violations.append({"property": "C12", "what": "empty MountedStore has a modified time", "witness_case": {"kind": "mounted-empty"}})
        try:
            st.read()
            violations.append({"property": "C12", "what": "empty MountedStore could be read", "witness_case": {"kind": "mounted-empty"}})
        except Exception:       # noqa: BLE001
            pass


# ------------------------------------------------------------------------------------------------------------------
# modified times
# ------------------------------------------------------------------------------------------------------------------

def mtime_steps(rng, store, enc):
    """a sequence of write attempts: ('ok', value) | ('serr', failing value) | ('fault', value, k, class)"""
    steps = []
    for _ in range(rng.randint(2, 6)):
        r = rng.random()
        good = {"TextFileStore": lambda: sc.gen_text(rng, enc), "BinaryFileStore": lambda: sc.gen_bytes(rng),
                "JsonFileStore": lambda: sc.gen_json(rng), "PickleFileStore": lambda: sc.gen_picklable(rng),
                "TouchFileStore": lambda: None}[store]()
        if r < 0.55:
            steps.append(["ok", good])
        elif r < 0.75 and store != "BinaryFileStore":
            bad = {"TextFileStore": "a\udc00", "JsonFileStore": [1, Unserialisable()], "PickleFileStore": [1, Unserialisable()],
                   "TouchFileStore": 0}[store]
            steps.append(["serr", bad])
        else:
            steps.append(["fault", good, rng.randint(0, 3), rng.choice("oeb")])
    return steps


def run_mtime(w):
    """Executes the attempts of witness `w`; returns per step (outcome, mtime-class, content) + monitor findings."""
    found, obs, model_steps = [], [], []
    store_name, enc = w["store"], w.get("encoding")
    with sc.scratch_dir("c12") as d:
        path = os.path.join(d, "t")
        st = sc.make_store(store_name, path, enc, w["pathlib"])
        if st.get_modified_time() is not None:
            found.append("get_modified_time is not None before anything was written")
        last = None
        for i, step in enumerate(w["steps"]):
            kind, value = step[0], dec_value(step[1])
            stamp = PAST + 100 * i
            if os.path.exists(path):
                os.utime(path, (stamp, stamp))
            before = st.get_modified_time()
            faults = {step[2]: ("r", step[3], 0)} if kind == "fault" else {}
            rec = Recorder(d, faults)
            with rec:
                try:
                    st.write(value)
                    out = "ok"
                except BaseException as e:      # noqa: BLE001
                    out = "raised:" + sc.exc_class(e)
            after = st.get_modified_time()
            exists = os.path.exists(path)
            if (after is None) != (not exists):
                found.append("step %d: get_modified_time is %s but the file %s" % (i, after, "exists" if exists else "does not exist"))
            if before is not None and (after is None or after < before):
                found.append("step %d: modified time went from %s to %s" % (i, before, after))
            if out == "ok" and (after is None or (before is not None and not after > before)):
                found.append("step %d: a completed write did not advance the modified time (%s -> %s)" % (i, before, after))
            if out != "ok" and after != before:
                found.append("step %d: a failed write changed the modified time (%s -> %s)" % (i, before, after))
            if last is not None and after is not None and before is not None and after < before:
                found.append("step %d: decreasing" % i)
            last = after
            data = None
            if exists:
                with open(path, "rb") as f:
                    data = f.read()
            cls = "-" if after is None else ("new" if (before is None or after != before) else "same")
            obs.append("%s:%s:%s" % (out, cls, sc.show_content(data)))
            # the model's version of this attempt
            text_mode = store_name in sc.TEXT_MODE
            chunks = sc.encode_chunks(rec.chunks, text_mode, enc)
            toks = ["w:" + ",".join(map(str, ch)) for ch in chunks]
            writes = [j for j, op in enumerate(rec.ops) if op == "write"]
            for k, c in rec.natural_faults.items():
                toks[writes.index(k)] = "x:" + c
            if kind == "serr" and not rec.natural_faults and rec.ops:
                toks.append("f:e")
            if kind == "fault":
                # the chunks the block WOULD write: taken from an unfaulted dry run of the same value elsewhere
                toks = ["w:" + ",".join(map(str, ch)) for ch in dry_chunks(store_name, enc, value)]
            vn = "1" if (value is None or store_name != "TouchFileStore") else "0"
            sched = "%d:r:%s:0" % (step[2], step[3]) if kind == "fault" else ""
            model_steps.append("%s %s / %s / %s" % (store_name, vn, " ".join(toks), sched))
    return found, obs, model_steps


def dry_chunks(store_name, enc, value):
    with sc.scratch_dir("c12dry") as d:
        rec = Recorder(d)
        with rec:
            sc.make_store(store_name, os.path.join(d, "t"), enc).write(value)
        return sc.encode_chunks(rec.chunks, store_name in sc.TEXT_MODE, enc)


def explore_mtime(ctx, rng, stats, violations, disagreements):
    n = 25 if ctx.tier == "quick" else 500
    lines, pend = [], []
    for i in range(n):
        store = ["TextFileStore", "BinaryFileStore", "JsonFileStore", "PickleFileStore", "TouchFileStore"][i % 5]
        enc = rng.choice(sc.ENCODINGS) if store in sc.TEXT_MODE else None
        steps = [[s[0], enc_value(s[1])] + list(s[2:]) for s in mtime_steps(rng, store, enc)]
        w = {"kind": "mtime", "store": store, "encoding": enc, "pathlib": bool(i % 2), "steps": steps}
        found, obs, model_steps = run_mtime(w)
        stats["mtime_sequences"] += 1
        stats["mtime_steps"] += len(steps)
        for f in found:
            violations.append({"property": "C12", "what": "%s modified time: %s" % (store, f), "witness_case": w})
        if violations:
            return
        lines.append("fs seq gen | - ; - | " + " || ".join(model_steps))
        pend.append((w, obs))
    # back-to-back real writes, no utime: non-decreasing, never None again
    with sc.scratch_dir("c12") as d:
        st = sc.make_store("BinaryFileStore", os.path.join(d, "t"))
        prev = None
        for i in range(50):
            st.write(bytes([i]))
            t = st.get_modified_time()
            if t is None or (prev is not None and t < prev):
                violations.append({"property": "C12", "what": "back-to-back writes: modified time %s after %s" % (t, prev),
                                   "witness_case": {"kind": "back-to-back"}})
                return
            prev = t
        os.remove(os.path.join(d, "t"))
        if st.get_modified_time() is not None:
            violations.append({"property": "C12", "what": "modified time not None after the file was removed", "witness_case": {"kind": "removed"}})
        stats["back_to_back_writes"] += 50
    # the non-file sources: trivially faithful
    now = dt.datetime(2024, 1, 2, 3, 4, 5)
    for src, want in ((LiteralSource(5, now), now), (LiteralSource(5, None), None), (ModifiedTimeSource(now), now), (ModifiedTimeSource(None), None)):
        if src.get_modified_time() != want:
            violations.append({"property": "C12", "what": "%r.get_modified_time() != %r" % (src, want), "witness_case": {"kind": "sources"}})
    with sc.scratch_dir("c12") as d:
        missing = PathSource(os.path.join(d, "nope"), required=False)
        if missing.get_modified_time() is not None:
            violations.append({"property": "C12", "what": "PathSource(required=False) on a missing path is not None", "witness_case": {"kind": "sources"}})
        try:
            PathSource(os.path.join(d, "nope")).get_modified_time()
            violations.append({"property": "C12", "what": "PathSource(required=True) on a missing path did not raise", "witness_case": {"kind": "sources"}})
        except OSError:
            pass
    # a stored file whose modified time is an unusual one - the Unix epoch itself, just around it, far in the past / future: a value
    # IS stored, so get_modified_time is not None and is that time
    import pathlib
    for cls_name, value in (("BinaryFileStore", b"x"), ("TextFileStore", "x"), ("JsonFileStore", [1]), ("PickleFileStore", 1), ("TouchFileStore", None)):
        for ns in (0, 400, -1, 1_000_000_000, -86400 * 10 ** 9 * 365 * 30, 4 * 10 ** 18):
            for use_pathlib in (False, True):
                with sc.scratch_dir("c12") as d:
                    p = os.path.join(d, "value")
                    st = sc.make_store(cls_name, pathlib.Path(p) if use_pathlib else p)
                    st.write(value)
                    try:
                        os.utime(p, ns=(ns, ns))
                    except (OSError, OverflowError):
                        continue
                    got = st.get_modified_time()
                    stats["unusual_mtimes"] = stats.get("unusual_mtimes", 0) + 1
                    if got is None:
                        violations.append({"property": "C12", "what": f"{cls_name}: a value is stored and the file's modified time is {ns} ns after the "
                                           f"epoch, but get_modified_time() is None", "witness_case": {"kind": "unusual-mtime"}})
                        break
            if violations:
                break
        if violations:
            break
    # paths at which NOTHING can be stored (a component longer than the file system allows, a loop of symbolic links): nothing is
    # stored there, so get_modified_time is None - for every bundled store, the helper and an optional PathSource
    from uberjob.stores import get_modified_time as helper_mtime
    if not violations:
        with sc.scratch_dir("c12") as d:
            loop_a, loop_b = os.path.join(d, "loop_a"), os.path.join(d, "loop_b")
            os.symlink(loop_b, loop_a)
            os.symlink(loop_a, loop_b)
            for label, p in (("a component of 300 characters", os.path.join(d, "n" * 300, "value")), ("a file name of 300 characters", os.path.join(d, "v" * 300)),
                             ("a loop of symbolic links", os.path.join(loop_a, "value")), ("a symbolic link to itself", loop_a)):
                for use_pathlib in (False, True):
                    q = pathlib.Path(p) if use_pathlib else p
                    probes = [(n, sc.make_store(n, q).get_modified_time) for n in ("BinaryFileStore", "TextFileStore", "JsonFileStore", "PickleFileStore", "TouchFileStore")]
                    probes += [("get_modified_time", lambda q=q: helper_mtime(q)), ("PathSource(required=False)", PathSource(q, required=False).get_modified_time)]
                    for name, fn in probes:
                        try:
                            got = fn()
                        except Exception as e:      # noqa: BLE001
                            got = e
                        stats["impossible_paths"] = stats.get("impossible_paths", 0) + 1
                        if got is not None:
                            violations.append({"property": "C12", "what": f"{name} on a path where nothing can be stored ({label}, {'pathlib' if use_pathlib else 'str'}): "
                                               f"get_modified_time gave {got!r} instead of None", "witness_case": {"kind": "unusual-mtime"}})
                            break
                    if violations:
                        break
                if violations:
                    break
    # a path spelled with `..` behind a symbolic link to a directory denotes what the operating system resolves it to: the store
    # writes, reads and dates THAT file (what `open(path)` sees)
    if not violations:
        for cls_name, value in (("BinaryFileStore", b"x"), ("TextFileStore", "x"), ("JsonFileStore", [1]), ("PickleFileStore", 1)):
            for use_pathlib in (False, True):
                with sc.scratch_dir("c12") as d:
                    os.makedirs(os.path.join(d, "real", "sub"))
                    os.symlink(os.path.join(d, "real", "sub"), os.path.join(d, "link"))
                    p = os.path.join(d, "link", "..", "out")              # = d/real/out, NOT d/out
                    st = sc.make_store(cls_name, pathlib.Path(p) if use_pathlib else p)
                    what = None
                    try:
                        st.write(value)
                        if not os.path.exists(os.path.join(d, "real", "out")) or os.path.exists(os.path.join(d, "out")):
                            what = f"the value was written to {sorted(os.listdir(d))} / real: {sorted(os.listdir(os.path.join(d, 'real')))}, the path denotes real/out"
                        elif st.get_modified_time() is None or helper_mtime(p) is None:
                            what = "get_modified_time is None after a completed write"
                        elif not strict_eq(st.read(), value):
                            what = "read after write returned another value"
                    except Exception as e:      # noqa: BLE001
                        what = f"raised {type(e).__name__}: {str(e)[:80]}"
                    stats["dotdot_behind_symlink"] = stats.get("dotdot_behind_symlink", 0) + 1
                    if what:
                        violations.append({"property": "C12", "what": f"{cls_name} at <dir>/link/../out with link -> real/sub ({'pathlib' if use_pathlib else 'str'}): {what}",
                                           "witness_case": {"kind": "unusual-mtime"}})
                        break
            if violations:
                break
    if ctx.driver is not None:
        for (w, obs), reply in zip(pend, ctx.driver.batch(lines)):
            model = []
            prev_mt = None
            for tok in reply.split():
                parts = tok.split(":")
                # out[:class]:mtime:len:hash  |  out[:class]:-:-
                if parts[0] == "raised":
                    out, rest = "raised:" + parts[1], parts[2:]
                else:
                    out, rest = parts[0], parts[1:]
                mt = rest[0]
                content = "-" if mt == "-" else rest[1] + ":" + rest[2]
                cls = "-" if mt == "-" else ("new" if mt != prev_mt else "same")
                prev_mt = mt if mt != "-" else None
                model.append("%s:%s:%s" % (out, cls, content))
            if model != obs:
                disagreements.append({"layer": "filestore-mtime", "case": w, "impl": obs, "model": model})
                return
        stats["model_comparisons"] += len(lines)


# ------------------------------------------------------------------------------------------------------------------
# neighbouring stores: interleaved writes to DIFFERENT stores of one directory must not disturb each other
# ------------------------------------------------------------------------------------------------------------------

def explore_relative(ctx, rng, stats, violations, only=None):
    """Paths as users often give them: a bare file name (no directory part), a name in a sub-directory, str and pathlib -
    relative to the current directory.  Every bundled file store must round-trip and report a modified time."""
    import pathlib
    samples = {"TextFileStore": "a\r\nb", "BinaryFileStore": b"\x00\xff", "JsonFileStore": {"k": [1, None]},
               "PickleFileStore": ("t", 1), "TouchFileStore": None}
    for cls_name, value in samples.items():
        for rel in ("value.dat", os.path.join("sub", "value.dat")):
            for use_pathlib in (False, True):
                if only and [cls_name, rel, use_pathlib] != list(only):
                    continue
                with sc.scratch_dir("c12") as d:
                    os.makedirs(os.path.join(d, "sub"))
                    old = os.getcwd()
                    os.chdir(d)
                    try:
                        st = sc.make_store(cls_name, rel, "utf-8", pathlib_path=use_pathlib)
                        what = None
                        try:
                            if st.get_modified_time() is not None:
                                what = "get_modified_time is not None although nothing is stored"
                            st.write(value)
                            got = st.read()
                            if what is None and (got != value or type(got) is not type(value)):
                                what = f"read after write returned {got!r} for {value!r}"
                            if what is None and st.get_modified_time() is None:
                                what = "get_modified_time is None after a write"
                        except Exception as e:          # noqa: BLE001
                            what = f"{type(e).__name__}: {e}"
                    finally:
                        os.chdir(old)
                stats["relative_paths"] = stats.get("relative_paths", 0) + 1
                if what:
                    violations.append({"property": "C12", "what": f"{cls_name} with the relative path {rel!r} "
                                       f"({'pathlib' if use_pathlib else 'str'}): {what}",
                                       "witness_case": {"kind": "relative", "case": [cls_name, rel, use_pathlib]}})
                    return


def explore_neighbours(ctx, rng, stats, violations):
    """Two stores in one directory whose paths share a stem (data.pkl / data.bin / data), str and pathlib paths; the
    write of the second store happens while the first store's staged write is open (as on the thread pool).  Afterwards
    each store must return what was written to IT."""
    import pathlib
    from uberjob.stores import staged_write
    names = ["data", "data.pkl", "data.bin", "data.txt", "data.v1.bin"]
    n = 12 if ctx.tier == "quick" else 200
    for _ in range(n):
        a, b = rng.sample(names, 2)
        use_pathlib = rng.random() < 0.6
        va, vb = sc.gen_bytes(rng, 20) or b"a", sc.gen_bytes(rng, 20) or b"b"
        with sc.scratch_dir("c12") as d:
            pa, pb = os.path.join(d, a), os.path.join(d, b)
            if use_pathlib:
                pa, pb = pathlib.Path(pa), pathlib.Path(pb)
            sa, sb = sc.make_store("BinaryFileStore", pa), sc.make_store("BinaryFileStore", pb)
            err = None
            try:
                with staged_write(pa, "wb") as fa:      # store A's write is in flight …
                    fa.write(va[:1])
                    sb.write(vb)                          # … while store B is written completely
                    fa.write(va[1:])
            except Exception as e:                        # noqa: BLE001
                err = e
            stats["neighbour_pairs"] = stats.get("neighbour_pairs", 0) + 1
            try:
                ga, gb = (sa.read() if err is None else None), sb.read()
            except Exception as e:                        # noqa: BLE001
                ga, gb, err = None, None, e
            if err is not None or ga != va or gb != vb:
                violations.append({"property": "C12", "what": "two stores %r and %r (%s paths) in one directory disturb each other when their "
                                   "writes overlap: %s" % (a, b, "pathlib" if use_pathlib else "str",
                                                           repr(err) if err is not None else "read back %r / %r, written %r / %r" % (ga, gb, va, vb)),
                                   "witness_case": {"kind": "neighbours", "a": a, "b": b, "pathlib": use_pathlib, "va": va.hex(), "vb": vb.hex()}})
                return


# ------------------------------------------------------------------------------------------------------------------
# explore / replay
# ------------------------------------------------------------------------------------------------------------------

BAD_UTF8 = [b"\xc0\x80", b"\xc1\xbf", b"\xe0\x80\x80", b"\xe0\x9f\xbf", b"\xed\xa0\x80", b"\xed\xbf\xbf", b"\xf0\x80\x80\x80",
            b"\xf0\x8f\xbf\xbf", b"\xf4\x90\x80\x80", b"\xf5\x80\x80\x80", b"\xf8\x88\x80\x80\x80", b"\xff", b"\xfe", b"\x80", b"\xbf",
            b"\xc2", b"\xe2\x82", b"\xf0\x9f\x98", b"\xe2\x28\xa1", b"\xf0\x28\x8c\xbc", b"\xc2\xc2\x80"]
EDGE_CPS = [0, 0x7F, 0x80, 0x7FF, 0x800, 0xD7FF, 0xE000, 0xFFFD, 0xFFFF, 0x10000, 0x10FFFF, 0x0A, 0x0D, 0x85, 0x2028]


def decoder_cases(rng, n):
    """byte strings for the READ side of TextFileStore(encoding="utf-8" / "utf-16"): valid encodings (all boundary code
    points), and invalid ones (overlong forms, encoded surrogates, > U+10FFFF, truncated and stray bytes; for utf-16: all
    BOM variants, odd lengths, lone and misordered surrogate units)"""
    out = []
    edge = "".join(map(chr, EDGE_CPS))
    out.append(("utf-8", edge.encode("utf-8")))
    for c in EDGE_CPS:
        out.append(("utf-8", chr(c).encode("utf-8")))
        for bom in (b"\xff\xfe", b"\xfe\xff", b""):
            body = chr(c).encode("utf-16-be" if bom == b"\xfe\xff" else "utf-16-le")
            out.append(("utf-16", bom + body))
    for bad in BAD_UTF8:
        out.append(("utf-8", bad))
        out.append(("utf-8", b"a" + bad + b"b"))
        out.append(("utf-8", "é€".encode("utf-8") + bad))
    for u in (b"\x00\xd8", b"\x00\xdc", b"\x00\xd8A\x00", b"\x00\xdc\x00\xd8", b"\x3d\xd8\x00\xde", b"A", b"A\x00B", b"\xff\xfe", b"\xfe\xff",
              b"\xff\xfe\xff\xfe", b"\xfe\xff\xd8\x3d\xde\x00", b"\xfe\xff\xde\x00\xd8\x3d", b"\xff\xfeA", b""):
        out.append(("utf-16", u))
    out.append(("utf-8", b""))
    for _ in range(n):
        enc = rng.choice(["utf-8", "utf-16"])
        s = sc.gen_text(rng, enc, rng.choice([1, 3, 12, 40]))
        b = s.encode(enc, "surrogatepass" if rng.random() < 0.15 else "ignore")
        r = rng.random()
        if r < 0.35 and b:
            k = rng.randrange(len(b))
            b = b[:k] + bytes([rng.randrange(256)]) + b[k + 1:]
        elif r < 0.5 and b:
            b = b[:rng.randrange(len(b))]
        elif r < 0.6:
            k = rng.randrange(len(b) + 1)
            b = b[:k] + rng.choice(BAD_UTF8) + b[k:]
        elif r < 0.7 and enc == "utf-16" and len(b) >= 2:
            b = rng.choice([b"\xfe\xff" + bytes(x for i in range(2, len(b) - 1, 2) for x in (b[i + 1], b[i])), b[2:]])
        out.append((enc, b))
    return out


def explore_decoders(ctx, rng, stats, disagreements):
    """the strict decoders of the model (`utf8Dec`, `utf16Dec`, proved to invert the encoders) against what the real
    TextFileStore.read() does with arbitrary file content"""
    cases = decoder_cases(rng, 150 if ctx.tier == "quick" else 6000)
    lines, real = [], []
    for enc, b in cases:
        with sc.scratch_dir("c12") as d:
            p = os.path.join(d, "value")
            with open(p, "wb") as f:
                f.write(b)
            try:
                got = "ok r=" + show_str(sc.make_store("TextFileStore", p, enc).read())
                stats["decoder_ok"] = stats.get("decoder_ok", 0) + 1
            except UnicodeError:       # UnicodeDecodeError, or the stream decoder's "UTF-16 stream does not start with BOM"
                got = "err"
                stats["decoder_rejects"] = stats.get("decoder_rejects", 0) + 1
        lines.append("text %s | %s" % ("dec8" if enc == "utf-8" else "dec16", " ".join(map(str, b))))
        real.append(got)
    if ctx.driver is not None:
        for (enc, b), want, reply in zip(cases, real, ctx.driver.batch(lines)):
            if reply.strip() != want.strip():
                disagreements.append({"layer": "textcodec-decoder", "case": {"encoding": enc, "bytes": b.hex()}, "impl": want[:300],
                                      "model": reply.strip()[:300]})
                return
        stats["model_comparisons"] += len(lines)


def explore(ctx, seed_shift=0):
    rng = random.Random(ctx.seed * 104729 + 5 + seed_shift)
    stats = {"text": 0, "text_unencodable": 0, "text_with_cr": 0, "text_raw_reads": 0, "classes": set(), "mounted": 0,
             "mounted_vs_inner": 0, "touch_rejects": 0, "outside_json_domain_changed": 0, "mtime_sequences": 0,
             "mtime_steps": 0, "back_to_back_writes": 0, "model_comparisons": 0}
    violations, disagreements = [], []
    try:
        explore_text(ctx, rng, stats, violations, disagreements)
        if not violations and not disagreements:
            explore_decoders(ctx, rng, stats, disagreements)
        if not violations and not disagreements:
            # the JSON model (Json.render / Json.parse, proved to round-trip) against the real JsonFileStore
            quick = ctx.tier == "quick"
            json_model.explore_json(ctx, rng, stats, disagreements, 120 if quick else 2500, 500 if quick else 12000)
        if not violations:
            explore_values(ctx, rng, stats, violations)
        if not violations:
            explore_mounted(ctx, rng, stats, violations)
        if not violations:
            explore_mtime(ctx, rng, stats, violations, disagreements)
        if not violations:
            explore_neighbours(ctx, rng, stats, violations)
        if not violations:
            explore_relative(ctx, rng, stats, violations)
    finally:
        sc.cleanup_scratch()
    classes = sorted(stats.pop("classes"))
    need = {"lt-000a", "lt-000d", "lt-000b", "lt-000c", "lt-001c", "lt-001d", "lt-001e", "lt-0085", "lt-2028", "lt-2029",
            "crlf", "control", "astral", "surrogate", "empty", "large", "bmp", "latin1", "ascii"}
    if not violations and not need <= set(classes):
        disagreements.append({"layer": "c12-generator-floor", "missing_classes": sorted(need - set(classes))})
    evaluations = stats["text"] + stats["text_raw_reads"] + sum(stats.get(k, 0) for k in sc.STORE_CLASSES) + stats["mounted_vs_inner"] + stats["mtime_steps"]
    cov = dict(stats)
    cov.update(evaluations=evaluations, distinct_nontrivial=stats["text_with_cr"] + stats["text_unencodable"] + stats["mounted"],
               code_point_classes=classes,
               rule="seeded generators over code-point classes x encodings x path kinds x direct/mounted; systematic "
                    "single/paired line terminators; JSON/pickle/bytes/None values; write-attempt sequences for mtimes",
               samples=[json.dumps(witness("TextFileStore", "utf-8", False, None, "a\r\nb\x85"))[:200]])
    out_v = []
    for v in violations[:3]:
        v = dict(v)
        v["case"] = v.pop("witness_case")
        out_v.append(v)
    try:
        out_v = [shrink(v) for v in out_v]
    finally:
        sc.cleanup_scratch()
    return {"violations": out_v, "disagreements": disagreements[:3], "coverage": cov}


def shrink(v):
    """greedy shrink of a round-trip witness: direct store, str path, default encoding, shorter str/bytes value"""
    w = dict(v.get("case", {}))
    if w.get("kind") != "roundtrip":
        return v

    def bad(w2):
        try:
            return replay(None, {"witness": {"case": w2}})
        except Exception:       # noqa: BLE001
            return None

    if bad(w) is None:
        return v
    for key, small in (("mounted", None), ("pathlib", False), ("encoding", None)):
        if w.get(key) != small:
            w2 = dict(w)
            w2[key] = small
            if bad(w2):
                w = w2
    value = dec_value(w["value"])
    if isinstance(value, (str, bytes)) and len(value) <= 4096:
        changed = True
        while changed and len(value) > 0:
            changed = False
            for i in range(len(value)):
                cand = value[:i] + value[i + 1:]
                w2 = dict(w)
                w2["value"] = enc_value(cand)
                if bad(w2):
                    value, w, changed = cand, w2, True
                    break
    return {"property": "C12", "what": "%s(encoding=%r): %s" % (w["store"], w.get("encoding"), bad(w)), "case": w}


def source_dictionary():
    """string constants of the stores' CURRENT source (a fuzzing dictionary): a change that treats some key, tag or marker
    specially is found by offering exactly the strings it mentions"""
    import ast
    from harness.common import REPO
    out = []
    base = os.path.join(REPO, "src", "uberjob", "stores")
    for fn in sorted(os.listdir(base)):
        if not fn.endswith(".py"):
            continue
        try:
            tree = ast.parse(open(os.path.join(base, fn)).read())
        except SyntaxError:
            continue
        docs = {id(n.body[0].value) for n in ast.walk(tree)
                if isinstance(n, (ast.Module, ast.ClassDef, ast.FunctionDef)) and n.body and isinstance(n.body[0], ast.Expr)
                and isinstance(n.body[0].value, ast.Constant)}
        for n in ast.walk(tree):
            if isinstance(n, ast.Constant) and isinstance(n.value, str) and id(n) not in docs and 0 < len(n.value) <= 40 and n.value not in out:
                out.append(n.value)
    return out


INTERESTING = ["2024-02-29", "2021-01-01T00:00:00", "20210101", "12:30:00", "1", "0", "-1", "1.5", "", "null", "true", "NaN", "{}", "[]",
               None, 0, 1, True, False, [], {}, [1], {"a": 1}]


def dictionary_json_cases():
    """JSON values built from the strings the stores' source mentions (see `source_dictionary`): as a key of a one-key dict
    with a range of 'interesting' values, as a value, nested one level down, and two-key variants"""
    words = source_dictionary()
    out = []
    for k in words:
        out.append(k)
        out.append([k])
        for v in INTERESTING:
            out.append({k: v})
            out.append([{k: v}])
        out.append({k: "2024-02-29", "other": 1})
    for a in words[:12]:
        for b in words[:12]:
            if a != b:
                out.append({a: b})
    return out


def search(ctx, broken):
    class C:
        pass
    found = []
    try:
        for v in dictionary_json_cases():
            w = witness("JsonFileStore", None, False, None, v)
            f, _ = check_roundtrip(w, v)
            if f:
                found.append({"property": "C12", "what": "JsonFileStore: %s" % f[0], "case": w})
                break
    finally:
        sc.cleanup_scratch()
    if found:
        return found
    for k in range(1, 3):
        c = C()
        c.__dict__.update(ctx.__dict__)
        c.driver = None
        res = explore(c, seed_shift=1000 * k)
        if res["violations"]:
            return res["violations"]
    return []


def replay(ctx, payload):
    w = payload.get("witness", payload)
    w = w.get("case", w)
    try:
        if w.get("kind") == "roundtrip":
            value = dec_value(w["value"])
            expect = None
            if w["store"] == "TextFileStore" and isinstance(value, str) and not sc.encodable(value, w.get("encoding")):
                expect = "UnicodeEncodeError"
            if w["store"] == "TouchFileStore" and value is not None:
                expect = "TypeError"
            found, _ = check_roundtrip(w, value, expect)
            return "; ".join(found) if found else None
        if w.get("kind") == "mtime":
            found, _, _ = run_mtime(w)
            return "; ".join(found) if found else None
        if w.get("kind") == "unusual-mtime":
            class Q:
                tier, driver = "quick", None
            vv, st2 = [], {"mtime_sequences": 0, "mtime_steps": 0, "back_to_back_writes": 0, "model_comparisons": 0}
            explore_mtime(Q, random.Random(0), st2, vv, [])
            vv = [x for x in vv if x.get("witness_case", {}).get("kind") == "unusual-mtime"]
            return vv[0]["what"] if vv else None
        if w.get("kind") in ("cycle", "touch-missing", "touch-nonempty"):
            # the fixed cases at the end of explore_values (a list that contains itself, shared sub-objects, touch files)
            class Q:
                tier, driver = "quick", None
            vv, st2 = [], {"mounted": 0, "touch_rejects": 0, "outside_json_domain_changed": 0}
            explore_values(Q, random.Random(0), st2, vv)
            vv = [x for x in vv if x.get("witness_case", {}).get("kind") == w["kind"]]
            return vv[0]["what"] if vv else None
        if w.get("kind") == "relative":
            vv, st2 = [], {}
            explore_relative(ctx, None, st2, vv, only=w["case"])
            return vv[0]["what"] if vv else None
        if w.get("kind") == "neighbours":
            import pathlib
            from uberjob.stores import staged_write
            va, vb = bytes.fromhex(w["va"]), bytes.fromhex(w["vb"])
            with sc.scratch_dir("c12") as d:
                pa, pb = os.path.join(d, w["a"]), os.path.join(d, w["b"])
                if w["pathlib"]:
                    pa, pb = pathlib.Path(pa), pathlib.Path(pb)
                sa, sb = sc.make_store("BinaryFileStore", pa), sc.make_store("BinaryFileStore", pb)
                try:
                    with staged_write(pa, "wb") as fa:
                        fa.write(va[:1])
                        sb.write(vb)
                        fa.write(va[1:])
                    if sa.read() != va or sb.read() != vb:
                        return "two stores in one directory disturb each other when their writes overlap"
                except Exception as e:      # noqa: BLE001
                    return "two stores in one directory disturb each other when their writes overlap: %r" % (e,)
            return None
    finally:
        sc.cleanup_scratch()
    return None
