"""C11 — file-backed stores replace their file atomically at every failure point.

T2 (differential) + property monitors on the REAL stores in temp directories under /tmp/verif-c11c12-<pid>:

* `builtins.open` (file-object proxy counting `write`/`close`), `os.replace`, `os.remove` are wrapped from the harness
  (`_store_common.Recorder`); nothing in /repo is touched.
* per case (store class | `staged_write` | `staged_write_path`; encoding; str or pathlib path; old value present or
  not; a stale staging file left by a killed process or not; new value from the C12 generators, including values whose
  serialisation fails part-way):
  (i)   an unfaulted reference run: the observed call sequence is compared with the model's (`fs run`, = `writeOps`);
  (ii)  at EVERY operation index k an injected `OSError` (no effect), `TypeError` (after a partial effect) and
        `KeyboardInterrupt`, in-process;
  (iii) at every k a process death: the write runs in a forked child that calls `os._exit` at operation k (before it,
        or after a partial effect); a few cases additionally in a fresh interpreter (subprocess);
  (iv)  some double faults (the second one hits the clean-up close / remove).
  After each: outcome, call sequence, target bytes, "mtime changed?", directory listing and the bystander file are
  compared with the model's prediction (disagreement = broken correspondence) and with the property monitor
  (violation): target is byte-for-byte the old or the new value; mtime changed only if the new value is in place; a
  normal return means the new value is in place; no staging file after an exception; after a kill the store still
  reads the old/new value, and the next write completes, reads back, and leaves no staging file.
"""
from __future__ import annotations

import json
import os
import pathlib
import random
import subprocess
import sys

from harness.props import _store_common as sc
from harness.props._store_common import Recorder, Unserialisable, enc_value, dec_value, strict_eq
from uberjob.stores import staged_write, staged_write_path

GEN = ["FileStore"]
ASSUMPTIONS = [
    "OS: open(...,'w') creates/truncates, os.replace is an atomic rename carrying content and mtime, os.remove unlinks, "
    "a completed operation survives process death (os._exit); the file-system clock is monotone",
    "what a killed process leaves IN the staging file is unspecified (buffering) and never compared",
    "single-process: nobody else touches the target or the staging path during a write",
]
TRUSTED_EXTRA = ["harness/gen/filestore.py (pinned-shape extraction for staged_write_path / staged_write / the five stores)",
                 "harness/props/_store_common.py Recorder (wrappers of builtins.open, os.replace, os.remove; fork + os._exit)"]

MISSING = "<missing>"
OLD_NS = 1_000_000_000 * 10 ** 9          # mtime given to the old target (2001): any later write is visibly newer
FAULT_KINDS = [("r", "o", 0), ("r", "e", 1), ("r", "b", 0), ("d", 0), ("d", 1)]


class UserError(Exception):
    pass


class SetupFailed(Exception):
    """an ordinary write (no fault injected, a value of the store's domain) did not complete"""


# ------------------------------------------------------------------------------------------------------------------
# a case and one execution of it
# ------------------------------------------------------------------------------------------------------------------

def case_to_json(c):
    j = dict(c)
    j["new"] = enc_value(c["new"])
    j["next"] = enc_value(c["next"])
    j["old"] = MISSING if c["old"] is MISSING else enc_value(c["old"])
    j["stale"] = None if c["stale"] is None else c["stale"].hex()
    return j


def case_from_json(j):
    c = dict(j)
    c["new"] = dec_value(j["new"])
    c["next"] = dec_value(j["next"])
    c["old"] = MISSING if j["old"] == MISSING else dec_value(j["old"])
    c["stale"] = None if j["stale"] is None else bytes.fromhex(j["stale"])
    return c


def do_write(c, target, value):
    """the operation under test"""
    p = pathlib.Path(target) if c["pathlib"] else target
    kind = c["store"]
    if kind == "staged_write":
        with staged_write(p, c["mode"]) as f:
            for i, chunk in enumerate(value["chunks"]):
                if value.get("fail_at") == i:
                    raise UserError("user code failed")
                f.write(chunk)
            if value.get("fail_at") == len(value["chunks"]):
                raise UserError("user code failed")
        return
    if kind == "staged_write_path":
        with staged_write_path(p) as sp:
            assert isinstance(sp, pathlib.Path) == bool(c["pathlib"]), "staging path lost its type"
            if value.get("no_file"):
                return
            with open(sp, "wb") as f:
                for i, chunk in enumerate(value["chunks"]):
                    if value.get("fail_at") == i:
                        raise UserError("user code failed")
                    f.write(chunk)
                if value.get("fail_at") == len(value["chunks"]):
                    raise UserError("user code failed")
        return
    sc.make_store(kind, target, c.get("encoding"), c["pathlib"]).write(value)


def do_read(c, target):
    kind = c["store"]
    if kind in ("staged_write", "staged_write_path"):
        with open(target, "rb") as f:
            return f.read()
    return sc.make_store(kind, target, c.get("encoding"), c["pathlib"]).read()


def helper_bytes(value):
    return b"".join(value["chunks"])


def setup_dir(c, d):
    target = os.path.join(d, "t")
    other = os.path.join(d, "o")
    with open(other, "wb") as f:
        f.write(b"\x01")
    os.utime(other, ns=(OLD_NS, OLD_NS))
    old_bytes = None
    if c["old"] is not MISSING:
        if c["store"] in ("staged_write", "staged_write_path"):
            with open(target, "wb") as f:
                f.write(helper_bytes(c["old"]))
        else:
            try:
                do_write(c, target, c["old"])
            except Exception as e:      # noqa: BLE001
                raise SetupFailed("writing the old value %s failed: %s: %s" % (sc.brief(c["old"]), type(e).__name__, e))
        if not os.path.exists(target):
            raise SetupFailed("writing the old value %s left no file" % sc.brief(c["old"]))
        os.utime(target, ns=(OLD_NS, OLD_NS))
        with open(target, "rb") as f:
            old_bytes = f.read()
    if c["stale"] is not None:
        with open(target + sc.STAGING_SUFFIX, "wb") as f:
            f.write(c["stale"])
    return target, other, old_bytes


def observe(d, target, other, old_bytes):
    names = sorted(os.listdir(d))
    tb = None
    changed = False
    if os.path.exists(target):
        with open(target, "rb") as f:
            tb = f.read()
        changed = os.stat(target).st_mtime_ns != OLD_NS if old_bytes is not None else True
    elif old_bytes is not None:
        changed = True
    with open(other, "rb") as f:
        other_ok = f.read() == b"\x01" and os.stat(other).st_mtime_ns == OLD_NS
    return {"ls": names, "target": tb, "changed": changed, "other": other_ok}


def run_once(c, faults, follow_up=None, fresh_interpreter=False):
    """Execute the case with the fault schedule; returns the observation (and the follow-up's findings)."""
    dies = any(f[0] == "d" for f in faults.values())
    with sc.scratch_dir("c11") as d:
        target, other, old_bytes = setup_dir(c, d)
        rec = Recorder(d, faults)
        if fresh_interpreter:
            out, trace, chunks, natural = _run_subprocess(c, d, faults)
        elif dies:
            out, trace, chunks, natural = _run_forked(c, rec, target)
        else:
            out, trace, chunks, natural = _run_inproc(c, rec, target)
        obs = observe(d, target, other, old_bytes)
        obs.update(out=out, trace=trace, chunks=chunks, natural=natural, old_bytes=old_bytes)
        if follow_up is not None:
            obs["follow_up"] = follow_up(c, d, target, obs)
        return obs


def _run_inproc(c, rec, target):
    natural = None
    with rec:
        try:
            do_write(c, target, c["new"])
            out = "ok"
        except BaseException as e:      # noqa: BLE001 - KeyboardInterrupt is one of the injected faults
            out = "raised:" + sc.exc_class(e)
            if not isinstance(e, sc.Injected):
                natural = type(e).__name__
    if natural is not None and rec.natural_faults:
        natural = dict(rec.natural_faults)
    return out, list(rec.ops), list(rec.chunks), natural


def _run_forked(c, rec, target):
    r, w = os.pipe()
    sys.stdout.flush()
    sys.stderr.flush()
    pid = os.fork()
    if pid == 0:
        code = 1
        try:
            os.close(r)

            def report():
                os.write(w, json.dumps({"ops": rec.ops}).encode())

            rec.die_hook = report
            with rec:
                try:
                    do_write(c, target, c["new"])
                    out = "ok"
                except BaseException as e:      # noqa: BLE001
                    out = "raised:" + sc.exc_class(e)
            os.write(w, json.dumps({"ops": rec.ops, "out": out}).encode())
            code = 0
        finally:
            os._exit(code)
    os.close(w)
    data = b""
    while True:
        b = os.read(r, 65536)
        if not b:
            break
        data += b
    os.close(r)
    _, status = os.waitpid(pid, 0)
    code = os.waitstatus_to_exitcode(status)
    rep = json.loads(data.decode()) if data else {"ops": []}
    if code == sc.DIE_CODE:
        return "died", rep["ops"], [], None
    if code != 0:
        raise RuntimeError("forked child failed with exit code %r" % code)
    return rep["out"], rep["ops"], [], None


_CHILD = r"""
import json, sys
sys.path.insert(0, %(verif)r)
from harness.props import c11, _store_common as sc
c = c11.case_from_json(json.loads(%(case)r))
faults = {int(k): tuple(v) for k, v in json.loads(%(faults)r).items()}
rec = sc.Recorder(%(d)r, faults)
rec.die_hook = lambda: print(json.dumps({"ops": rec.ops}), flush=True)
with rec:
    try:
        c11.do_write(c, %(target)r, c["new"])
        out = "ok"
    except BaseException as e:
        out = "raised:" + sc.exc_class(e)
print(json.dumps({"ops": rec.ops, "out": out}), flush=True)
"""


def _run_subprocess(c, d, faults):
    """the same in a FRESH interpreter (independent of anything the check process has loaded)"""
    code = _CHILD % {"verif": os.path.dirname(os.path.dirname(os.path.dirname(os.path.abspath(__file__)))),
                     "case": json.dumps(case_to_json(c)), "faults": json.dumps({str(k): list(v) for k, v in faults.items()}),
                     "d": d, "target": os.path.join(d, "t")}
    env = dict(os.environ, PYTHONPATH=os.environ.get("VERIF_REPO", "/repo") + "/src")
    r = subprocess.run([sys.executable, "-c", code], capture_output=True, text=True, timeout=120, env=env)
    lines = [ln for ln in r.stdout.splitlines() if ln.startswith("{")]
    rep = json.loads(lines[-1]) if lines else {"ops": []}
    if r.returncode == sc.DIE_CODE:
        return "died", rep["ops"], [], None
    if r.returncode != 0:
        raise RuntimeError("subprocess child failed: " + r.stderr[-500:])
    return rep["out"], rep["ops"], [], None


# ------------------------------------------------------------------------------------------------------------------
# model side
# ------------------------------------------------------------------------------------------------------------------

def show_bytes(b):
    if b is None:
        return "-"
    return "e" if len(b) == 0 else ",".join(map(str, b))


def model_store(c):
    if c["store"] in ("staged_write", "staged_write_path"):
        return "helper:w" if "w" in c["mode"] else "helper:x"
    return c["store"]


def body_of(c, ref):
    """the model's `ops` for this case, from the reference run: the bytes of every observed write, then a failure of
    the block itself if the reference run raised by itself after a close"""
    text_mode = c["store"] in sc.TEXT_MODE
    chunks = sc.encode_chunks(ref["chunks"], text_mode, c.get("encoding"))
    toks = ["w:" + ",".join(map(str, ch)) for ch in chunks]
    natural = {}
    if isinstance(ref["natural"], dict):
        # a write() call failed by itself without effect (un-encodable text): the model's `failingWrite` at that place
        writes = [i for i, op in enumerate(ref["trace"]) if op == "write"]
        for k, cls in ref["natural"].items():
            toks[writes.index(k)] = "x:" + cls
    elif ref["natural"] is not None and ref["trace"]:
        if "close" in ref["trace"]:
            toks.append("f:" + ref["out"].split(":")[1])         # the block raised between two file operations
        elif ref["trace"][0] == "open" and "write" not in ref["trace"]:
            # open() itself failed after creating the file (e.g. unknown encoding): a fault at op 0 with partial effect
            natural = {0: ("r", ref["out"].split(":")[1], 1)}
    return " ".join(toks), natural, chunks


def sched_str(faults, natural=None):
    toks = []
    allf = dict(natural or {})
    allf.update(faults)
    for k, f in sorted(allf.items()):
        # the model distinguishes OSError / other Exception / BaseException: a PermissionError is an OSError
        toks.append("%d:r:%s:%d" % (k, "o" if f[1] == "p" else f[1], f[2]) if f[0] == "r" else "%d:d:%d" % (k, f[1]))
    return " ".join(toks)


def model_line(c, body, sched, old_bytes):
    vn = "1" if (c["new"] is None or c["store"] != "TouchFileStore") else "0"
    return "fs run gen %s %s | %s ; %s | %s | %s" % (model_store(c), vn, show_bytes(old_bytes), show_bytes(c["stale"]), body, sched)


def canon_real(obs):
    ls = ",".join(obs["ls"])
    return "out=%s trace=%s target=%s tchanged=%d ls=%s other=%d" % (
        obs["out"], ",".join(obs["trace"]), sc.show_content(obs["target"]), 1 if obs["changed"] else 0, ls, 1 if obs["other"] else 0)


# ------------------------------------------------------------------------------------------------------------------
# the property monitor
# ------------------------------------------------------------------------------------------------------------------

def monitor(c, faults, obs, new_bytes):
    """C11 itself, on the real file system.  `new_bytes` = the content a completed write of the new value produces
    (None when the write of this value can never complete)."""
    v = []
    old = obs["old_bytes"]
    tb = obs["target"]
    if tb != old and (new_bytes is None or tb != new_bytes):
        v.append("target is neither the old nor the new value: %s (old %s, new %s)" % (
            sc.brief(tb), sc.brief(old), sc.brief(new_bytes)))
    if obs["changed"] and (new_bytes is None or tb != new_bytes):
        v.append("modified time changed although the new value is not in place")
    if obs["out"] == "ok" and new_bytes is not None and (tb != new_bytes or not obs["changed"]):
        v.append("write returned normally but the new value is not in place / mtime unchanged")
    if obs["out"] == "ok" and new_bytes is None:
        v.append("write returned normally although it cannot have completed")
    staging = [n for n in obs["ls"] if n not in ("t", "o")]
    if obs["out"].startswith("raised") and obs["trace"] and staging:
        last_faulted = (len(obs["trace"]) - 1) in faults and obs["trace"][-1] == "remove"
        if not last_faulted:
            v.append("staging file left behind after an exception: %s" % staging)
    if not obs["other"]:
        v.append("an unrelated file in the directory was modified")
    extra = [n for n in obs["ls"] if n not in ("t", "o", "t" + sc.STAGING_SUFFIX)]
    if extra:
        v.append("unexpected directory entries: %s" % extra)
    fu = obs.get("follow_up")
    if fu:
        v += fu
    return v


def follow_up_after_kill(c, d, target, obs):
    """a staging file left by a killed process must not disturb later reads or writes"""
    v = []
    try:
        got = do_read(c, target)
        rd = ("ok", got)
    except BaseException as e:      # noqa: BLE001
        rd = ("err", type(e).__name__)
    tb = obs["target"]
    if tb is None:
        if rd[0] == "ok":
            v.append("read succeeded although nothing is stored")
    else:
        helper = c["store"] in ("staged_write", "staged_write_path")
        want = None
        if tb == obs["old_bytes"] and c["old"] is not MISSING:
            want = helper_bytes(c["old"]) if helper else c["old"]
        elif c["new_completes"]:
            want = helper_bytes(c["new"]) if helper else c["new"]
        if rd[0] != "ok":
            v.append("read after a kill failed: %s" % rd[1])
        elif want is not None and not strict_eq(rd[1], want):
            v.append("read after a kill returned %s, stored value is %s" % (sc.brief(rd[1]), sc.brief(want)))
    # the next write, with a (possibly) stale staging file lying around
    nxt = c["next"]
    if c.get("next_fails"):
        # this store can never complete a write (unknown encoding): the failing write must still clean up, also what
        # the killed process left
        try:
            do_write(c, target, nxt)
            v.append("a write with an unknown encoding completed")
        except LookupError:
            pass
        left = sorted(n for n in os.listdir(d) if n not in ("t", "o"))
        if left:
            v.append("staging file still there after the next (failing) write: %s" % left)
        return v
    try:
        do_write(c, target, nxt)
        got = do_read(c, target)
        want = helper_bytes(nxt) if c["store"] in ("staged_write", "staged_write_path") else nxt
        if not strict_eq(got, want):
            v.append("write after a kill: read returned %s instead of %s" % (sc.brief(got), sc.brief(want)))
    except BaseException as e:      # noqa: BLE001
        v.append("write after a kill failed: %s: %s" % (type(e).__name__, e))
    left = sorted(n for n in os.listdir(d) if n not in ("t", "o"))
    if left:
        v.append("staging file still there after the next completed write: %s" % left)
    return v


# ------------------------------------------------------------------------------------------------------------------
# case generation
# ------------------------------------------------------------------------------------------------------------------

def gen_value(rng, store, encoding, big=False):
    if store == "TextFileStore":
        if big:
            return sc.big_text(rng, encoding, 120_000)
        if rng.random() < 0.4:
            return rng.choice(sc.systematic_texts(encoding))
        return sc.gen_text(rng, encoding)
    if store == "BinaryFileStore":
        return bytes(rng.randrange(256) for _ in range(100_000)) if big else sc.gen_bytes(rng)
    if store == "JsonFileStore":
        return sc.nested_json(40) if big else sc.gen_json(rng)
    if store == "PickleFileStore":
        return [b"x" * 70_000, "y" * 70_000, list(range(3000))] if big else sc.gen_picklable(rng)
    if store == "TouchFileStore":
        return None
    chunks = [sc.gen_bytes(rng, 12) for _ in range(rng.randint(0, 4))]
    return {"chunks": chunks}


def gen_failing_value(rng, store, encoding):
    """a value whose write cannot complete (serialisation error part-way / before any operation)"""
    if store == "TextFileStore":
        return "ab" + chr(rng.randint(0xD800, 0xDFFF)) + "c"
    if store == "JsonFileStore":
        return rng.choice([{"a": [1, 2, {"b": Unserialisable()}], "c": 3}, [Unserialisable()], {"k": "v", "z": {1, 2}},
                           [1, [2, [3, Unserialisable()]]]])
    if store == "PickleFileStore":
        return rng.choice([[b"x" * 100_000, Unserialisable()], Unserialisable(), [1, 2, Unserialisable()]])
    if store == "TouchFileStore":
        return rng.choice([0, "", False, b"", [], "x"])
    chunks = [sc.gen_bytes(rng, 12) for _ in range(rng.randint(0, 4))]
    return {"chunks": chunks, "fail_at": rng.randint(0, len(chunks))}


def gen_cases(rng, n, big=False):
    stores = ["TextFileStore", "BinaryFileStore", "JsonFileStore", "PickleFileStore", "TouchFileStore",
              "staged_write", "staged_write_path"]
    cases = []
    for i in range(n):
        store = stores[i % len(stores)]
        encoding = rng.choice(sc.ENCODINGS) if store in sc.TEXT_MODE else None
        c = {"store": store, "encoding": encoding, "pathlib": rng.random() < 0.5, "mode": "wb"}
        failing = rng.random() < 0.25 and store != "BinaryFileStore"
        c["expect_fail"] = failing
        c["new"] = gen_failing_value(rng, store, encoding) if failing else gen_value(rng, store, encoding, big and i >= n - len(stores))
        c["old"] = MISSING if rng.random() < 0.3 else gen_value(rng, store, encoding)
        c["next"] = gen_value(rng, store, encoding)
        c["stale"] = None if rng.random() < 0.6 else bytes(rng.randrange(256) for _ in range(rng.choice([0, 1, 9])))
        if store == "staged_write" and rng.random() < 0.15:
            c["mode"] = rng.choice(["rb", "ab", "r", "xb"])          # no "w": ValueError before anything
            c["expect_fail"] = True
        if store == "staged_write_path" and rng.random() < 0.12:
            c["new"] = {"chunks": [], "no_file": True}
            c["stale"] = None
            c["expect_fail"] = True
        cases.append(c)
    # the open() that fails AFTER creating the file
    cases.append({"store": "TextFileStore", "encoding": "no-such-codec", "pathlib": False, "mode": "wb", "new": "abc",
                  "old": MISSING, "next": "x", "stale": None, "next_fails": True, "expect_fail": True})
    cases.append({"store": "JsonFileStore", "encoding": "no-such-codec", "pathlib": True, "mode": "wb", "new": [1],
                  "old": MISSING, "next": [2], "stale": b"junk", "next_fails": True, "expect_fail": True})
    return cases


def pick_ks(rng, n):
    if n <= 24:
        return list(range(n))
    mid = rng.sample(range(4, n - 4), 14)
    return sorted(set(list(range(4)) + list(range(n - 4, n)) + mid))


# ------------------------------------------------------------------------------------------------------------------
# explore
# ------------------------------------------------------------------------------------------------------------------

def explore_case(ctx, c, rng, stats, lines, pending, violations, subprocess_budget):
    """Runs the case's reference run and its fault sweep; queues the model comparisons in `lines`/`pending`."""
    try:
        ref = run_once(c, {})
    except SetupFailed as e:
        violations.append({"property": "C11", "what": str(e), "case": case_to_json(c), "faults": {}, "observed": "setup"})
        return
    c["new_completes"] = ref["out"] == "ok"
    new_bytes = ref["target"] if ref["out"] == "ok" else None
    if ref["out"] != "ok" and not c.get("expect_fail"):
        violations.append({"property": "C11", "what": "a write of a valid value with no fault injected did not complete: %s (%s)" % (
            ref["out"], ref["natural"]), "case": case_to_json(c), "faults": {}, "observed": canon_real(ref)})
        return
    no_model = c["new"].get("no_file") if isinstance(c["new"], dict) else False
    body, natural, chunk_bytes = body_of(c, ref)
    if ref["out"] == "ok" and b"".join(chunk_bytes) != ref["target"]:
        pending.append(None)
        lines.append("fs run gen helper:x 1 | - ; - | | ")
        stats["disagreements"].append({"layer": "filestore-chunks", "case": case_to_json(c),
                                       "what": "the observed write() calls do not add up to the file content"})
        return
    if ref["natural"] is None and ref["out"] != "ok":
        raise RuntimeError("reference run failed with an injected fault?")

    def one(faults, fresh=False):
        dies = any(f[0] == "d" for f in faults.values())
        obs = ref if not faults else run_once(c, faults, follow_up_after_kill if dies else None, fresh_interpreter=fresh)
        stats["evaluations"] += 1
        stats["kills"] += 1 if obs["out"] == "died" else 0
        stats["shapes"].add((c["store"], obs["out"], ",".join(obs["trace"])))
        stats["by_store"][c["store"]] = stats["by_store"].get(c["store"], 0) + 1
        for what in monitor(c, faults, obs, new_bytes):
            violations.append({"property": "C11", "what": what, "case": case_to_json(c),
                               "faults": {str(k): list(f) for k, f in faults.items()},
                               "observed": canon_real(obs)})
        if not no_model:
            lines.append(model_line(c, body, sched_str(faults, natural), obs["old_bytes"]))
            pending.append((c, faults, canon_real(obs)))

    one({})
    n = len(ref["trace"])
    heavy = sum(len(ch) for ch in chunk_bytes) > 20_000        # keep the driver input small: two fault kinds per index
    for k in pick_ks(rng, n):
        for fk in (rng.sample(FAULT_KINDS, 2) if heavy else FAULT_KINDS):
            if k in natural:
                continue
            one({k: fk})
            if violations:
                return
    # double faults: the second one lands on the clean-up path
    for _ in range(3 if n else 0):
        k1 = rng.randrange(n)
        k2 = k1 + rng.randint(1, 2)
        f1 = rng.choice([("r", "o", 0), ("r", "e", 1), ("r", "b", 0)])
        f2 = rng.choice(FAULT_KINDS)
        if k1 in natural or k2 in natural:
            continue
        one({k1: f1, k2: f2})
    # the final rename failing with a SPECIFIC OSError (PermissionError), alone and followed by a second fault or by death
    # at each of the next operations (a fallback path taken only for that error class shows up here)
    if "replace" in ref["trace"]:
        kr = ref["trace"].index("replace")
        if kr not in natural:
            one({kr: ("r", "p", 0)})
            for k2 in (kr + 1, kr + 2):
                for f2 in (("r", "o", 0), ("d", 0), ("d", 1)):
                    if violations:
                        return
                    one({kr: ("r", "p", 0), k2: f2})
    if subprocess_budget[0] > 0 and n and not no_model:
        subprocess_budget[0] -= 1
        k = rng.randrange(n)
        if k not in natural:
            one({k: ("d", rng.choice([0, 1]))}, fresh=True)
            stats["fresh_interpreter_kills"] += 1


def rlimit_cases(ctx, replay=None):
    """A REAL I/O failure part-way through the data: the write runs in a forked child whose RLIMIT_FSIZE is smaller than
    the value (SIGXFSZ ignored, so the kernel answers with a short write / EFBIG).  The write must fail by exception, and
    afterwards the target still holds the complete previous value, its modified time is unchanged and no staging file is
    left — whatever buffering the store uses."""
    import pickle
    import resource
    import signal
    from uberjob.stores import BinaryFileStore, JsonFileStore, PickleFileStore, TextFileStore
    kinds = {"BinaryFileStore": (BinaryFileStore, b"old", lambda n: bytes(range(256)) * (n // 256)),
             "TextFileStore": (TextFileStore, "old", lambda n: "abcdefgh" * (n // 8)),
             "JsonFileStore": (JsonFileStore, ["old"], lambda n: ["abcdefgh"] * (n // 12)),
             "PickleFileStore": (PickleFileStore, ("old",), lambda n: b"x" * n)}
    cases = [replay["rlimit_case"]] if replay else [(k, lim, pl) for k in kinds for lim in (4096, 65536) for pl in (False, True)][:16]
    viol, done = [], 0
    for kind, limit, use_pathlib in cases:
        S, old, mk = kinds[kind]
        with sc.scratch_dir("c11") as d:
            target = os.path.join(d, "value")
            path = pathlib.Path(target) if use_pathlib else target
            S(path).write(old)
            os.utime(target, ns=(OLD_NS, OLD_NS))
            with open(target, "rb") as f:
                before = f.read()
            pid = os.fork()
            if pid == 0:
                code = 3
                try:
                    signal.signal(signal.SIGXFSZ, signal.SIG_IGN)
                    resource.setrlimit(resource.RLIMIT_FSIZE, (limit, resource.getrlimit(resource.RLIMIT_FSIZE)[1]))
                    try:
                        S(path).write(mk(limit * 4))
                        code = 0                      # the write claims success
                    except OSError:
                        code = 1
                    except BaseException:             # noqa: BLE001
                        code = 2
                finally:
                    os._exit(code)
            _, status = os.waitpid(pid, 0)
            code = os.waitstatus_to_exitcode(status)
            done += 1
            with open(target, "rb") as f:
                after = f.read()
            left = [n for n in os.listdir(d) if n != "value"]
            changed = os.stat(target).st_mtime_ns != OLD_NS
            what = None
            if after != before:
                what = (f"{kind} under RLIMIT_FSIZE={limit}: the target holds {len(after)} bytes that are neither the previous value "
                        f"({len(before)} bytes) nor the complete new one; write {'returned normally' if code == 0 else 'raised'}")
            elif code == 0:
                what = f"{kind} under RLIMIT_FSIZE={limit}: write returned normally although the value could not be stored"
            elif changed:
                what = f"{kind} under RLIMIT_FSIZE={limit}: the modified time changed although the new value is not in place"
            elif left:
                what = f"{kind} under RLIMIT_FSIZE={limit}: files left behind after the failed write: {left}"
            elif code != 1:
                what = f"{kind} under RLIMIT_FSIZE={limit}: child ended with code {code}"
            if what:
                viol.append({"property": "C11", "what": what, "replay_fn": "rlimit", "rlimit_case": [kind, limit, use_pathlib]})
                break
    return {"violations": viol, "coverage": {"rlimit_fsize_cases": done}}


def nested_cases(ctx, replay=None):
    """Two writes in progress at once, to sibling paths (same directory, same stem, different extensions; str and pathlib; the
    `staged_write` helper and two stores): the second is opened, written and closed while the first is still open, then the first
    goes on and closes - or fails.  Each target must end up holding exactly its own complete value (or, for the failing one,
    nothing / its previous content), and no staging file may stay behind."""
    import pathlib
    from uberjob.stores import BinaryFileStore
    from uberjob.stores._file_store import staged_write
    viol, done = [], 0
    shapes = [(pl, names, fail) for pl in (False, True)
              for names in (("embeddings.train", "embeddings.test"), ("model.json", "model.pkl"), ("out", "out.bak"))
              for fail in (False, True)]
    if replay is not None:
        shapes = [tuple([replay["nested_case"][0], tuple(replay["nested_case"][1]), replay["nested_case"][2]])]
    for pl, names, fail in shapes:
        with sc.scratch_dir("c11n") as d:
            mk = (lambda n: pathlib.Path(d) / n) if pl else (lambda n: os.path.join(d, n))
            with open(os.path.join(d, names[0]), "wb") as f:
                f.write(b"OLD-A")
            err = None
            try:
                with staged_write(mk(names[0]), "wb") as fa:
                    fa.write(b"A" * 1000)
                    BinaryFileStore(mk(names[1])).write(b"B" * 700)
                    fa.write(b"a" * 10)
                    if fail:
                        raise UserError("the outer write fails after the inner one completed")
            except UserError:
                pass
            except Exception as e:      # noqa: BLE001
                err = e
            done += 1
            got_a = open(os.path.join(d, names[0]), "rb").read() if os.path.exists(os.path.join(d, names[0])) else None
            got_b = open(os.path.join(d, names[1]), "rb").read() if os.path.exists(os.path.join(d, names[1])) else None
            want_a = b"OLD-A" if fail else b"A" * 1000 + b"a" * 10
            left = sorted(set(os.listdir(d)) - set(names))
            what = None
            if err is not None:
                what = f"raised {type(err).__name__}: {str(err)[:80]}"
            elif got_a != want_a or got_b != b"B" * 700:
                what = (f"{names[0]} holds {show_bytes(got_a) if got_a is not None else None} (expected {show_bytes(want_a)}), "
                        f"{names[1]} holds {show_bytes(got_b) if got_b is not None else None} (expected {show_bytes(b'B' * 700)})")
            elif left:
                what = f"left behind: {left}"
            if what:
                viol.append({"property": "C11", "what": f"a write to {names[1]!r} while a write to its sibling {names[0]!r} was in progress "
                             f"({'pathlib' if pl else 'str'} paths{', the outer write then fails' if fail else ''}): {what}",
                             "replay_fn": "nested", "nested_case": [pl, list(names), fail]})
                break
    return {"violations": viol, "coverage": {"nested_sibling_writes": done}}


def mounted_fault_cases(ctx, replay=None):
    """A MountedStore stages the value in a local scratch file before it is copied to the remote side.  When the inner store's
    write, `copy_from_local` or (on read) `copy_to_local` fails, nothing may stay behind in the temporary directory - and the
    remote value must be what it was.  (tempfile's directory is pointed at a private one for the duration, so that the listing
    is ours alone.)"""
    import tempfile
    from uberjob.stores import BinaryFileStore, MountedStore, PickleFileStore
    viol, done = [], 0
    cases = [replay["mounted_case"]] if replay else ["inner-write", "copy-from-local", "copy-to-local", "none"]
    old = tempfile.tempdir
    for kind in cases:
        with sc.scratch_dir("c11m") as d:
            scratch, remote = os.path.join(d, "tmp"), os.path.join(d, "remote.bin")
            os.makedirs(scratch)
            with open(remote, "wb") as f:
                f.write(b"OLD")

            class M(MountedStore):
                def copy_from_local(self, local_path):
                    if kind == "copy-from-local":
                        raise OSError("upload failed")
                    with open(local_path, "rb") as a, open(remote, "wb") as b:
                        b.write(a.read())

                def copy_to_local(self, local_path):
                    if kind == "copy-to-local":
                        raise OSError("download failed")
                    with open(remote, "rb") as a, open(local_path, "wb") as b:
                        b.write(a.read())

                def get_modified_time(self):
                    return None

            st = M(PickleFileStore if kind == "inner-write" else BinaryFileStore)
            tempfile.tempdir = scratch
            try:
                err = None
                try:
                    if kind == "copy-to-local":
                        st.read()
                    else:
                        st.write((lambda: 0) if kind == "inner-write" else b"NEW")       # a lambda cannot be pickled
                except Exception as e:      # noqa: BLE001
                    err = e
            finally:
                tempfile.tempdir = old
            done += 1
            left = sorted(os.listdir(scratch))
            rem = open(remote, "rb").read()
            what = None
            if kind != "none" and err is None:
                what = "the failing operation raised nothing"
            elif kind == "none" and (err is not None or rem != b"NEW"):
                what = f"a fault-free write gave {err!r}, remote {rem!r}"
            elif left:
                what = f"left behind in the temporary directory: {left}"
            elif kind != "none" and rem != b"OLD":
                what = f"the remote value changed to {rem!r} although the operation failed"
            if what:
                viol.append({"property": "C11", "what": f"MountedStore, fault in {kind}: {what}", "replay_fn": "mounted", "mounted_case": kind})
                break
    return {"violations": viol, "coverage": {"mounted_fault_cases": done}}


def explore(ctx, n_cases=None, seed_shift=0):
    rng = random.Random(ctx.seed * 7919 + 11 + seed_shift)
    quick = ctx.tier == "quick"
    n = n_cases or (42 if quick else 700)
    cases = gen_cases(rng, n, big=True)
    stats = {"evaluations": 0, "kills": 0, "shapes": set(), "by_store": {}, "disagreements": [], "fresh_interpreter_kills": 0}
    lines, pending, violations = [], [], []
    budget = [3 if quick else 25]
    try:
        for c in cases:
            explore_case(ctx, c, rng, stats, lines, pending, violations, budget)
            if violations:
                break
        disagreements = list(stats["disagreements"])
        if ctx.driver is not None and not violations:
            replies = ctx.driver.batch(lines)
            for p, reply in zip(pending, replies):
                if p is None:
                    continue
                c, faults, real = p
                if reply.strip() != real:
                    disagreements.append({"layer": "filestore-run", "case": case_to_json(c),
                                          "faults": {str(k): list(f) for k, f in faults.items()},
                                          "impl": real, "model": reply.strip()})
                    break
    finally:
        sc.cleanup_scratch()
    cov = {"programs": len(cases), "evaluations": stats["evaluations"], "distinct_nontrivial": len(stats["shapes"]),
           "kills": stats["kills"], "fresh_interpreter_kills": stats["fresh_interpreter_kills"],
           "model_comparisons": sum(1 for p in pending if p is not None) if ctx.driver is not None else 0,
           "by_store": dict(sorted(stats["by_store"].items())),
           "rule": "every operation index of every case x {OSError, TypeError after partial effect, KeyboardInterrupt, "
                   "os._exit before, os._exit after partial effect}; indices sampled (first/last 4 + 14) only when a write "
                   "has more than 24 operations; + double faults; + os._exit in a fresh interpreter",
           "samples": [json.dumps(case_to_json(c))[:300] for c in cases[:2]]}
    try:
        violations = [shrink(v) for v in violations[:3]]
        if not violations:
            rl = rlimit_cases(ctx)
            violations += rl["violations"]
            cov.update(rl["coverage"])
        if not violations:
            ns = nested_cases(ctx)
            violations += ns["violations"]
            cov.update(ns["coverage"])
        if not violations:
            ms = mounted_fault_cases(ctx)
            violations += ms["violations"]
            cov.update(ms["coverage"])
    finally:
        sc.cleanup_scratch()
    return {"violations": violations, "disagreements": disagreements[:3], "coverage": cov}


SMALL = {"TextFileStore": "a", "BinaryFileStore": b"a", "JsonFileStore": [1], "PickleFileStore": 1, "TouchFileStore": None,
         "staged_write": {"chunks": [b"a"]}, "staged_write_path": {"chunks": [b"a"]}}


def violates(c, faults):
    """does the property monitor fire on this case/fault schedule? (None = no)"""
    c = dict(c)
    try:
        try:
            ref = run_once(c, {})
        except SetupFailed as e:
            return str(e)
        c["new_completes"] = ref["out"] == "ok"
        new_bytes = ref["target"] if ref["out"] == "ok" else None
        if ref["out"] != "ok" and not c.get("expect_fail"):
            return "a write of a valid value with no fault injected did not complete: %s" % ref["out"]
        dies = any(f[0] == "d" for f in faults.values())
        obs = ref if not faults else run_once(c, faults, follow_up_after_kill if dies else None)
        found = monitor(c, faults, obs, new_bytes)
        return "; ".join(found) + " | " + canon_real(obs) if found else None
    except Exception:       # noqa: BLE001 - a shrink candidate that cannot even be set up is simply not taken
        return None


def shrink(v):
    """greedy: smaller value, no old value, no stale file, str path, default encoding, earlier fault index"""
    c = case_from_json(v["case"])
    faults = {int(k): tuple(f) for k, f in v["faults"].items()}
    if violates(c, faults) is None:
        return v
    for key, small in (("new", SMALL.get(c["store"])), ("old", MISSING), ("stale", None), ("pathlib", False), ("encoding", None),
                       ("next", SMALL.get(c["store"]))):
        if c.get(key) == small or (key == "new" and c.get("expect_fail")):
            continue
        c2 = dict(c)
        c2[key] = small
        cands = [faults]
        if key == "new" and len(faults) == 1:
            (k, f), = faults.items()
            cands = [{k2: f} for k2 in range(0, 6)]
        for f2 in cands:
            if violates(c2, f2) is not None:
                c, faults = c2, f2
                break
    what = violates(c, faults)
    return {"property": "C11", "what": what.split(" | ")[0], "case": case_to_json(c),
            "faults": {str(k): list(f) for k, f in faults.items()}, "observed": what.split(" | ")[-1]}


def search(ctx, broken):
    """the proof or the correspondence is broken: monitors only, more cases, other seeds"""
    class C:
        pass
    for k in range(1, 4):
        c = C()
        c.__dict__.update(ctx.__dict__)
        c.driver = None
        res = explore(c, n_cases=120 if ctx.tier == "quick" else 600, seed_shift=1000 * k)
        if res["violations"]:
            return res["violations"]
    return []


def replay(ctx, payload):
    w = payload.get("witness", payload)
    if w.get("replay_fn") == "rlimit":
        try:
            r = rlimit_cases(ctx, replay=w)
        finally:
            sc.cleanup_scratch()
        return r["violations"][0]["what"] if r["violations"] else None
    if w.get("replay_fn") == "mounted":
        try:
            r = mounted_fault_cases(ctx, replay=w)
        finally:
            sc.cleanup_scratch()
        return r["violations"][0]["what"] if r["violations"] else None
    if w.get("replay_fn") == "nested":
        try:
            r = nested_cases(ctx, replay=w)
        finally:
            sc.cleanup_scratch()
        return r["violations"][0]["what"] if r["violations"] else None
    if "case" not in w:
        return None
    c = case_from_json(w["case"])
    faults = {int(k): tuple(f) for k, f in w.get("faults", {}).items()}
    try:
        try:
            ref = run_once(c, {})
        except SetupFailed as e:
            return str(e)
        c["new_completes"] = ref["out"] == "ok"
        new_bytes = ref["target"] if ref["out"] == "ok" else None
        if ref["out"] != "ok" and not c.get("expect_fail"):
            return "a write of a valid value with no fault injected did not complete: %s" % ref["out"]
        dies = any(f[0] == "d" for f in faults.values())
        obs = ref if not faults else run_once(c, faults, follow_up_after_kill if dies else None)
        found = monitor(c, faults, obs, new_bytes)
    finally:
        sc.cleanup_scratch()
    return "; ".join(found) + " | " + canon_real(obs) if found else None
