from harness.props._engine_common import make


def error_identity_cases(ctx, replay=None):
    """What `run` raises when a call fails, next to other things that can go wrong around it:
    * a progress DISPLAY whose output fails (an HTML page written through a callable that raises, a console whose stream is
      closed) - also inside a composite: the caller still gets the CallError of the failed call, caused by the call's exception;
    * `retry=n` with an operation (call, store write, read, modified-time query) that fails on EVERY attempt: the CallError's cause
      is the very exception object the last attempt raised."""
    import contextlib
    import io
    import threading

    import uberjob
    from harness import retry_corr
    from uberjob.progress import composite_progress, console_progress, html_progress
    viol, done = [], 0
    kinds = [replay["error_case"]] if replay else (
        [["display", k, w] for k in ("html", "console-closed", "composite") for w in (1, 3)]
        + [["retry", op, kind, n] for op, kind in (("call", "call"), ("write", "call"), ("read", "call"), ("mtime", "call"), ("read", "source"), ("mtime", "source"))
           for n in (2, 3)])
    for case in kinds:
        if case[0] == "display":
            _, k, workers = case

            class Boom(Exception):
                pass
            raised = []

            def fails():
                e = Boom("the call fails")
                raised.append(e)
                raise e

            def bad_output(_bytes):
                raise ConnectionError("the page cannot be written")
            plan = uberjob.Plan()
            x = plan.call(fails)
            closed = io.StringIO()
            closed.close()
            prog = {"html": html_progress(bad_output), "console-closed": console_progress, "composite": composite_progress(html_progress(bad_output), console_progress)}[k]
            hook, threading.excepthook = threading.excepthook, (lambda a: None)      # the display's own thread may die of its output
            try:
                with contextlib.redirect_stdout(closed if k == "console-closed" else io.StringIO()):
                    try:
                        uberjob.run(plan, output=x, progress=prog, max_workers=workers)
                        got = None
                    except BaseException as e:      # noqa: BLE001
                        got = e
            finally:
                threading.excepthook = hook
            done += 1
            if not (isinstance(got, uberjob.CallError) and raised and got.__cause__ is raised[0]):
                viol.append({"property": "C06", "what": f"a call failed and the {k} progress display could not write its output: run raised "
                             f"{got!r} (cause {getattr(got, '__cause__', None)!r}) instead of the CallError of the failed call",
                             "replay_fn": "error_identity", "error_case": case})
                break
        else:
            _, op, kind, n = case
            reply, w = retry_corr.run_case({"what": "run", "op": op, "kind": kind, "n": n, "j": n})
            done += 1
            if w:
                viol.append({"property": "C06", "what": f"retry={n}, every attempt fails: {w}", "replay_fn": "error_identity", "error_case": case})
                break
    return {"violations": viol, "disagreements": [], "coverage": {"error_identity_cases": done}}


def _extras(ctx, replay=None):
    if replay is not None:
        if replay.get("replay_fn") == "error_identity":
            r = error_identity_cases(ctx, replay=replay)
            return r["violations"][0]["what"] if r["violations"] else None
        return None
    return error_identity_cases(ctx)


explore, search, replay = make({"C06"}, extra=_extras)


def probe_known(ctx, k):
    """F5b: a failing get_modified_time on a store registered for a Literal -> AttributeError instead of CallError."""
    import uberjob
    from uberjob.stores import LiteralSource

    class Bad(LiteralSource):
        def get_modified_time(self):
            raise OSError("boom")

    p = uberjob.Plan()
    r = uberjob.Registry()
    lit = p.lit(1)
    r.add(lit, Bad(1, None))
    try:
        uberjob.run(p, registry=r, output=lit, progress=None)
    except uberjob.CallError:
        return "absent"
    except AttributeError as e:
        return "present" if "fn" in str(e) else "absent"
    except Exception:
        return "absent"
    return "absent"


def matches_known(k, v):
    w = v.get("witness_kind") if isinstance(v, dict) else None
    return w == "registered-literal-mtime-failure"
