from harness.props._engine_common import make

explore, search, replay = make({"C06"})


def probe_known(ctx, k):
    """F5b: a failing get_modified_time on a store registered for a Literal -> AttributeError instead of CallError."""
    import uberjob
    from uberjob.stores import LiteralSource

    class Bad(LiteralSource):
        def get_modified_time(self):
            raise OSError("boom")

    p = uberjob.Plan()
    r = uberjob.Registry()
    lit = p.lit(1)
    r.add(lit, Bad(1, None))
    try:
        uberjob.run(p, registry=r, output=lit, progress=None)
    except uberjob.CallError:
        return "absent"
    except AttributeError as e:
        return "present" if "fn" in str(e) else "absent"
    except Exception:
        return "absent"
    return "absent"


def matches_known(k, v):
    w = v.get("witness_kind") if isinstance(v, dict) else None
    return w == "registered-literal-mtime-failure"
