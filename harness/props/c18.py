"""C18 — staleness depends only on instants, not on time zone or naive/aware form.

T2 exploration.  One child process per time zone (TZ set in the child's environment; `_c18_child.py`), many cases
per child over a JSON line protocol.  A case is a small plan (sources, calls with and without registered stores)
whose in-memory stores report chosen *representations* (naive local / naive local with the other fold bit where
that is immaterial / aware UTC / aware fixed offset / aware zoneinfo zone) of chosen *instants*, plus a
`fresh_time` in a chosen representation.  Instants cluster around both kinds of DST transitions of the zone
(both passes through the repeated hour included), around each other (ties, ±1 µs, ± the zone's offsets) and at
ordinary times.  The child reports the stale set `_get_stale_nodes` computed and the stores a real `uberjob.run`
wrote.

monitor (the property itself): every case must decide exactly like its *canonical* twin — the same instants, all
  rendered aware-UTC, run in the TZ=UTC child.  A difference is a violation (the decision depended on the zone or
  the representation).
correspondence: the Lean datetime model (`c18 stale cur` on the `DT` descriptions the child reports, with the
  zone's offset table as the C library reports it) must give the same stale flags and the same converted values
  (`_to_naive_utc_time`), `c18 ft` the same `fromtimestamp` results; the decision recomputed in Python from the
  bare instants must equal the canonical twin's.  Differences are disagreements (broken correspondence).
"""
import datetime as dt
import json
import os
import random
import subprocess
import sys

from harness import common
from harness.common import Broken

GEN = ["Stale", "TimeConv"]

HERE = os.path.dirname(os.path.abspath(__file__))
CHILD = os.path.join(HERE, "_c18_child.py")
SRC = os.environ.get("UBERJOB_SRC", "/repo/src")      # same override as harness/translate.py (self-tests only)
ZONEINFO = "/usr/share/zoneinfo"
ZONES = ["UTC", "America/New_York", "Asia/Kolkata", "Australia/Lord_Howe", "Pacific/Apia", "Europe/London"]
ZONES_THOROUGH = ["America/St_Johns", "Asia/Kathmandu", "Pacific/Chatham", "Europe/Dublin", "Antarctica/Troll",
                  "America/Sao_Paulo"]
# used only when the zone database is not installed (rules as of 2024; Apia without its 2011 date-line jump)
POSIX = {"UTC": "UTC0", "America/New_York": "EST5EDT,M3.2.0,M11.1.0", "Asia/Kolkata": "IST-5:30",
         "Australia/Lord_Howe": "<+1030>-10:30<+11>-11,M10.1.0,M4.1.0", "Pacific/Apia": "<+13>-13",
         "Europe/London": "GMT0BST,M3.5.0/1,M10.5.0", "America/St_Johns": "NST3:30NDT,M3.2.0,M11.1.0",
         "Asia/Kathmandu": "<+0545>-5:45", "Pacific/Chatham": "<+1245>-12:45<+1345>,M9.5.0/2:45,M4.1.0/3:45",
         "Europe/Dublin": "IST-1GMT0,M10.5.0,M3.5.0/1", "Antarctica/Troll": "<+00>0<+02>-2,M3.5.0/1,M10.5.0/3",
         "America/Sao_Paulo": "<-03>3"}
OTHER_OFFSETS = [-43200, -34200, -18000, -12600, 3600, 12600, 19800, 20700, 31500, 34200, 45900, 50400]
OTHER_ZONES = ["Europe/Berlin", "America/Los_Angeles", "Australia/Adelaide", "Asia/Tehran", "America/Santiago"]
LO = int(dt.datetime(2004, 1, 1, tzinfo=dt.timezone.utc).timestamp())
HI = int(dt.datetime(2031, 1, 1, tzinfo=dt.timezone.utc).timestamp())
MARGIN = 40 * 86400
M = 10**6
HOUR = 3600 * M

ASSUMPTIONS = [
    "CPython's datetime.fromtimestamp / astimezone on naive values honour PEP 495 (TZ.Lawful; proved of CPython's "
    "algorithms for one-transition zones, compared with the running interpreter on the listed IANA zones)",
    "a naive datetime handed to uberjob means local time of the running process (as the bundled file stores produce); "
    "naive wall readings inside a spring-forward gap denote no instant and are outside the property",
    "datetimes within 24 h of datetime.min/max cannot be converted by CPython (ValueError) and are outside the property",
]
TRUSTED_EXTRA = ["C18: the C library's time-zone database (the offset table is read from the child's localtime and "
                 "cross-checked against the zoneinfo module)"]


# ------------------------------------------------------------------------------------------------------------
# children
# ------------------------------------------------------------------------------------------------------------

class Child:
    def __init__(self, zone):
        self.zone = zone
        env = dict(os.environ)
        env["TZ"] = zone if os.path.isdir(ZONEINFO) and os.path.exists(os.path.join(ZONEINFO, zone)) else POSIX[zone]
        self.tzenv = env["TZ"]
        env["PYTHONPATH"] = SRC
        self.p = subprocess.Popen([sys.executable, CHILD], stdin=subprocess.PIPE, stdout=subprocess.PIPE,
                                  text=True, env=env, cwd=common.VERIF)

    def send(self, req):
        self.p.stdin.write(json.dumps(req) + "\n")
        self.p.stdin.flush()

    def recv(self):
        line = self.p.stdout.readline()
        if not line:
            raise RuntimeError(f"C18 child for {self.zone} died")
        out = json.loads(line)
        if "error" in out:
            raise RuntimeError(f"C18 child for {self.zone}: {out['error']}")
        return out

    def ask(self, req):
        self.send(req)
        return self.recv()

    def close(self):
        try:
            self.p.stdin.close()
            self.p.wait(timeout=20)
        except Exception:
            self.p.kill()


class Table:
    """Offset table of a zone, in seconds, as the child's C library reports it."""

    def __init__(self, base, trs):
        self.base, self.trs = base, [tuple(t) for t in trs]

    def off(self, sec):
        o = self.base
        for t, v in self.trs:
            if sec < t:
                break
            o = v
        return o

    def offsets(self):
        return sorted({self.base} | {o for _, o in self.trs})

    def unambiguous(self, i_us):
        """Is the local wall reading of instant i shown by no other instant?"""
        s = i_us // M
        w = s + self.off(s)
        return all(not (w - o != s and self.off(w - o) == o) for o in self.offsets())

    def lean(self, lo_us, hi_us):
        """`<base> <T>:<off> …` in µs, restricted to a window around the instants of one case."""
        lo, hi = lo_us // M - MARGIN, hi_us // M + MARGIN
        parts = [str(self.off(lo) * M)]
        parts += [f"{t * M}:{o * M}" for t, o in self.trs if lo < t <= hi]
        return " ".join(parts)

    def transitions(self):
        """[(instant_s, offset before, offset after)] far enough from the ends of the scanned range."""
        out, prev = [], self.base
        for t, o in self.trs:
            if LO + 2 * MARGIN < t < HI - 2 * MARGIN:
                out.append((t, prev, o))
            prev = o
        return out


def crosscheck(zone, table):
    """The child's table against the zoneinfo module (an independent reader of the zone database)."""
    try:
        import zoneinfo
        z = zoneinfo.ZoneInfo(zone)
    except Exception:
        return "unavailable"
    probes = [LO + MARGIN, HI - MARGIN]
    for t, _, _ in table.transitions():
        probes += [t - 1, t, t + 1]
    for s in probes:
        want = int(dt.datetime.fromtimestamp(s, tz=z).utcoffset().total_seconds())
        if want != table.off(s):
            return f"mismatch at {s}: zoneinfo {want}, localtime {table.off(s)}"
    return "ok"


# ------------------------------------------------------------------------------------------------------------
# generation
# ------------------------------------------------------------------------------------------------------------

def pick_anchor(rng, table):
    trs = table.transitions()
    if trs and rng.random() < 0.8:
        t, a, b = rng.choice(trs)
        shift = abs(b - a)
        r = rng.random()
        if r < 0.25:
            d = rng.choice([-M, -1, 0, 1, M])
        elif r < 0.65:
            d = rng.randint(-shift * M, shift * M)            # inside the repeated hour / just before the gap
        else:
            d = rng.randint(-3 * HOUR, 3 * HOUR)
        return t * M + d, (t, a, b)
    return rng.randint((LO + 3 * MARGIN) * M, (HI - 3 * MARGIN) * M), None


def pick_delta(rng, table, tr):
    r = rng.random()
    if r < 0.12:
        return 0
    if r < 0.24:
        return rng.choice([-1, 1])
    if r < 0.44:
        return rng.choice([-1, 1]) * rng.randint(1, 3600 * M)
    if r < 0.62:
        mags = [abs(o) * M for o in table.offsets() if o] + [HOUR, 5 * HOUR + HOUR // 2]
        if tr:
            mags += [abs(tr[2] - tr[1]) * M] * 3
        return rng.choice([-1, 1]) * rng.choice(mags) + rng.choice([0, 0, -1, 1, rng.randint(-60 * M, 60 * M)])
    return rng.randint(-26 * HOUR, 26 * HOUR)


def pick_rep(rng, table, i, have_zoneinfo):
    if rng.random() < 0.2:
        # through a bundled source store (ModifiedTimeSource / LiteralSource hand the datetime on as it is)
        return [rng.choice(["mts", "lits"]), pick_rep0(rng, table, i, have_zoneinfo)]
    return pick_rep0(rng, table, i, have_zoneinfo)


def pick_rep0(rng, table, i, have_zoneinfo):
    r = rng.random()
    if r < 0.34:
        return ["nl"]
    if r < 0.42 and table.unambiguous(i):
        return ["nlflip"]
    if r < 0.62:
        return ["au"]
    if r < 0.88 or not have_zoneinfo:
        return ["ao", rng.choice(OTHER_OFFSETS)]
    return ["az", rng.choice(OTHER_ZONES)]


def canonical(case):
    def c(spec):
        return None if spec is None else {"i": spec["i"], "rep": ["au"]}
    out = {"fresh": c(case["fresh"]),
           "nodes": [{"preds": n["preds"], "kind": n["kind"], "t": c(n["t"])} for n in case["nodes"]]}
    if "clock" in case:
        out["clock"] = case["clock"]
    return out


def with_clock(rng, case):
    """the moment at which the run takes place: shortly after the latest instant the case mentions (the child freezes
    `datetime.now()` / `utcnow()` inside uberjob at that moment - nothing in the property allows the decision to depend on it,
    in whatever zone the process lives)"""
    inst = [n["t"]["i"] for n in case["nodes"] if n.get("t") and "i" in n["t"]]
    if case.get("fresh") and "i" in case["fresh"]:
        inst.append(case["fresh"]["i"])
    if inst:
        case["clock"] = max(inst) + rng.randint(0, 2 * HOUR)
    return case


def gen_matrix(rng, table, n_triples):
    """upstream store -> downstream store, fresh_time: every combination of {naive local, aware UTC, aware fixed
    offset} for the three datetimes, on instants around a transition."""
    out = []
    for _ in range(n_triples):
        base, tr = pick_anchor(rng, table)
        i_up = base
        i_down = base + pick_delta(rng, table, tr)
        i_fresh = base + pick_delta(rng, table, tr)
        off = rng.choice(OTHER_OFFSETS)
        reps = [["nl"], ["au"], ["ao", off]]
        nreps = reps
        if rng.random() < 0.4:
            # the naive-local readings of the two stores come from REAL file stores (files whose mtime is set to the instant;
            # whole seconds, so that the float round trip of os.path.getmtime is exact)
            i_up, i_down, i_fresh = (x // M * M for x in (i_up, i_down, i_fresh))
            nreps = [["file"], ["au"], ["ao", off]]
        for rf in reps:
            for ru in nreps:
                for rd in nreps:
                    out.append({"fresh": {"i": i_fresh, "rep": rf},
                                "nodes": [{"preds": [], "kind": "n", "t": {"i": i_up, "rep": ru}},
                                          {"preds": [0], "kind": "n", "t": {"i": i_down, "rep": rd}}]})
    return out


def gen_random(rng, table, n_cases, have_zoneinfo):
    out = []
    for _ in range(n_cases):
        base, tr = pick_anchor(rng, table)

        def spec():
            i = base + pick_delta(rng, table, tr)
            return {"i": i, "rep": pick_rep(rng, table, i, have_zoneinfo)}
        n = rng.randint(1, 5)
        nodes = []
        for k in range(n):
            r = rng.random()
            if k == 0 or r < 0.2:
                kind = rng.choice(["s", "n", "n"]) if k else rng.choice(["s", "s", "n"])
            else:
                kind = "n" if r < 0.8 else "u"
            preds = [] if kind == "s" else sorted(p for p in range(k) if rng.random() < (0.75 if p == k - 1 else 0.3))
            t = None if kind == "u" or rng.random() < 0.07 else spec()
            nodes.append({"preds": preds, "kind": kind, "t": t})
        fresh = None if rng.random() < 0.3 else spec()
        out.append({"fresh": fresh, "nodes": nodes})
    return out


def gen_far(rng, n_cases):
    """Instants centuries ahead (2250 - 2400), a few MICROseconds apart, spelled naive-local and aware (for the zone without
    transitions only: its offset table holds for all time): a conversion that goes through a float loses the microseconds there."""
    out = []
    for _ in range(n_cases):
        base = int(dt.datetime(rng.randint(2250, 2400), rng.randint(1, 12), rng.randint(1, 28), rng.randint(0, 23), rng.randint(0, 59),
                               rng.randint(0, 59), tzinfo=dt.timezone.utc).timestamp()) * M + rng.randint(0, M - 1)

        def spec():
            return {"i": base + rng.randint(-4, 4), "rep": rng.choice([["nl"], ["nl"], ["au"], ["ao", rng.choice(OTHER_OFFSETS)], ["mts", ["nl"]]])}
        nodes = [{"preds": [], "kind": "s", "t": spec()}, {"preds": [0], "kind": "n", "t": spec()}]
        if rng.random() < 0.5:
            nodes.append({"preds": [1], "kind": "n", "t": spec()})
        out.append({"fresh": None if rng.random() < 0.5 else spec(), "nodes": nodes})
    return out


def gen_foldpairs(rng, tables, n_cases):
    """Two AWARE datetimes carrying the same zoneinfo object (zoneinfo caches one object per key), in the repeated hour of a
    fall-back transition of THAT zone, on opposite sides of the transition: the later instant has the smaller wall-clock
    reading.  (Python compares aware datetimes that share their tzinfo by their wall-clock fields: whoever compares them
    without converting to UTC first gets the order wrong.)  The stored value is older than its upstream by instants."""
    zs = [(z, [(t, a, b) for t, a, b in tab.transitions() if b < a]) for z, tab in tables.items()]
    zs = [(z, trs) for z, trs in zs if trs]
    out = []
    for _ in range(n_cases if zs else 0):
        z, trs = rng.choice(zs)
        t, a, b = rng.choice(trs)
        gap = (a - b) * M
        d1 = rng.randint(1, gap - 2)
        d2 = rng.randint(1, gap - 1 - d1)
        early, late = t * M - d1, t * M + d2          # wall(late) < wall(early)
        rep = ["az", z]
        kind = rng.choice(["store-store", "fresh"])
        if kind == "store-store":
            out.append({"fresh": None, "nodes": [{"preds": [], "kind": "s", "t": {"i": late, "rep": rep}},
                                                 {"preds": [0], "kind": "n", "t": {"i": early, "rep": rep}}]})
        else:
            out.append({"fresh": {"i": late, "rep": rep},
                        "nodes": [{"preds": [], "kind": "n", "t": {"i": early, "rep": rep}}]})
    return out


def gen_gap(rng, table, n_cases):
    """Naive wall readings inside spring-forward gaps (they denote no instant: model-vs-code only)."""
    gaps = [(t, a, b) for t, a, b in table.transitions() if b > a]
    out = []
    for _ in range(n_cases if gaps else 0):
        t, a, b = rng.choice(gaps)
        wall = (t + a) * M + rng.randint(0, (b - a) * M - 1)
        other = t * M + rng.randint(-2 * HOUR, 2 * HOUR)
        out.append({"fresh": {"i": other, "rep": rng.choice([["au"], ["nl"]])} if rng.random() < 0.7 else None,
                    "nodes": [{"preds": [], "kind": "n", "t": {"i": other + rng.randint(-HOUR, HOUR), "rep": ["au"]}},
                              {"preds": [0], "kind": "n", "t": {"raw": [wall, rng.randint(0, 1)]}}]})
    return out


# ------------------------------------------------------------------------------------------------------------
# reference decision from the bare instants (python rendering of _get_stale_nodes on numbers)
# ------------------------------------------------------------------------------------------------------------

def oracle(case):
    fresh = case["fresh"]["i"] if case["fresh"] else None
    stale, look = [], []
    for n in case["nodes"]:
        if any(stale[p] for p in n["preds"]):
            stale.append(1), look.append(None)
            continue
        vals = [look[p] for p in n["preds"] if look[p] is not None]
        anc = max(vals) if vals else None
        if n["kind"] == "u":
            stale.append(0), look.append(anc)
            continue
        if n["t"] is None:
            stale.append(1), look.append(None)
            continue
        mt = n["t"]["i"]
        mx = max(v for v in (mt, anc, fresh) if v is not None)
        if (anc is not None or n["kind"] != "s") and mx > mt:
            stale.append(1), look.append(None)
        else:
            stale.append(0), look.append(mt)
    return stale


# ------------------------------------------------------------------------------------------------------------
# Lean side
# ------------------------------------------------------------------------------------------------------------

def show_dt(d):
    return "-" if d is None else f"{d[0]}:{d[1]}:{d[2]}"


def lean_line(handling, table, case, res):
    vals = [d[1] for d in [res["fresh"]] + res["times"] if d is not None]
    lo, hi = (min(vals), max(vals)) if vals else (LO * M + MARGIN * M, LO * M + MARGIN * M)
    nodes = " ; ".join("%s %s %s" % (",".join(map(str, n["preds"])) or "-", n["kind"], show_dt(t))
                       for n, t in zip(case["nodes"], res["times"]))
    return f"c18 stale {handling} | {table.lean(lo - 14 * HOUR, hi + 14 * HOUR)} | {show_dt(res['fresh'])} | {nodes}"


def parse_lean(reply):
    try:
        a, b = reply.split("|")
        flags = [int(x) for x in a.split()[1:]]
        conv = [None if x == "-" else int(x) for x in b.split()[1:]]
        return flags, conv
    except Exception:
        return None, None


# ------------------------------------------------------------------------------------------------------------
# explore
# ------------------------------------------------------------------------------------------------------------

def _sizes(tier):
    # (matrix triples per zone, random plans per zone, gap probes per zone)
    return (8, 70, 10) if tier == "quick" else (80, 2500, 150)


def run_exploration(ctx, tier, seed, zones):
    have_zoneinfo = os.path.isdir(ZONEINFO)
    children = {z: Child(z) for z in zones}
    try:
        for c in children.values():
            c.send({"op": "scan", "lo": LO, "hi": HI, "step": 3 * 3600})
        tables, cross = {}, {}
        for z, c in children.items():
            r = c.recv()
            tables[z] = Table(r["base"], r["trs"])
            cross[z] = crosscheck(z, tables[z]) if have_zoneinfo else "unavailable"
            if cross[z].startswith("mismatch"):
                raise RuntimeError(f"C18: zone database read differently by localtime and zoneinfo for {z}: {cross[z]}")
        n_tr, n_rnd, n_gap = _sizes(tier)
        work = {}                                   # zone -> [(kind, case)]
        for z in zones:
            rng = random.Random(f"C18:{seed}:{z}")
            t = tables[z]
            work[z] = ([("matrix", c) for c in gen_matrix(rng, t, n_tr)]
                       + [("random", c) for c in gen_random(rng, t, n_rnd, have_zoneinfo)]
                       + [("gap", c) for c in gen_gap(rng, t, n_gap)]
                       + ([("random", c) for c in gen_foldpairs(rng, tables, max(4, n_rnd // 20))] if have_zoneinfo else [])
                       + ([("random", c) for c in gen_far(random.Random(f"C18-far:{seed}"), max(12, n_rnd // 10))] if z == "UTC" else []))
            rng_c = random.Random(f"C18-clock:{seed}:{z}")
            for kind, c in work[z]:
                if kind != "gap":
                    with_clock(rng_c, c)
        # canonical twins (same instants, aware UTC) all go to the TZ=UTC child; identical twins are run once
        canon_cases, canon_index = [], {}
        for z in zones:
            for kind, c in work[z]:
                if kind != "gap":
                    k = json.dumps(canonical(c), sort_keys=True)
                    if k not in canon_index:
                        canon_index[k] = len(canon_cases)
                        canon_cases.append(canonical(c))
        for z in zones:
            children[z].send({"op": "cases", "cases": [c for _, c in work[z]]})
        results = {z: children[z].recv()["results"] for z in zones}
        canon_res = children["UTC"].ask({"op": "cases", "cases": canon_cases})["results"]
        notes = children[zones[1] if len(zones) > 1 else zones[0]].ask({"op": "limits"})["notes"]
    finally:
        for c in children.values():
            c.close()

    violations, disagreements = [], []
    stats = {"evaluations": 0, "canonical_runs": len(canon_cases), "matrix_cases": 0, "random_cases": 0, "gap_cases": 0,
             "naive_values": 0, "aware_values": 0, "fold1_values": 0, "cases_with_stale": 0, "cases_all_fresh": 0,
             "distinct_nontrivial": 0, "lean_compared": 0, "fromtimestamp_compared": 0, "ties": 0}
    # the hypothesis of C18_cpython_lawful_tables (`Spaced`) on the zones actually used: transitions at least 7 days apart,
    # offsets and jumps below 24 h, in the scanned range (informational: the theorem says for which zones CPython's algorithms
    # are PROVED lawful; the other zones are covered by the sampled runs only)
    def spaced(t):
        prev_t, prev_o = None, t.base
        for tt, o in t.trs:
            if abs(o) >= 86400 or abs(o - prev_o) >= 86400 or (prev_t is not None and tt - prev_t < 7 * 86400):
                return False
            prev_t, prev_o = tt, o
        return abs(t.base) < 86400
    stats["zones"] = len(zones)
    stats["zones_spaced"] = sum(1 for z in zones if spaced(tables[z]))
    samples = []
    # canonical twins vs the decision recomputed from the bare instants
    for c, r in zip(canon_cases, canon_res):
        want = oracle(c)
        if r["stale"] != want and not disagreements:
            disagreements.append({"layer": "stale-oracle", "case": c, "impl": r["stale"], "oracle": want})
    lines, refs = [], []
    for z in zones:
        for (kind, c), r in zip(work[z], results[z]):
            stats["evaluations"] += 1
            stats[kind + "_cases"] += 1
            for d in [r["fresh"]] + r["times"]:
                if d is not None:
                    stats["naive_values" if d[0] == "N" else "aware_values"] += 1
                    stats["fold1_values"] += 1 if d[0] == "N" and d[2] == 1 else 0
            if isinstance(r["stale"], list):
                stats["cases_with_stale" if any(r["stale"]) else "cases_all_fresh"] += 1
            if kind != "gap":
                inst = [s["i"] for s in [c["fresh"]] + [n["t"] for n in c["nodes"]] if s is not None]
                stats["ties"] += 1 if len(set(inst)) < len(inst) else 0
                cr = canon_res[canon_index[json.dumps(canonical(c), sort_keys=True)]]
                if (r["stale"], r["written"]) != (cr["stale"], cr["written"]):
                    violations.append({
                        "property": "C18",
                        "what": f"TZ={z}: stale={r['stale']} written={r['written']} but the same instants rendered "
                                f"aware-UTC under TZ=UTC give stale={cr['stale']} written={cr['written']}",
                        "tz": z, "case": c, "datetimes": {"fresh": r["fresh"], "times": r["times"]},
                        "got": {"stale": r["stale"], "written": r["written"]},
                        "canonical": {"stale": cr["stale"], "written": cr["written"]}})
            # internal consistency of the two observations: written = stale ∩ non-source stores
            if isinstance(r["stale"], list) and isinstance(r["written"], list):
                want_w = [k for k, n in enumerate(c["nodes"]) if n["kind"] == "n" and r["stale"][k]]
                if want_w != r["written"] and not disagreements:
                    disagreements.append({"layer": "run-vs-stale", "tz": z, "case": c, "stale": r["stale"],
                                          "written": r["written"]})
            lines.append(lean_line("cur", tables[z], c, r))
            lines.append(lean_line("convertLocal", tables[z], c, r))      # the two known handlings: how many cases
            lines.append(lean_line("keepNaive", tables[z], c, r))         # can tell them apart (generator power)
            refs.append((z, kind, c, r))
            if len(samples) < 3 and kind == "random" and isinstance(r["stale"], list) and any(r["stale"]) and z != "UTC":
                samples.append({"tz": z, "case": c, "stale": r["stale"], "written": r["written"]})
    # fromtimestamp: every naive-local value the children produced, against the model's fromTimestamp
    ft_lines, ft_refs = [], []
    for z in zones:
        pairs = []
        for (kind, c), r in zip(work[z], results[z]):
            for s, d in zip([c["fresh"]] + [n["t"] for n in c["nodes"]], [r["fresh"]] + r["times"]):
                if s is not None and "rep" in s and s["rep"] == ["nl"]:
                    pairs.append((s["i"], d))
        for k in range(0, len(pairs), 40):
            chunk = pairs[k:k + 40]
            lo, hi = min(i for i, _ in chunk), max(i for i, _ in chunk)
            if hi - lo > 300 * 86400 * M:               # keep the table window small: one request per value
                for i, d in chunk:
                    ft_lines.append(f"c18 ft | {tables[z].lean(i - 2 * 86400 * M, i + 2 * 86400 * M)} | {i}")
                    ft_refs.append((z, [(i, d)]))
            else:
                ft_lines.append(f"c18 ft | {tables[z].lean(lo - 2 * 86400 * M, hi + 2 * 86400 * M)} | "
                                + " ".join(str(i) for i, _ in chunk))
                ft_refs.append((z, chunk))
    if ctx.driver is not None:
        out = ctx.driver.batch(lines + ft_lines)
        for k, (z, kind, c, r) in enumerate(refs):
            flags, conv = parse_lean(out[3 * k])
            new_flags, _ = parse_lean(out[3 * k + 1])
            old_flags, _ = parse_lean(out[3 * k + 2])
            stats["lean_compared"] += 1
            if flags is None:
                disagreements.append({"layer": "driver-protocol", "line": lines[3 * k], "reply": out[3 * k]})
                break
            if new_flags != old_flags:
                stats["distinct_nontrivial"] += 1
            if r["stale"] != flags and not any(d["layer"] == "stale-dt" for d in disagreements):
                disagreements.append({"layer": "stale-dt", "tz": z, "kind": kind, "case": c, "impl": r["stale"],
                                      "model": flags, "line": lines[3 * k]})
            if r["conv"] != conv and not any(d["layer"] == "conv-dt" for d in disagreements):
                disagreements.append({"layer": "conv-dt", "tz": z, "kind": kind, "case": c, "impl": r["conv"],
                                      "model": conv, "line": lines[3 * k]})
        for (z, chunk), reply in zip(ft_refs, out[len(lines):]):
            stats["fromtimestamp_compared"] += len(chunk)
            got = reply.split()
            want = [show_dt(d) for _, d in chunk]
            if got != want and not any(d["layer"] == "fromtimestamp" for d in disagreements):
                bad = next(((i, w, g) for (i, _), w, g in zip(chunk, want, got + ["?"] * len(want)) if w != g), None)
                disagreements.append({"layer": "fromtimestamp", "tz": z, "instant": bad and bad[0],
                                      "impl": bad and bad[1], "model": bad and bad[2]})
    floor = 25 if tier == "quick" else 400
    if ctx.driver is not None and stats["distinct_nontrivial"] < floor and not violations:
        raise Broken("coverage", "C18-generator",
                     f"only {stats['distinct_nontrivial']} cases tell the two known handlings of naive datetimes apart "
                     f"(floor {floor}): the generator lost its power to see zone dependence")
    cov = dict(stats)
    cov["zones"] = len(zones)
    cov["programs"] = stats["evaluations"]
    cov["rule"] = ("per zone: 27-way representation matrix (naive local / aware UTC / aware fixed offset for fresh_time, "
                   "upstream and downstream store) on instants around DST transitions + random plans (1-5 nodes; "
                   "sources, stored and unstored calls, missing values) with 5 representations; every case compared "
                   "with its aware-UTC twin run under TZ=UTC, with the Lean DT model (stale flags, converted values, "
                   "fromtimestamp) and with the decision recomputed from the bare instants; distinct_nontrivial = cases "
                   "on which the two known handlings (convert naive as local / keep naive) decide differently")
    cov["samples"] = samples[:3]
    cov["tz_env"] = {z: children[z].tzenv for z in zones}
    cov["tzdata_crosscheck"] = cross
    cov["platform_notes"] = notes
    return {"violations": violations[:5], "disagreements": disagreements, "coverage": cov}


def explore(ctx):
    zones = ZONES + (ZONES_THOROUGH if ctx.tier == "thorough" else [])
    if not os.path.isdir(ZONEINFO):
        zones = [z for z in zones if z in POSIX]
    return run_exploration(ctx, ctx.tier, ctx.seed, zones)


def search(ctx, broken):
    """A proof or a correspondence broke: look for a concrete zone/representation dependence with a larger budget."""
    found = []
    for k in range(3):
        try:
            res = run_exploration(ctx, "thorough" if k else "quick", ctx.seed * 1000 + k, ZONES)
        except Broken:
            continue
        found += res["violations"]
        if found:
            break
    return found[:3]


def replay(ctx, payload):
    w = payload["witness"]
    zone, case = w["tz"], w["case"]
    a, b = Child(zone), Child("UTC")
    try:
        r = a.ask({"op": "cases", "cases": [case]})["results"][0]
        cr = b.ask({"op": "cases", "cases": [canonical(case)]})["results"][0]
    finally:
        a.close()
        b.close()
    if (r["stale"], r["written"]) != (cr["stale"], cr["written"]):
        return (f"TZ={zone}: stale={r['stale']} written={r['written']} (datetimes fresh={r['fresh']} times={r['times']}); "
                f"same instants aware-UTC under TZ=UTC: stale={cr['stale']} written={cr['written']}")
    return None
