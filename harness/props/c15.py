"""C15: recording ProgressObservers on generated plans (with and without registry), failure patterns, worker counts,
both schedulers, controlled schedules, composite observers.

* monitor: the property as stated, evaluated on the recorded notification sequence of every observer;
* correspondence: (a) the recorded sequence is judged by the Lean predicates (driver `progress legal`);
  (b) per engine invocation, the multiset of notifications equals the block the Lean model derives from the engine's
  event log (driver `notifs`), and the totals part is equal as a sequence.
"""
from __future__ import annotations

import collections
import random
import threading

import uberjob
from harness import cache_explore as ce
from harness import coop, plans
from uberjob._graph import get_full_call_scope
from uberjob._transformations.caching import _get_stale_scope
from uberjob.graph import Call
from uberjob.progress import NullProgressObserver, Progress, ProgressObserver

GEN = ["Engine", "Observer"]
ASSUMPTIONS = ["calls end normally or with an Exception (a BaseException raised by a call is reported by the engine but not to the observer)",
               "observer methods themselves do not raise (except that a member of a composite may fail to be entered, or raise while being left: every member that was entered must still be exited exactly once)"]


def _tp_extra():
    return "tp"


class RecObs(ProgressObserver):
    def __init__(self):
        self.ev = []
        self.lock = threading.Lock()

    def add(self, *e):
        with self.lock:
            self.ev.append(e)

    def __enter__(self):
        self.add("enter")

    def __exit__(self, *a):
        self.add("exit")

    def increment_total(self, *, section, scope, amount):
        self.add("total", section, scope, amount)

    def increment_running(self, *, section, scope):
        self.add("running", section, scope)

    def increment_completed(self, *, section, scope):
        self.add("completed", section, scope)

    def increment_failed(self, *, section, scope, exception):
        self.add("failed", section, scope, type(exception).__name__)


class RecNullObs(RecObs, NullProgressObserver):
    """the same recorder, written the way users write small observers: as a subclass of the do-nothing observer that
    overrides the hooks it cares about (here: all of them)"""

    def __init__(self):
        RecObs.__init__(self)


class _One(Progress):
    def __init__(self, obs):
        self.obs1 = obs

    def observer(self):
        return self.obs1


class RecProgress(Progress):
    def __init__(self, n):
        self.obs = [(RecNullObs if k % 2 == 1 else RecObs)() for k in range(n)]

    def as_argument(self, public):
        """what is handed to `uberjob.run(progress=...)`: this object (which builds the composite observer itself), or - the way
        users do it - a LIST of Progress objects / `composite_progress(...)`, composed by the library"""
        if not public or len(self.obs) < 2:
            return self
        from uberjob.progress import composite_progress
        members = [_One(o) for o in self.obs]
        return members if public == 1 else composite_progress(*members)

    def observer(self):
        from uberjob.progress._composite_progress_observer import CompositeProgressObserver
        return self.obs[0] if len(self.obs) == 1 else CompositeProgressObserver(self.obs)


def legal_py(ev):
    """The statement of C15 on one recorded sequence; returns a list of complaints."""
    bad = []
    if not ev or ev[0] != ("enter",):
        bad.append("the first notification is not the observer's __enter__")
    if not ev or ev[-1] != ("exit",):
        bad.append("the last notification is not the observer's __exit__")
    if sum(1 for e in ev if e == ("exit",)) != 1 or sum(1 for e in ev if e == ("enter",)) != 1:
        bad.append("the observer is not entered/exited exactly once")
    announced, running = set(), collections.Counter()
    for e in ev[1:-1]:
        if e[0] == "total":
            announced.add((e[1], e[2]))
        elif e[0] == "running":
            if (e[1], e[2]) not in announced:
                bad.append(f"{e[1:3]} reported running before its total was announced")
            running[(e[1], e[2])] += 1
        elif e[0] in ("completed", "failed"):
            running[(e[1], e[2])] -= 1
            if running[(e[1], e[2])] < 0:
                bad.append(f"{e[0]} for {e[1:3]} without a matching running")
    still = {k: v for k, v in running.items() if v}
    if still:
        bad.append(f"reported running when run returned: {still}")
    return bad


def to_driver(ev):
    keys, secs = {}, {}
    out = []
    for e in ev:
        if e[0] in ("enter", "exit"):
            out.append(e[0])
            continue
        s = secs.setdefault(e[1], len(secs))
        try:
            c = keys.setdefault((e[1], e[2]), len(keys))
        except TypeError:
            c = keys.setdefault((e[1], repr(e[2])), len(keys))
        if e[0] == "total":
            out.append("tot %d %d %d" % (s, c, e[3]))
        else:
            out.append("%s %d %d" % ({"running": "run", "completed": "com", "failed": "fai"}[e[0]], s, c))
    return "progress legal " + " ; ".join(out)


def one_case(rng, ctx, with_registry, mode="prim", op_switch_p=0.05, join_shape=False, interrupt_at=None):
    nobs = rng.choice([1, 1, 2, 3])
    prog = RecProgress(nobs)
    # a fifth of the runs transform the physical plan: a NEW Plan object with one more call in a scope of its own (the 'run'
    # totals must be those of the plan that is executed)
    tp = None
    if rng.random() < 0.2:
        def tp(p, out):
            p2 = p.copy()
            with p2.scope("tp-added"):
                extra = p2.call(_tp_extra)
            if out is not None:
                p2.add_dependency(extra, out)
            return p2, out
    workers = rng.choice([1, 2, 3])
    sched = rng.choice(["default", "random"])
    me = rng.choice([0, 1, None])
    seed = rng.randrange(1 << 30)
    info = {"registry": with_registry, "workers": workers, "scheduler": sched, "max_errors": me, "seed": seed, "observers": nobs,
            "transform_physical": tp is not None}
    if with_registry:
        env = ce.Env()
        env.soft_only = True       # C15 speaks of calls ending normally or with an Exception
        spec = ce.gen_cache_spec(rng, nmax=8)
        b = ce.build_cache(spec, env)
        for nd in spec["nodes"]:
            if nd["kind"] == "source":
                b.stores[nd["id"]].value, b.stores[nd["id"]].mtime = ("s", nd["id"], 1), env.tick()
        calls = [nd["id"] for nd in spec["nodes"] if nd["kind"] in ("stored", "call", "producer")]
        if calls and rng.random() < 0.35:
            b.failing = {rng.choice(calls)}
        if rng.random() < 0.2:
            env.cut_at = rng.randint(0, 10)          # a store operation / call raising Cut (an Exception)
        ids = [nd["id"] for nd in spec["nodes"] if nd["kind"] not in ("producer", "token")]
        out = rng.sample(ids, min(len(ids), rng.choice([0, 1, 2])))
        plan, nodes, reg = b.plan, b.N, b.reg
        thunk = lambda: uberjob.run(plan, registry=reg, output=[nodes[i] for i in out], max_workers=workers, scheduler=sched,
                                    max_errors=me, progress=prog.as_argument(seed % 3), transform_physical=tp)
        info["spec"] = spec
        info["output"] = out
        info["failing"] = sorted(b.failing)
        info["cut"] = env.cut_at
    else:
        spec = plans.gen_spec(rng, nmax=8)
        if join_shape:
            # A, B -> C ; C, E -> D : the shape in which a duplicated enqueue shows up in the account
            spec = {"nodes": [{"id": i, "kind": "call", "args": a, "kwargs": [], "scope": [sc]} for i, a, sc in
                              [(0, [], "a"), (1, [], "a"), (2, [{"n": 0}, {"n": 1}], "b"), (3, [], "b"), (4, [{"n": 2}, {"n": 3}], "c")]],
                    "deps": []}
        calls = [nd["id"] for nd in spec["nodes"] if nd["kind"] == "call"]
        failing = {i: rng.choice(["Failure", "ValueError"]) for i in rng.sample(calls, min(len(calls), rng.choice([0, 0, 1, 2])))}
        if join_shape:
            failing = {}
        rec = plans.Rec()
        plan, nodes, _ = plans.build(spec, rec, failing)
        ids = [nd["id"] for nd in spec["nodes"]]
        out = rng.sample(ids, min(len(ids), rng.choice([1, 2, 3])))
        reg = None
        thunk = lambda: uberjob.run(plan, output=[nodes[i] for i in out], max_workers=workers, scheduler=sched, max_errors=me,
                                    progress=prog.as_argument(seed % 3), transform_physical=tp)
        info["spec"] = spec
        info["output"] = out
        info["failing"] = {str(k): v for k, v in failing.items()}
    # a KeyboardInterrupt delivered to the calling thread while it waits in queue.join is one more way for a run to fail:
    # the calls in flight still end normally, so the whole statement applies
    r = coop.run_controlled(thunk, seed, mode=mode, op_switch_p=op_switch_p, interrupt_at=interrupt_at)
    info["mode"], info["op_switch_p"], info["join_shape"], info["interrupt_at"] = mode, op_switch_p, join_shape, interrupt_at
    return r, prog, plan, reg, info


def check_case(ctx, r, prog, plan, reg, info, lines, expect):
    viol = []
    if r.deadlock or r.hang:
        return viol
    seqs = [o.ev for o in prog.obs]
    for n, ev in enumerate(seqs):
        for c in legal_py(ev):
            viol.append({"property": "C15", "what": f"observer #{n}: {c}", "sequence": ev[:40]})
        lines.append(to_driver(ev))
        expect.append(("legal=1 pos=1 within=1 first=1", "recorded sequence judged by the Lean predicates", ev[:40]))
    if len(seqs) > 1:
        base = collections.Counter(seqs[0])
        for n, ev in enumerate(seqs[1:], 1):
            if collections.Counter(ev) != base:
                viol.append({"property": "C15", "what": f"composite observer: member #{n} did not receive the same notifications as member #0"})
    ev = seqs[0]
    tot = collections.Counter()
    comp = collections.Counter()
    for e in ev:
        if e[0] == "total":
            tot[(e[1], e[2])] += e[3]
        elif e[0] == "completed":
            comp[(e[1], e[2])] += 1
    if r.exc is None:
        for k, v in tot.items():
            if comp[k] != v:
                viol.append({"property": "C15", "what": f"after a successful run completed={comp[k]} but total={v} for {k}"})
    # per engine invocation: compare with the model's block
    def scope_wrong(n, scope, sec):
        """the scope under which a call is reported = the user's scope, then the function's name (and, in the stale check,
        the class of its value store) - judged without the repository's own scope helpers"""
        if type(scope) is not tuple:
            return "is not a tuple"
        k = len(n.scope)
        if scope[:k] != tuple(n.scope):
            return "does not start with the user's scope %r" % (tuple(n.scope),)
        fname = getattr(n.fn, "__qualname__", None) or type(n.fn).__qualname__
        store = reg.get(n) if (reg is not None and sec == "stale") else None
        if len(scope) != k + 1 + (store is not None):
            return "has %d elements after the user's scope" % (len(scope) - k)
        if not (isinstance(scope[k], str) and scope[k].endswith(fname)):
            return "does not name the function %s" % fname
        if store is not None and not (isinstance(scope[k + 1], str) and scope[k + 1].endswith(type(store).__qualname__)):
            return "does not name the store class %s" % type(store).__qualname__
        return None

    for tr in r.traces:
        sec = "stale" if tr.scheduler == "cheap" else "run"
        sec_id = 0 if sec == "stale" else 1
        callnodes = [i for i, n in enumerate(tr.nodes) if type(n) is Call]
        scopes, sc_of = {}, {}
        for i in callnodes:
            n = tr.nodes[i]
            scope = _get_stale_scope(n, reg) if sec == "stale" else get_full_call_scope(n)
            bad = scope_wrong(n, scope, sec)
            if bad:
                viol.append({"property": "C15", "what": f"the '{sec}' scope {scope!r} of a call {bad}"})
            sc_of[i] = scopes.setdefault(scope, len(scopes))
        if r.exc is None and sec == "stale":
            # the calls examined: every Call of the (copied, output-gathered) plan handed to the stale check
            want = collections.Counter(("stale", _get_stale_scope(tr.nodes[i], reg)) for i in callnodes)
            got = collections.Counter({k: v for k, v in tot.items() if k[0] == "stale"})
            if want != got:
                viol.append({"property": "C15", "what": f"'stale' totals {dict(got)} differ from the number of calls examined per scope {dict(want)}"})
        if r.exc is None and sec == "run":
            want = collections.Counter(("run", get_full_call_scope(tr.nodes[i])) for i in callnodes)
            got = collections.Counter({k: v for k, v in tot.items() if k[0] == "run"})
            if want != got:
                viol.append({"property": "C15", "what": f"'run' totals {dict(got)} differ from the number of calls executed per scope {dict(want)}"})
        log = []
        base_exc = False
        for e in tr.events:
            if e[0] == "begin":
                log.append("b:%d" % e[2])
            elif e[0] == "endok":
                log.append("o:%d" % e[2])
            elif e[0] == "endfail":
                log.append("f:%d" % e[2])
        lines.append("notifs %d | %s | %s | %s | %s" % (sec_id, " ".join(map(str, range(len(tr.nodes)))), " ".join(map(str, callnodes)),
                                                        " ".join("%d:%d" % kv for kv in sc_of.items()), " ".join(log)))
        inv = {v: k for k, v in scopes.items()}
        mine = [e for e in ev if e[0] != "enter" and e[0] != "exit" and e[1] == sec]
        expect.append(("block", (sec, inv, mine), None))
    return viol


class EnterFails(Exception):
    pass


class FailingEnterObs(RecObs):
    def __enter__(self):
        raise EnterFails("this observer cannot be entered")


class OneObsProgress(Progress):
    def __init__(self, obs):
        self.obs1 = obs

    def observer(self):
        return self.obs1


def composite_enter_cases(ctx, replay=None):
    """Composite observers one of whose members cannot be entered (it opens a file, say): the run fails, and every member
    that WAS entered must be exited exactly once, after everything else it was told; members behind the failing one see
    nothing at all.  Flat and nested composites, failing member at every position."""
    from uberjob.progress import composite_progress
    rng = random.Random(ctx.seed * 31 + 17)
    viol, done = [], 0
    shapes = [replay["composite_case"]] if replay else [(k, p, nest) for k in (2, 3, 4) for p in range(k) for nest in (False, True)]
    for k, p, nest in shapes:
        members = [FailingEnterObs() if i == p else RecObs() for i in range(k)]
        progs = [OneObsProgress(o) for o in members]
        if nest and k >= 3:
            prog = composite_progress(progs[0], composite_progress(*progs[1:]))
        else:
            prog = composite_progress(*progs)
        rec = plans.Rec()
        spec = plans.gen_spec(rng, nmax=4)
        plan, nodes, _ = plans.build(spec, rec, {})
        exc = None
        try:
            uberjob.run(plan, output=[nodes[0]], progress=prog, max_workers=2)
        except BaseException as e:      # noqa: BLE001
            exc = e
        done += 1
        case = [k, p, bool(nest)]
        if not isinstance(exc, EnterFails):
            viol.append({"property": "C15", "what": f"composite of {k} observers, member #{p} raises from __enter__: run gave {exc!r}",
                         "replay_fn": "composite_enter", "composite_case": case})
        if rec.events:
            viol.append({"property": "C15", "what": f"calls executed although the observer could not be entered: {rec.events[:3]}",
                         "replay_fn": "composite_enter", "composite_case": case})
        for i, o in enumerate(members):
            n_enter = sum(1 for e in o.ev if e == ("enter",))
            n_exit = sum(1 for e in o.ev if e == ("exit",))
            if i == p:
                continue
            if n_enter != n_exit or n_enter > 1 or (n_enter and (o.ev[0] != ("enter",) or o.ev[-1] != ("exit",))):
                viol.append({"property": "C15", "what": f"composite of {k} observers{' (nested)' if nest else ''}, member #{p} raises from "
                             f"__enter__: member #{i} was entered {n_enter}x but exited {n_exit}x (its notifications: {o.ev[:6]})",
                             "replay_fn": "composite_enter", "composite_case": case})
        if viol:
            break
    return {"violations": viol, "coverage": {"composite_enter_failure_cases": done}}


class ExitFails(Exception):
    pass


class FailingExitObs(RecObs):
    def __exit__(self, *a):
        super().__exit__(*a)
        raise ExitFails("this observer fails while being left (flushing its output, say)")


def composite_exit_cases(ctx, replay=None):
    """Composite observers one of whose members raises from `__exit__`: every member - before and behind the failing one, in
    flat and nested composites, after successful and after failing runs - must still be exited exactly once, after everything
    else it was told."""
    from uberjob.progress import composite_progress
    rng = random.Random(ctx.seed * 37 + 19)
    viol, done = [], 0
    shapes = [replay["composite_case"]] if replay else [(k, p, nest, fail) for k in (2, 3, 4) for p in range(k) for nest in (False, True)
                                                        for fail in (False, True)]
    for k, p, nest, fail in shapes:
        members = [FailingExitObs() if i == p else RecObs() for i in range(k)]
        progs = [OneObsProgress(o) for o in members]
        if nest and k >= 3:
            prog = composite_progress(progs[0], composite_progress(*progs[1:]))
        else:
            prog = composite_progress(*progs)
        rec = plans.Rec()
        spec = plans.gen_spec(rng, nmax=4)
        calls = [nd["id"] for nd in spec["nodes"] if nd["kind"] == "call"]
        failing = {calls[0]: "ValueError"} if fail and calls else {}
        plan, nodes, _ = plans.build(spec, rec, failing)
        try:
            uberjob.run(plan, output=[nodes[i] for i in sorted(nodes)], progress=prog, max_workers=2)
        except BaseException:      # noqa: BLE001 - which exception the caller sees is not judged here
            pass
        done += 1
        case = [k, p, bool(nest), bool(fail)]
        for i, o in enumerate(members):
            n_enter = sum(1 for e in o.ev if e == ("enter",))
            n_exit = sum(1 for e in o.ev if e == ("exit",))
            if n_enter != 1 or n_exit != 1 or o.ev[0] != ("enter",) or o.ev[-1] != ("exit",):
                viol.append({"property": "C15", "what": f"composite of {k} observers{' (nested)' if nest else ''}, member #{p} raises from "
                             f"__exit__ after a {'failing' if failing else 'successful'} run: member #{i} was entered {n_enter}x and exited "
                             f"{n_exit}x (its last notifications: {o.ev[-3:]})",
                             "replay_fn": "composite_exit", "composite_case": case})
                break
        if viol:
            break
    return {"violations": viol, "coverage": {"composite_exit_failure_cases": done}}


class NotifyFails(Exception):
    pass


class FlakyObs(RecObs):
    """records every notification, and raises from the `nth` one of kind `kind` in section `section` (a widget that has gone
    away, a closed stream)"""

    def __init__(self, kind, section, nth):
        super().__init__()
        self.kind, self.section, self.nth, self.seen = kind, section, nth, 0

    def add(self, *e):
        super().add(*e)
        if e[0] == self.kind and len(e) > 1 and e[1] == self.section:
            with self.lock:
                self.seen += 1
                hit = self.seen == self.nth
            if hit:
                raise NotifyFails(f"this observer fails when told {self.kind!r}")


def raising_notification_cases(ctx, replay=None):
    """An observer - alone, or a member of a composite between two well-behaved ones - raises from one notification
    (`increment_running` / `increment_completed` / `increment_failed`, section run or stale).  Whatever the run then does, no
    member may be told more endings (completed + failed) for a section and scope than it was told beginnings, and every member
    is entered once and exited once, last."""
    from uberjob.progress import composite_progress
    rng = random.Random(ctx.seed * 53 + 29)
    viol, done = [], 0
    shapes = [replay["notify_case"]] if replay else [(kind, sec, nth, comp, fail) for kind in ("running", "completed", "failed")
                                                      for sec in ("run", "stale") for nth in (1, 2) for comp in (False, True)
                                                      for fail in (False, True)]
    for kind, sec, nth, comp, fail in shapes:
        flaky = FlakyObs(kind, sec, nth)
        members = [RecObs(), flaky, RecObs()] if comp else [flaky]
        progs = [OneObsProgress(o) for o in members]
        prog = composite_progress(*progs) if comp else progs[0]
        rec = plans.Rec()
        spec = plans.gen_spec(rng, nmax=4)
        calls = [nd["id"] for nd in spec["nodes"] if nd["kind"] == "call"]
        failing = {calls[0]: "ValueError"} if fail and calls else {}
        plan, nodes, _ = plans.build(spec, rec, failing)
        reg = None
        if sec == "stale":
            reg = uberjob.Registry()
            for i in calls[:3]:
                reg.add(nodes[i], _mem_store())
        try:
            uberjob.run(plan, output=[nodes[i] for i in sorted(nodes)], progress=prog, max_workers=2, max_errors=None,
                        **({"registry": reg} if reg is not None else {}))
        except BaseException:      # noqa: BLE001 - which exception the caller sees is not judged here
            pass
        done += 1
        case = [kind, sec, nth, bool(comp), bool(fail)]
        for i, o in enumerate(members):
            bad = []
            n_enter = sum(1 for e in o.ev if e == ("enter",))
            n_exit = sum(1 for e in o.ev if e == ("exit",))
            if n_enter != 1 or n_exit != 1 or o.ev[0] != ("enter",) or o.ev[-1] != ("exit",):
                bad.append(f"was entered {n_enter}x and exited {n_exit}x (last notifications: {o.ev[-3:]})")
            running = collections.Counter()
            for e in o.ev[1:-1]:
                if e[0] == "running":
                    running[(e[1], e[2])] += 1
                elif e[0] in ("completed", "failed"):
                    running[(e[1], e[2])] -= 1
                    if running[(e[1], e[2])] < 0:
                        bad.append(f"was told {e[0]!r} for {e[1:3]} once more than it was told 'running' "
                                   f"(its account of that scope: {[x[0] for x in o.ev if x[1:3] == e[1:3]]})")
                        break
            if bad:
                viol.append({"property": "C15", "what": f"{'composite of 3, member #1' if comp else 'a single observer'} raises from its "
                             f"{'first' if nth == 1 else 'second'} {kind!r} notification in section {sec!r} during a "
                             f"{'failing' if failing else 'successful'} run: member #{i} " + bad[0],
                             "replay_fn": "raising_notification", "notify_case": case})
                break
        if viol:
            break
    return {"violations": viol, "coverage": {"raising_notification_cases": done}}


def _mem_store():
    import datetime as dt
    from uberjob import ValueStore

    class M(ValueStore):
        def __init__(self):
            self.v, self.t = None, None

        def read(self):
            if self.t is None:
                raise FileNotFoundError("empty")
            return self.v

        def write(self, value):
            self.v, self.t = value, dt.datetime.now(dt.timezone.utc)

        def get_modified_time(self):
            return self.t
    return M()


class FreshObsProgress(Progress):
    """a Progress that hands out a NEW recording observer for every run (as the bundled ones do)"""

    def __init__(self):
        self.made = []

    def observer(self):
        o = RecObs()
        self.made.append(o)
        return o


def composite_reuse_cases(ctx):
    """One Progress object — single, a flat composite, a nested composite, a list — used for several runs in a row: every run
    gets observers of its own, each entered and exited exactly once around a legal account of THAT run."""
    from uberjob.progress import composite_progress
    rng = random.Random(ctx.seed * 131 + 7)
    viol, done = [], 0
    for shape in ("single", "flat", "nested", "with-console"):
        members = [FreshObsProgress() for _ in range(3)]
        if shape == "single":
            prog, used = members[0], members[:1]
        elif shape == "flat":
            prog, used = composite_progress(*members), members
        elif shape == "nested":
            prog, used = composite_progress(members[0], composite_progress(members[1], members[2])), members
        else:
            import contextlib
            import io
            from uberjob.progress import console_progress
            prog, used = composite_progress(members[0], console_progress), members[:1]
        n_runs = 3
        for k in range(n_runs):
            rec = plans.Rec()
            spec = plans.gen_spec(rng, nmax=4)
            plan, nodes, _ = plans.build(spec, rec, {})
            import contextlib
            import io
            with contextlib.redirect_stdout(io.StringIO()), contextlib.redirect_stderr(io.StringIO()):
                uberjob.run(plan, output=[nodes[0]], progress=prog, max_workers=2)
            done += 1
            for mi, m in enumerate(used):
                if len(m.made) != k + 1:
                    viol.append({"property": "C15", "what": f"{shape}: after run #{k + 1} of one Progress object member #{mi} had handed out "
                                 f"{len(m.made)} observers (every run must get its own)"})
                    break
                for c in legal_py(m.made[-1].ev):
                    viol.append({"property": "C15", "what": f"{shape}: run #{k + 1} of one Progress object, member #{mi}: {c}",
                                 "sequence": m.made[-1].ev[:30]})
                for oi, o in enumerate(m.made[:-1]):
                    if sum(1 for e in o.ev if e == ("enter",)) != 1 or sum(1 for e in o.ev if e == ("exit",)) != 1:
                        viol.append({"property": "C15", "what": f"{shape}: the observer of run #{oi + 1} was entered/exited again by run #{k + 1}"})
            if viol:
                return {"violations": viol, "coverage": {"progress_reuse_runs": done}}
    return {"violations": viol, "coverage": {"progress_reuse_runs": done}}


def explore(ctx):
    res = explore_main(ctx)
    if not res["violations"]:
        c = composite_reuse_cases(ctx)
        res["violations"] += c["violations"]
        res["coverage"].update(c["coverage"])
    if not res["violations"]:
        c = composite_enter_cases(ctx)
        res["violations"] += c["violations"]
        res["coverage"].update(c["coverage"])
    if not res["violations"]:
        c = composite_exit_cases(ctx)
        res["violations"] += c["violations"]
        res["coverage"].update(c["coverage"])
    if not res["violations"]:
        c = raising_notification_cases(ctx)
        res["violations"] += c["violations"]
        res["coverage"].update(c["coverage"])
    return res


def explore_main(ctx):
    rng = random.Random(ctx.seed * 48271 + 3)
    n = 140 if ctx.tier == "quick" else 2500
    viol, dis = [], []
    lines, expect = [], []
    st = {"runs": 0, "with_registry": 0, "failed_runs": 0, "composite": 0, "notifications": 0, "engine_blocks": 0, "interrupted": 0}
    samples = []
    distinct = set()
    for i in range(n):
        with_reg = rng.random() < 0.5
        intr = rng.choice([None, None, None, None, 0, 1, 2, 4])
        r, prog, plan, reg, info = one_case(rng, ctx, with_reg, interrupt_at=intr)
        st["runs"] += 1
        st["interrupted"] += isinstance(r.exc, KeyboardInterrupt)
        st["with_registry"] += with_reg
        st["failed_runs"] += r.exc is not None
        st["composite"] += len(prog.obs) > 1
        st["notifications"] += len(prog.obs[0].ev)
        k0 = len(lines)
        v = check_case(ctx, r, prog, plan, reg, info, lines, expect)
        for x in v:
            x["case"] = info
        viol += v
        distinct.add(tuple(map(str, prog.obs[0].ev)))
        if len(samples) < 2 and len(prog.obs[0].ev) > 6:
            samples.append({"case": {k: info[k] for k in ("registry", "workers", "scheduler", "max_errors", "observers")},
                            "sequence": [list(map(str, e)) for e in prog.obs[0].ev][:30]})
        if len(viol) >= 3:
            break
    if ctx.driver is not None and not viol:
        out = ctx.driver.batch(lines)
        for line, (want, what, extra), got in zip(lines, expect, out):
            if want == "block":
                sec, inv, mine = what
                st["engine_blocks"] += 1
                model = []
                for t in [x.strip() for x in got.split(";") if x.strip()]:
                    p = t.split()
                    if p[0] == "total":
                        model.append(("total", sec, inv[int(p[2])], int(p[3])))
                    else:
                        model.append((p[0], sec, inv[int(p[2])]))
                mine_c = collections.Counter((e[0], e[1], e[2]) + ((e[3],) if e[0] == "total" else ()) for e in mine)
                if collections.Counter(model) != mine_c or [m for m in model if m[0] == "total"] != [
                        (e[0], e[1], e[2], e[3]) for e in mine if e[0] == "total"]:
                    dis.append({"layer": "notifications", "section": sec, "request": line, "model": model[:30],
                                "impl": [tuple(map(str, e)) for e in mine][:30]})
                    break
            elif got.strip() != want:
                dis.append({"layer": "notifications-legal", "request": line[:600], "model": got, "impl": want, "what": what})
                break
    cov = dict(st)
    cov["evaluations"] = st["runs"]
    cov["distinct_nontrivial"] = len(distinct)
    cov["traces_validated_against_impl"] = st["engine_blocks"]
    cov["rule"] = ("generated plans with scopes (plain; and with registries of in-memory stores: sources, stored calls, dependent sources) x "
                   "failing calls / store operations raising Exceptions / KeyboardInterrupt in the calling thread while it waits in queue.join x max_errors x workers x scheduler x controlled schedule x 1-3 observers "
                   "(composite); distinct = distinct recorded sequences of observer #0")
    cov["samples"] = samples
    return {"violations": viol, "disagreements": dis, "coverage": cov}


def search(ctx, broken):
    """Something no longer checks: opcode-level preemption on join shapes, monitors only."""
    rng = random.Random(ctx.seed * 7 + 99)
    found = []
    for i in range(900 if ctx.tier == "quick" else 6000):
        r, prog, plan, reg, info = one_case(rng, ctx, False, mode="opcode", op_switch_p=rng.choice([0.05, 0.2, 0.4]),
                                            join_shape=rng.random() < 0.7,
                                            interrupt_at=rng.choice([None, None, 0, 1, 2, 3]))
        lines, expect = [], []
        v = check_case(ctx, r, prog, plan, reg, info, lines, expect)
        for x in v:
            x["case"] = info
        found += v
        if found:
            break
    if not found:
        for fn in (composite_reuse_cases, composite_enter_cases, composite_exit_cases, raising_notification_cases):
            found += fn(ctx)["violations"]
            if found:
                break
    return found


def replay(ctx, payload):
    w = payload.get("witness", payload)
    if w.get("replay_fn") == "composite_enter":
        r = composite_enter_cases(ctx, replay=w)
        return r["violations"][0]["what"] if r["violations"] else None
    if w.get("replay_fn") == "composite_exit":
        r = composite_exit_cases(ctx, replay=w)
        return r["violations"][0]["what"] if r["violations"] else None
    if w.get("replay_fn") == "raising_notification":
        r = raising_notification_cases(ctx, replay=w)
        return r["violations"][0]["what"] if r["violations"] else None
    info = w.get("case")
    if not info or info.get("registry"):
        return w.get("what")
    # re-run the same plan: the saved schedule first, then neighbouring schedule seeds (the default scheduler's
    # priorities depend on set iteration order of node objects, i.e. on addresses, so one seed is not one schedule)
    nobs = info["observers"]
    failing = {int(k): v for k, v in (info.get("failing") or {}).items()}
    for j in range(400):
        prog = RecProgress(nobs)
        rec = plans.Rec()
        plan, nodes, _ = plans.build(info["spec"], rec, failing)
        thunk = lambda: uberjob.run(plan, output=[nodes[i] for i in info["output"]], max_workers=info["workers"],
                                    scheduler=info["scheduler"], max_errors=info["max_errors"],
                                    progress=prog.as_argument(info["seed"] % 3))
        r = coop.run_controlled(thunk, info["seed"] + j, mode=info.get("mode", "prim"), op_switch_p=info.get("op_switch_p", 0.05),
                                interrupt_at=info.get("interrupt_at"))
        v = check_case(ctx, r, prog, plan, None, info, [], [])
        if v:
            return v[0]["what"] + (" (schedule seed +%d)" % j if j else "")
    return None


def explore_shard(ctx):
    """extra parallel shard of the thorough tier: recording observers under the cooperative scheduler"""
    return explore_main(ctx)
