"""C09 — rebuilt stored values are written, then read back, before downstream use.

T2 (structure): on generated (plan, registry) pairs with free creation / registration order (harness/phys_common.py), at
every state of a seeded history, the graph returned by the real `uberjob.run(..., dry_run=True)` — and the graph
`run_physical` hands to the engine — must equal, node by node (in `graph.nodes()` order) and keyed edge by keyed edge,
what the Lean model `physFinal` / `physEngine` computes from the logical plan, the registry order and the real stale set
(driver command `phys`).
T3 (behaviour): the same histories perform real runs with NORMALISING stores (`read` returns ("norm", key, written))
under the cooperative scheduler (controlled interleavings, also cut short / with a failing call); the monitor states the
property on the event log and on the values the calls and the caller received.
"""
from __future__ import annotations

import random

import networkx as nx

import uberjob
from harness import cache_explore as ce
from harness import coop, plans
from harness import phys_common as pc
from harness import norm_exec

GEN = ["Stale", "DryRun"]
PROPS = {"C09"}
ASSUMPTIONS = [
    "sources are created by registry.source (calls without arguments): every edge into a source is a plain dependency",
    "the stale set handed to the model is the one the real _get_stale_nodes computes (its correspondence is C03/C05's T2)",
    "Barrier literals carry no identity: they are named by their order of creation (registry order)",
    "ordering statements are about the store's own events: write-end = the write returned, readval = the read returned",
]


# ------------------------------------------------------------------------------------------- the monitor
def _first(events):
    first = {}
    for k, e in enumerate(events):
        if len(e) >= 2:
            first.setdefault((e[0], e[1]), k)
    return first


def monitor(b, events, stale, before, outspec, rr):
    """C09 on one run (complete, failed or cut short): only statements about events that did occur."""
    v = []
    first = _first(events)
    nodes = {nd["id"]: nd for nd in b.spec["nodes"]}
    kinds = b.kinds
    g = b.graph
    readval = {}
    for e in events:
        if e[0] == "readval":
            readval.setdefault(e[1], e[2])
    # a producer that runs although its dependent source is up to date (it is consumed elsewhere) rewrites that store
    # concurrently with the read: nothing is claimed about such a store
    written = {e[1] for e in events if e[0] == "write"}

    def arg_preds(c):
        nd = nodes[c]
        return list(nd["args"]) + [a for _, a in nd["kwargs"]]

    def starts(d, seen=None):
        """events that mark the beginning of whatever must wait for a node `d` depends on"""
        seen = seen if seen is not None else set()
        if d in seen:
            return []
        seen.add(d)
        k = kinds[d]
        if k in pc.CALLS:
            return [("call", d)]
        if k in pc.SOURCES:
            return [("read", d)]
        if k == "storedlit":
            return [("write-begin", d), ("read", d)]
        out = []
        for x in g.successors(d):
            out += starts(x, seen)
        return out

    def avail(p, seen=None):
        """events that mean `p` is available to something that merely depends on it"""
        seen = seen if seen is not None else set()
        if p in seen:
            return []
        seen.add(p)
        k = kinds[p]
        if k in pc.REGISTERED:
            if p not in stale:
                return []
            if k in pc.SOURCES:
                out = []
                for q in g.predecessors(p):
                    out += avail(q, seen)
                return out
            return [("write-end", p)]
        if k in pc.CALLS:
            return [("ret", p)]
        out = []
        for q in g.predecessors(p):
            out += avail(q, seen)
        return out

    for i in sorted(stale):
        k = kinds[i]
        if k not in ("stored", "storedlit"):
            continue
        wb, we, rd, rv = (first.get((t, i)) for t in ("write-begin", "write-end", "read", "readval"))
        if rd is not None and (we is None or we > rd):
            v.append(f"store {i} was read (event {rd}) before its rebuilt value had been written (write-end: {we})")
        if k == "stored" and wb is not None and not (first.get(("ret", i), 1 << 60) < wb):
            v.append(f"store {i} was written before its call had returned")
        for c in g.successors(i):
            ck = first.get(("call", c)) if kinds[c] in pc.CALLS else None
            if i in arg_preds(c):
                if ck is not None and not (rv is not None and rv < ck and we is not None and we < ck):
                    v.append(f"call {c} consumes the rebuilt stored value {i} but started (event {ck}) before the value "
                             f"had been written (write-end {we}) and read back (read returned at {rv})")
            else:
                for ev in starts(c):
                    sk = first.get(ev)
                    if sk is not None and not (we is not None and we < sk):
                        v.append(f"node {c} merely depends on the rebuilt stored value {i}: {ev} happened at {sk}, "
                                 f"before the write had completed (write-end {we})")
        for j in nx.descendants(g, i):
            if kinds[j] in pc.REGISTERED and j not in stale:
                v.append(f"stored value {j} is downstream of the rebuilt {i} but is not treated as out of date")
            if kinds[j] == "stored" and j in stale:
                wj = first.get(("write-begin", j))
                if wj is not None and not (we is not None and we < wj):
                    v.append(f"downstream stored value {j} was written (event {wj}) before the rebuilt {i} (write-end {we})")
    for z in sorted(stale):
        if kinds[z] not in pc.SOURCES:
            continue
        rz = first.get(("read", z))
        if rz is None:
            continue
        for p in g.predecessors(z):
            for ev in avail(p):
                pk = first.get(ev)
                if not (pk is not None and pk < rz):
                    v.append(f"out-of-date dependent source {z} was read (event {rz}) before {ev} (its predecessor {p}; at {pk})")
    # ---- an out-of-date dependent source is refreshed by the run that finds it out of date - whatever the requested output
    if rr.exc is None and not any(e[0] == "cut" for e in events):
        for nd in b.spec["nodes"]:
            z = nd.get("writes")
            if nd["kind"] == "producer" and z in stale and ("write", z) not in first:
                v.append(f"dependent source {z} was out of date (downstream of what this run rebuilt or found changed) but its producer "
                         f"{nd['id']} did not run: the store behind it still holds content derived from the old values")
    # ---- values: consumers and the caller receive what `read` returned

    def expect_from(u):
        k = kinds[u]
        if k in pc.REGISTERED:
            if u not in readval:
                return ("<never read>", u)
            x = readval[u]
            if u in stale and k == "stored" and x != b.returned.get(u, ("<not computed>", u)):
                v.append(f"store {u} was rebuilt but its read returned {x!r}, the call computed {b.returned.get(u)!r}")
            if u in stale and k == "storedlit" and x != ("l", u):
                v.append(f"registered literal {u} was rebuilt but its read returned {x!r}")
            if u not in stale and u not in written and x != before[u][0]:
                v.append(f"store {u} was up to date but its read returned {x!r}, it held {before[u][0]!r} before the run")
            return ("norm", u, x)
        if k in pc.CALLS:
            return b.returned.get(u, ("<not computed>", u))
        return ("l", u)

    for c, (args, kwargs) in sorted(b.received.items()):
        nd = nodes[c]
        for pos, u in enumerate(nd["args"]):
            want = expect_from(u)
            if args[pos] != want:
                v.append(f"call {c} received {args[pos]!r} for its argument #{pos} (node {u}), expected {want!r}")
        for name, u in nd["kwargs"]:
            want = expect_from(u)
            if kwargs.get(name) != want:
                v.append(f"call {c} received {kwargs.get(name)!r} for its keyword {name} (node {u}), expected {want!r}")
    if rr.exc is None and not any(e[0] == "cut" for e in events):
        def want_out(o):
            if o is None:
                return None
            if "n" in o:
                return expect_from(o["n"])
            if "v" in o:
                return o["v"]
            if "list" in o:
                return [want_out(x) for x in o["list"]]
            if "tuple" in o:
                return tuple(want_out(x) for x in o["tuple"])
            return {want_out(k): want_out(x) for k, x in o["dict"]}
        w = want_out(outspec)
        if rr.value != w:
            v.append(f"run returned {rr.value!r}, expected {w!r} (what the stores' reads returned)")
    return v


# ------------------------------------------------------------------------------------------- one history
def random_state(rng, b, env, p_present=0.65):
    for i, s in sorted(b.stores.items()):
        if rng.random() < (0.93 if b.kinds[i] == "source" else p_present):
            if b.kinds[i] in pc.SOURCES:
                b.ver[i] = b.ver.get(i, 0) + 1
                s.value = ("s", i, b.ver[i])
            else:
                s.value = ("old", i, rng.randrange(100))
            s.mtime = env.tick()
        else:
            s.value, s.mtime = None, None


def run_history(spec, hseed, steps, driver, structural=True, behavioural=True):
    """Returns (violations, disagreements, stats)."""
    ce.BASE = ce.FUTURE if hseed % 4 == 3 else ce.PAST      # every fourth history plays in the future of the machine's clock
    rng = random.Random(hseed)
    env = ce.Env()
    b = pc.build_phys(spec, env)
    viol, dis = [], []
    st = {"comparisons": 0, "nontrivial": 0, "runs": 0, "runs_ok": 0, "runs_cut": 0, "runs_failed": 0, "rebuilt": 0,
          "dep_sources_read": 0, "with_write_nodes": 0, "with_barrier_kept": 0, "literal_pruned": 0,
          "registered_output": 0, "structured_output": 0, "no_output": 0, "source_before_its_stored_pred": 0,
          "values_checked": 0}
    pending = []      # (line, line_engine, line_loop, RealGraph, engine view, description)
    reg_order = [b.inv[id(n)] for n in b.reg.mapping]
    regpos = {i: k for k, i in enumerate(reg_order)}
    log = []
    random_state(rng, b, env)

    def compare(tag):
        outspec = pc.gen_outspec(rng, spec)
        F = rng.choice([None, None, env.clock, env.clock - 2, env.clock + 1])
        stale = set(ce.real_stale(b, env, F))
        outobj = pc.mk_output(b, outspec)
        env.quiet = True
        try:
            P, po = uberjob.run(b.plan, registry=b.reg, output=outobj, dry_run=True, fresh_time=ce.as_dt(F), progress=None)
        finally:
            env.quiet = False
        line, extras = pc.phys_line("final", b, outobj, stale)
        line2, _ = pc.phys_line("engine", b, outobj, stale)
        rg = pc.RealGraph(b, P, po, extras, stale)
        pending.append((line, line2, line.replace("phys final", "phys loopfinal", 1), rg, pc.engine_view(P), {"at": tag, "output": outspec, "fresh": F, "stale": sorted(stale)}))
        st["comparisons"] += 1
        sreg = [i for i in stale if i in b.stores]
        st["nontrivial"] += bool(sreg)
        st["with_write_nodes"] += any(b.kinds[i] in ("stored", "storedlit") for i in sreg)
        if outspec is None:
            st["no_output"] += 1
        elif "n" in outspec:
            st["registered_output"] += outspec["n"] in b.stores
        else:
            st["structured_output"] += 1
        for z in sreg:
            if b.kinds[z] in pc.SOURCES and any(b.kinds[p] == "stored" and p in stale and regpos[z] < regpos[p]
                                                for p in b.graph.predecessors(z)):
                st["source_before_its_stored_pred"] += 1
                break

    for step in range(steps):
        if structural:
            compare("step %d" % step)
            compare("step %d'" % step)
        r = rng.random()
        if r < 0.6 and behavioural:
            outspec = pc.gen_outspec(rng, spec)
            F = rng.choice([None, None, env.clock, env.clock - 2])
            workers = rng.choice([1, 2, 3, 4])
            sched = rng.choice(["default", "random"])
            cut, b.failing = None, set()
            kind = rng.random()
            if kind < 0.2:
                cut = rng.randint(0, 16)
            elif kind < 0.28:
                cs = [i for i, k in b.kinds.items() if k in pc.CALLS]
                if cs:
                    b.failing = {rng.choice(cs)}
            stale = set(ce.real_stale(b, env, F))
            before = pc.snapshot(b)
            env.rec = plans.Rec()
            env.count, env.cut_at = 0, cut
            b.received, b.returned = {}, {}
            outobj = pc.mk_output(b, outspec)
            seed = rng.randrange(1 << 30)
            max_errors = rng.choice([0, 0, None])
            rr = coop.run_controlled(
                lambda: uberjob.run(b.plan, registry=b.reg, output=outobj, fresh_time=ce.as_dt(F), max_workers=workers,
                                    scheduler=sched, progress=None, max_errors=max_errors), seed, mode="prim")
            env.cut_at = None
            events = list(env.rec.events)
            desc = {"op": "run", "output": outspec, "fresh": F, "workers": workers, "scheduler": sched, "cut": cut,
                    "failing": sorted(b.failing), "seed": seed, "stale": sorted(stale)}
            log.append(desc)
            st["runs"] += 1
            if rr.deadlock or rr.hang:
                log[-1]["hang"] = True      # C07's business; nothing to say about order
                break
            was_cut = any(e[0] == "cut" for e in events)
            st["runs_ok" if rr.exc is None else ("runs_cut" if was_cut else "runs_failed")] += 1
            st["rebuilt"] += sum(1 for e in events if e[0] == "write-end")
            st["dep_sources_read"] += sum(1 for e in events if e[0] == "read" and b.kinds[e[1]] in pc.SOURCES and e[1] in stale
                                          and any(True for _ in b.graph.predecessors(e[1])))
            st["values_checked"] += len(b.received)
            for what in monitor(b, events, stale, before, outspec, rr):
                viol.append({"property": "C09", "what": what, "step": desc, "events": [list(map(str, e)) for e in events[:60]]})
            if viol:
                break
        elif r < 0.78:
            srcs = [i for i, k in b.kinds.items() if k in pc.SOURCES]
            if srcs:
                s = rng.choice(srcs)
                b.ver[s] = b.ver.get(s, 0) + 1
                b.stores[s].value, b.stores[s].mtime = ("s", s, b.ver[s]), env.tick()
                log.append({"op": "update", "source": s})
        elif r < 0.9:
            cand = [i for i in sorted(b.stores) if b.kinds[i] != "source" or rng.random() < 0.25]
            if cand:
                i = rng.choice(cand)
                b.stores[i].value, b.stores[i].mtime = None, None
                log.append({"op": "delete", "store": i})
        else:
            random_state(rng, b, env, p_present=0.85)
            log.append({"op": "scramble"})
    if structural and not viol:
        compare("end")
    if driver is not None and pending and not viol:
        lines = []
        for line, line2, line3, _, _, _ in pending:
            lines += [line, line2, line3]
        out = driver.batch(lines)
        for k, (line, line2, line3, rg, ev, desc) in enumerate(pending):
            rep, rep2, rep3 = out[3 * k], out[3 * k + 1], out[3 * k + 2]
            if pc.norm_reply(rep3) != pc.norm_reply(rep):
                dis.append({"layer": "model:loop-vs-closed-form", "what": "the transcribed loop and the closed form differ",
                            "request": line3, "model": rep, "model_loop": rep3, "state": desc})
                break
            st["with_barrier_kept"] += bool(rg.barriers)
            st["literal_pruned"] += any(b.kinds[i] in pc.LITS and ("o%d" % i) not in rg.name.values() for i in b.kinds)
            real = rg.matches(rep, ev, rep2)
            if real is not None or rg.problems:
                dis.append({"layer": "physical-plan", "what": "dry-run graph differs from the model" if real is not None
                            else "; ".join(rg.problems), "request": line, "model": rep, "model_engine": rep2,
                            "impl": real, "impl_engine": pc.norm_reply(rg.text(rg.namings()[0], ev)), "state": desc})
                break
    for x in viol + dis:
        x.update(spec=spec, hseed=hseed, steps=steps, structural=structural, behavioural=behavioural, log=log[-6:])
    return viol, dis, st


# ------------------------------------------------------------------------------------------- explore / search / replay
class DropsCache:
    """a value whose pickled copy differs from the object in memory (a cache that is not serialised)"""

    def __init__(self):
        self.data, self.cache = [1, 2], "warm"

    def __getstate__(self):
        return {"data": self.data}

    def __setstate__(self, st):
        self.data, self.cache = st["data"], None


class StrSub(str):
    pass


def _canon(v):
    if isinstance(v, DropsCache):
        return "DropsCache(data=%r, cache=%r)" % (v.data, v.cache)
    return "%s:%r" % (type(v).__name__, v)


BUNDLED = {
    "pickle": ("PickleFileStore", DropsCache),
    "json": ("JsonFileStore", lambda: {"t": (1, 2), "n": None}),
    "binary": ("BinaryFileStore", lambda: bytearray(b"abc")),
    "text": ("TextFileStore", lambda: StrSub("x\r\ny")),
}


def bundled_readback_cases(only=None):
    """The value clause on the BUNDLED stores: values whose read-back legitimately differs from the object the call returned
    (a pickled copy without its unserialised cache, JSON's tuple -> list, bytearray -> bytes, a str subclass -> str).  A
    consumer (positional and keyword) and the caller must get the read-back form - in the run that rebuilds the value exactly
    as in a later run that finds it up to date."""
    import os
    import tempfile
    import uberjob.stores as st
    viol, done = [], 0
    for kind, (cls_name, make) in BUNDLED.items():
        for workers in (1, 3):
            if only and [kind, workers] != list(only):
                continue
            cls = getattr(st, cls_name)
            with tempfile.TemporaryDirectory() as d:
                probe = cls(os.path.join(d, "probe"))
                probe.write(make())
                expect = _canon(probe.read())
                got = []
                plan, reg = uberjob.Plan(), uberjob.Registry()
                a = plan.call(make)
                reg.add(a, cls(os.path.join(d, "value")))
                b = plan.call(lambda x: got.append(("pos", _canon(x))) or 1, a)
                c = plan.call(lambda *, x: got.append(("kw", _canon(x))) or 2, x=a)
                for rnd in ("rebuilding", "up-to-date"):
                    del got[:]
                    out = uberjob.run(plan, registry=reg, output=[a, b, c], max_workers=workers, progress=None)
                    done += 1
                    seen = dict(got)
                    for how in ("pos", "kw"):
                        if seen.get(how) != expect:
                            viol.append({"property": "C09", "kind": "bundled-readback", "case": [kind, workers],
                                         "what": f"{cls_name}, {rnd} run, {workers} worker(s): the consumer taking the stored value as a "
                                                 f"{'positional' if how == 'pos' else 'keyword'} argument received {seen.get(how)}; "
                                                 f"read() after write() gives {expect}"})
                    if _canon(out[0]) != expect:
                        viol.append({"property": "C09", "kind": "bundled-readback", "case": [kind, workers],
                                     "what": f"{cls_name}, {rnd} run, {workers} worker(s): run returned {_canon(out[0])} for the stored "
                                             f"value; read() after write() gives {expect}"})
                    if viol:
                        break
            if viol:
                return viol, done
    return viol, done


def literal_path_cases(only=None):
    """A rebuilt stored value reaches a stored value downstream ONLY through plain (unregistered) literal nodes:
    `add_dependency(raw, literal)` and the literal is an argument of the downstream stored call (one literal, two in a chain,
    positional / keyword).  Everything is built, the source gets a newer version, and the next run must rebuild `raw` AND,
    after it, the value downstream - and return the new value, not the stored old one."""
    import datetime as dt
    viol, done = [], 0
    for shape in ("one-pos", "one-kw", "chain"):
        for workers in (1, 3):
            if only and [shape, workers] != list(only):
                continue
            clock = [0]
            log = []

            class S(uberjob.ValueStore):
                def __init__(self, name, value=None):
                    self.name, self.value, self.t = name, value, None
                    if value is not None:
                        self.touch()

                def touch(self):
                    clock[0] += 1
                    self.t = dt.datetime(2021, 1, 1) + dt.timedelta(seconds=clock[0])

                def read(self):
                    return self.value

                def write(self, v):
                    self.value = v
                    self.touch()
                    log.append(self.name)

                def get_modified_time(self):
                    return self.t

            plan, reg = uberjob.Plan(), uberjob.Registry()
            s_src, s_raw, s_rep = S("src", "v1"), S("raw"), S("report")
            src = reg.source(plan, s_src)
            raw = plan.call(lambda x: "raw of " + x, src)
            reg.add(raw, s_raw)
            l1 = plan.lit("settings")
            plan.add_dependency(raw, l1)
            last = l1
            if shape == "chain":
                last = plan.lit("settings")
                plan.add_dependency(l1, last)
            if shape == "one-kw":
                rep = plan.call(lambda *, cfg: "report[%s] #%d" % (cfg, clock[0]), cfg=last)
            else:
                rep = plan.call(lambda cfg: "report[%s] #%d" % (cfg, clock[0]), last)
            reg.add(rep, s_rep)
            uberjob.run(plan, registry=reg, output=rep, max_workers=workers, progress=None)
            old = s_rep.value
            s_src.value = "v2"
            s_src.touch()
            del log[:]
            got = uberjob.run(plan, registry=reg, output=rep, max_workers=workers, progress=None)
            done += 2
            if log != ["raw", "report"]:
                viol.append({"property": "C09", "kind": "literal-path", "case": [shape, workers],
                             "what": f"{shape}, {workers} worker(s): the source is newer than `raw`, and `report` depends on `raw` "
                                     f"through plain literal node(s) only; the run wrote {log}, expected ['raw', 'report'] "
                                     f"(the stored value downstream of a rebuilt one must be rebuilt in the same run)"})
            elif got == old or got != s_rep.value:
                viol.append({"property": "C09", "kind": "literal-path", "case": [shape, workers],
                             "what": f"{shape}, {workers} worker(s): run returned {got!r}; the store holds {s_rep.value!r}, before the "
                                     f"run it held {old!r}"})
            if viol:
                return viol, done
    return viol, done


def explore_phys(ctx, n_hist, steps, structural=True, behavioural=True, salt=9):
    rng = random.Random(ctx.seed * 7919 + salt)
    viol, dis, tot, samples, distinct = [], [], {}, [], set()
    h = -1
    driver = pc.local_driver(ctx.driver)
    for h in range(n_hist):
        spec = pc.gen_phys_spec(rng, nmax=9 if ctx.tier == "quick" else 13)
        hseed = rng.randrange(1 << 30)
        v, d, st = run_history(spec, hseed, steps, driver, structural, behavioural)
        for k, x in st.items():
            tot[k] = tot.get(k, 0) + x
        viol += v
        dis += d
        if st["nontrivial"] or st["rebuilt"]:
            distinct.add((str(spec), hseed))
            if len(samples) < 2:
                samples.append({"spec": spec, "history_seed": hseed, "steps": steps, "stats": st})
        if len(viol) >= 3 or len(dis) >= 2:
            break
    if driver is not None:
        driver.close()
    cov = dict(tot)
    cov["histories"] = h + 1
    cov["evaluations"] = tot.get("comparisons", 0) * 3 + tot.get("runs", 0)
    cov["programs"] = h + 1
    cov["distinct_nontrivial"] = len(distinct)
    cov["rule"] = ("generated plans (sources, stored / unstored calls with positional and keyword arguments, registered and plain "
                   "literals, producer(+token)+dependent source, extra plain dependencies into and out of sources and literals) built "
                   "in a random creation order with registry.add at random later points; seeded histories of source updates, "
                   "deletions, scrambles and REAL runs (normalising stores, cooperative scheduler, 1-4 workers, cut short / failing "
                   "call); at every state 2 x (random output: none / node / structure, random fresh_time): real dry_run graph and "
                   "engine graph == Lean model (driver `phys final|engine`; `phys loopfinal` = the transcribed loop + prune_plan must agree "
                   "too), exact node order and keyed edges; every real run: "
                   "event-log and value monitor; distinct_nontrivial = histories with an out-of-date registered node")
    cov["samples"] = samples
    return {"violations": viol, "disagreements": dis, "coverage": cov}


def explore(ctx):
    from harness.common import Broken
    quick = ctx.tier == "quick"
    res = explore_phys(ctx, 130 if quick else 2600, steps=4 if quick else 5)
    cov = res["coverage"]
    # the execution model with normalising stores (C09_consumer_gets_readback, C09_norm_simulation): driver `execn`
    rn = norm_exec.explore_norm(ctx, 70 if quick else 1500, steps=5, props=PROPS)
    res["violations"] += rn["violations"]
    res["disagreements"] += rn["disagreements"]
    cov.update(rn["coverage"])
    cov["evaluations"] += rn["coverage"].get("norm_effects", 0)
    if not res["violations"]:
        v, n = bundled_readback_cases()
        res["violations"] += v
        cov["bundled_readback_runs"] = n
    if not res["violations"]:
        v, n = literal_path_cases()
        res["violations"] += v
        cov["literal_path_runs"] = n
    if not res["violations"] and not res["disagreements"]:
        if cov.get("norm_rebuilt", 0) == 0 or cov.get("norm_consumed_readbacks", 0) == 0 or cov.get("norm_partial_runs", 0) == 0:
            raise Broken("correspondence", "generator-floor", "no run with normalising stores rebuilt a value / consumed a read-back")
        # floors: a generator that stops producing the interesting cases must not pass vacuously
        if cov["comparisons"] and cov["nontrivial"] * 3 < cov["comparisons"]:
            raise Broken("correspondence", "generator-floor", "fewer than a third of the compared states have an out-of-date registered node")
        if cov["with_write_nodes"] == 0 or cov["rebuilt"] == 0 or cov["source_before_its_stored_pred"] == 0:
            raise Broken("correspondence", "generator-floor", "no rebuilt stored value / no dependent source registered before its stored predecessor")
    return res


def search(ctx, broken):
    class C:
        pass
    found = []
    for k in range(1, 4):
        c = C()
        c.__dict__.update(ctx.__dict__)
        c.seed = ctx.seed + 977 * k
        c.driver = None
        found += explore_phys(c, 500, steps=5, structural=False)["violations"]
        if not found:
            found += norm_exec.explore_norm(c, 300, steps=5, props=PROPS)["violations"]
        if not found:
            found += bundled_readback_cases()[0]
        if not found:
            found += literal_path_cases()[0]
        if found:
            break
    return found


def replay(ctx, payload):
    w = payload.get("witness", payload)
    if w.get("kind") == "norm":
        return norm_exec.replay_norm(ctx, w, PROPS)
    if w.get("kind") == "bundled-readback":
        v, _ = bundled_readback_cases(only=w["case"])
        return v[0]["what"] if v else None
    if w.get("kind") == "literal-path":
        v, _ = literal_path_cases(only=w["case"])
        return v[0]["what"] if v else None
    # the real scheduler breaks ties by object identity (greedy priorities over sets of nodes): a schedule-dependent
    # witness may need more than one attempt
    for _ in range(4):
        v, d, _ = run_history(w["spec"], w["hseed"], w["steps"], ctx.driver, w.get("structural", True), w.get("behavioural", True))
        if v or d:
            break
    if v:
        return v[0]["what"]
    if d:
        return "model/implementation disagreement: " + str({k: d[0][k] for k in ("what", "request", "model", "impl")})[:500]
    return None


def explore_shard(ctx):
    """extra parallel shard of the thorough tier: graph comparisons and real runs under the cooperative scheduler"""
    res = explore_phys(ctx, 2600, steps=5)
    rn = norm_exec.explore_norm(ctx, 1500, steps=5, props=PROPS)
    res["violations"] += rn["violations"]
    res["disagreements"] += rn["disagreements"]
    res["coverage"].update(rn["coverage"])
    return res
