import os
import subprocess

from harness.props._engine_common import make

explore, search, replay = make({"C17", "C07"}, n_prim_q=40, n_op_q=0, n_intr_q=100, n_prim_t=500, n_op_t=0, n_intr_t=3000)

ASSUMPTIONS = [
    "the KeyboardInterrupt reaches the calling thread while it is inside queue.join() (where it spends the run); an interrupt during "
    "thread start-up or during the final join is outside the statement and recorded as known finding F7",
    "between delivery of the signal and the execution of `stop = True` workers may still start calls (a few bytecodes)",
]


def probe_known(ctx, k):
    """F7: SIGINT during worker_pool's thread start-up (real signal, subprocess)."""
    here = os.path.dirname(os.path.dirname(os.path.abspath(__file__)))
    env = dict(os.environ, PYTHONPATH=os.environ.get("VERIF_REPO", "/repo") + "/src")
    try:
        r = subprocess.run(["/venv/bin/python", os.path.join(here, "probes", "ki_during_spawn.py")], capture_output=True, text=True,
                           timeout=20, env=env)
    except subprocess.TimeoutExpired:
        return "present"
    return "present" if r.stdout.strip().startswith("present") else "absent"


def matches_known(k, v):
    return isinstance(v, dict) and v.get("witness_kind") == "interrupt-during-thread-startup"
