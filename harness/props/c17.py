from harness.props._engine_common import make

explore, search, replay = make({"C17", "C07"}, n_prim_q=40, n_op_q=0, n_intr_q=100, n_prim_t=500, n_op_t=0, n_intr_t=3000)
