"""Shared explore/search/replay for the properties decided on the engine model (C01 C04 C06 C07 C10 C17)."""
from harness import engine_explore as ee


def make(props, n_prim_q=140, n_op_q=25, n_intr_q=0, n_prim_t=4000, n_op_t=800, n_intr_t=0, user_level=None):
    props = set(props)

    def explore(ctx):
        q = ctx.tier == "quick"
        res = ee.explore_engine(ctx, props, n_prim_q if q else n_prim_t, n_op_q if q else n_op_t,
                                n_intr_q if q else n_intr_t)
        if user_level is not None and not res["violations"] and not res["disagreements"]:
            extra = user_level(ctx)
            res["violations"] += extra.get("violations", [])
            res["disagreements"] += extra.get("disagreements", [])
            for k, v in extra.get("coverage", {}).items():
                res["coverage"]["user_" + k] = v
        return res

    def search(ctx, broken):
        """Something no longer checks: look harder for a concrete failing schedule (opcode-level preemption first)."""
        class C:  # a shallow copy of ctx with another seed stream
            pass
        found = []
        for k in range(1, 5):
            c = C()
            c.__dict__.update(ctx.__dict__)
            c.seed = ctx.seed + 1000 * k
            c.driver = None          # monitors only: the correspondence is already known to be broken
            res = ee.explore_engine(c, props, 40, 700 if ctx.tier == "quick" else 4000, n_intr_q, p_template=0.6,
                                    op_switch=(0.05, 0.2, 0.4))
            found += res["violations"]
            if found:
                break
        return found

    def replay(ctx, payload):
        return ee.replay_engine(ctx, payload, props)

    return explore, search, replay
