"""Shared explore/search/replay for the properties decided on the engine model (C01 C04 C06 C07 C10 C17)."""
from harness import engine_explore as ee
from harness import user_explore as ue


def make(props, n_prim_q=140, n_op_q=25, n_intr_q=0, n_prim_t=4000, n_op_t=800, n_intr_t=0,
         user_q=(60, 10, 0), user_t=(1500, 300, 0), extra=None):
    props = set(props)

    def explore(ctx):
        q = ctx.tier == "quick"
        res = ee.explore_engine(ctx, props, n_prim_q if q else n_prim_t, n_op_q if q else n_op_t,
                                n_intr_q if q else n_intr_t)
        if not res["violations"] and not res["disagreements"]:
            u = ue.explore_user(ctx, props, *(user_q if q else user_t))
            res["violations"] += u["violations"]
            res["disagreements"] += u["disagreements"]
            for k, v in u["coverage"].items():
                res["coverage"]["user_" + k] = v
            res["coverage"]["traces_validated_against_impl"] += u["coverage"]["engine_traces_validated"]
        if extra is not None and not res["violations"]:
            x = extra(ctx)
            res["violations"] += x.get("violations", [])
            res["disagreements"] += x.get("disagreements", [])
            res["coverage"].update(x.get("coverage", {}))
        return res

    def shard(ctx):
        """the schedule-controlled part (cooperative scheduler), for the extra parallel shards of the thorough tier"""
        q = ctx.tier == "quick"
        res = ee.explore_engine(ctx, props, n_prim_q if q else n_prim_t, n_op_q if q else n_op_t, n_intr_q if q else n_intr_t)
        if not res["violations"] and not res["disagreements"]:
            u = ue.explore_user(ctx, props, *(user_q if q else user_t))
            res["violations"] += u["violations"]
            res["disagreements"] += u["disagreements"]
            for k, v in u["coverage"].items():
                res["coverage"]["user_" + k] = v
            res["coverage"]["traces_validated_against_impl"] += u["coverage"]["engine_traces_validated"]
        return res

    explore.shard = shard

    def search(ctx, broken):
        """Something no longer checks: look harder for a concrete failing schedule (opcode-level preemption first)."""
        class C:
            pass
        found = []
        for k in range(1, 5):
            c = C()
            c.__dict__.update(ctx.__dict__)
            c.seed = ctx.seed + 1000 * k
            c.driver = None          # monitors only: the correspondence is already known to be broken
            res = ee.explore_engine(c, props, 40, 700 if ctx.tier == "quick" else 4000, n_intr_q, p_template=0.6,
                                    op_switch=(0.05, 0.2, 0.4))
            found += res["violations"]
            if not found:
                found += ue.explore_user(c, props, 150, 150, user_q[2] * 3)["violations"]
            if not found and extra is not None:
                found += extra(c).get("violations", [])
            if found:
                break
        return found

    def replay(ctx, payload):
        w = payload.get("witness", payload)
        if "user_case" in w:
            return ue.replay_user(ctx, w, props)
        if "replay_fn" in w and extra is not None:
            return extra(ctx, replay=w)
        return ee.replay_engine(ctx, payload, props)

    return explore, search, replay
