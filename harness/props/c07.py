import random

import networkx as nx

from harness import engine_explore as ee
from harness.props._engine_common import make
from uberjob._util.networkx_util import topological_sort


def kahn_diff(ctx, replay=None):
    """T2: the Lean Kahn model vs the real topological_sort on random (cyclic and acyclic) multigraphs: exact yield order."""
    rng = random.Random(ctx.seed * 31 + 7)
    n_cases = 300 if ctx.tier == "quick" else 6000
    lines, cases = [], []
    for _ in range(n_cases):
        n = rng.randint(0, 9)
        g = ee.gen_graph(rng, n, p_edge=rng.choice([0.15, 0.3, 0.5]))
        nodes = list(g.nodes())
        for _ in range(rng.choice([0, 0, 1, 2])):          # back edges -> cycles
            if n >= 2:
                u, v = rng.sample(nodes, 2)
                g.add_edge(u, v)
        if n >= 1 and rng.random() < 0.05:
            g.add_edge(nodes[0], nodes[0])                   # self loop
        try:
            impl = "order " + " ".join(map(str, topological_sort(g)))
        except nx.HasACycle:
            impl = "cycle"
        cases.append((nodes, list(g.edges()), impl))
        lines.append("kahn | %s | %s" % (" ".join(map(str, nodes)), " ".join("%d,%d" % (u, v) for u, v in g.edges())))
    dis = []
    if ctx.driver is not None:
        out = ctx.driver.batch(lines)
        for (nodes, edges, impl), model in zip(cases, out):
            if impl.strip() != model.strip():
                dis.append({"layer": "kahn", "nodes": nodes, "edges": edges, "impl": impl, "model": model})
                break
    cyc = sum(1 for c in cases if c[2] == "cycle")
    return {"violations": [], "disagreements": dis,
            "coverage": {"kahn_graphs": len(cases), "kahn_cyclic": cyc, "programs": len(cases)}}


def real_thread_runs(ctx):
    """Real threads, bundled progress observers (they start an update thread): after run returns or raises, every thread
    it created has exited and none of the plan's functions is still executing."""
    import contextlib
    import io
    import threading

    import uberjob
    from harness import plans
    from uberjob.progress import console_progress, html_progress, null_progress
    rng = random.Random(ctx.seed * 5 + 2)
    n = 12 if ctx.tier == "quick" else 150
    viol = []
    done = 0
    import tempfile
    for ri in range(n):
        spec = plans.gen_spec(rng, nmax=7)
        calls = [nd["id"] for nd in spec["nodes"] if nd["kind"] == "call"]
        failing = {i: rng.choice(["Failure", "BaseFailure", "SystemExit"]) for i in rng.sample(calls, min(len(calls), rng.choice([0, 0, 1, 2])))}
        special = ri % 12
        if special in (2, 5, 8, 11) and calls:
            # a failure that is awkward to DISPLAY (it cannot be printed / its cause chain is a cycle), with a display that shows
            # exceptions
            failing = {calls[0]: "Unprintable" if special in (2, 8) else "CyclicCause"}
        rec = plans.Rec()
        plan, N, _ = plans.build(spec, rec, failing)
        base = set(threading.enumerate())
        with tempfile.TemporaryDirectory() as d:
            prog = rng.choice([console_progress, html_progress(d + "/p.html"), null_progress, (console_progress, html_progress(d + "/q.html"))])
            if special in (2, 5, 8, 11) and calls:
                prog = {2: console_progress, 5: console_progress, 8: html_progress(d + "/e.html"),
                        11: (console_progress, html_progress(d + "/f.html"))}[special]
            if special == 3:
                # a display whose output is SLOW (a page on a network mount) and still being written when the run ends: run returns
                # only when the display's thread is gone
                import time as _t
                from uberjob.progress import Progress
                from uberjob.progress._html_progress_observer import HtmlProgressObserver

                def slow_output(_bytes):
                    _t.sleep(0.6)
                prog = Progress(lambda: HtmlProgressObserver(slow_output, initial_update_delay=0.01, min_update_interval=0.01, max_update_interval=0.2))
            if special in (1, 9):
                # a composite in which a thread-owning observer sits next to one that raises while being entered / left
                # (whichever comes first in the list): the update thread must be gone when run has raised
                from uberjob.progress import Progress
                from uberjob.progress._null_progress_observer import NullProgressObserver

                class Faulty(NullProgressObserver):
                    def __init__(self, where):
                        self.where = where

                    def __enter__(self):
                        if self.where == "enter":
                            raise OSError("this observer cannot be entered")
                        return super().__enter__()

                    def __exit__(self, *a):
                        if self.where == "exit":
                            raise OSError("this observer fails while being left")
                        return super().__exit__(*a)

                class FaultyProgress(Progress):
                    def __init__(self, where):
                        self.where = where

                    def observer(self):
                        return Faulty(self.where)

                owner = rng.choice([console_progress, html_progress(d + "/r.html")])
                faulty = FaultyProgress(rng.choice(["enter", "exit"]))
                prog = (owner, faulty) if rng.random() < 0.5 else (faulty, owner)
            out = [N[i] for i in rng.sample(list(N), min(len(N), 2))]
            buf = io.StringIO()
            opts = dict(max_workers=rng.choice([1, 2, 5]), max_errors=rng.choice([0, 1, None]), scheduler=rng.choice(["default", "random"]))
            from harness import common
            with contextlib.redirect_stdout(buf), contextlib.redirect_stderr(buf):
                how, info = common.bounded(lambda: uberjob.run(plan, output=out, progress=prog, **opts), 60.0)
            if how == "hung":
                viol.append({"property": "C07", "what": f"uberjob.run (real threads, {opts}) did not return within 60 s; still there: {info[:4]}",
                             "user_case": {"spec": spec, "output": None, "workers": opts["max_workers"], "max_errors": opts["max_errors"],
                                           "scheduler": opts["scheduler"], "failing": failing}, "seed": 0})
                break
        left = [t for t in threading.enumerate() if t not in base and t.is_alive()]
        started = sum(1 for e in rec.events if e[0] == "start")
        finished = sum(1 for e in rec.events if e[0] in ("end", "fail"))
        done += 1
        if left:
            viol.append({"property": "C07", "what": f"threads created by run are still alive after it returned: {[t.name for t in left]}",
                         "user_case": {"spec": spec, "output": None, "workers": 2, "max_errors": 0, "scheduler": "default", "failing": {}}, "seed": 0})
        if started != finished:
            viol.append({"property": "C07", "what": f"{started - finished} call(s) still executing when run returned",
                         "user_case": {"spec": spec, "output": None, "workers": 2, "max_errors": 0, "scheduler": "default", "failing": {}}, "seed": 0})
        if viol:
            break
    return {"violations": viol, "disagreements": [], "coverage": {"real_thread_runs_with_observers": done}}


def registry_cycle_runs(ctx, replay=None):
    """A dependency cycle in a plan that is run WITH a registry: the stale check examines the whole plan, so the cycle must be
    reported before any store is asked for its modified time, read or written and before any call executes."""
    import uberjob
    from harness import cache_explore as ce
    from harness import plans
    rng = random.Random(ctx.seed * 77 + 5)
    n = 40 if ctx.tier == "quick" else 1500
    viol, done, with_prefix = [], 0, 0
    cases = [replay["cycle_case"]] if replay else None
    for k in range(len(cases) if cases else n):
        if cases:
            spec, (u, v), out, workers = cases[k]["spec"], cases[k]["back"], cases[k]["out"], cases[k]["workers"]
        else:
            spec = ce.gen_cache_spec(rng, nmax=8)
            g = nx.DiGraph()
            for nd in spec["nodes"]:
                g.add_node(nd["id"])
                for p in nd["args"] + nd["deps"]:
                    g.add_edge(p, nd["id"])
            pairs = [(a, d) for a in g.nodes() for d in nx.descendants(g, a)]
            if not pairs:
                continue
            u, v = rng.choice(pairs)                 # v depends on u: the extra dependency v -> u closes a cycle
            out = rng.sample(list(g.nodes()), min(len(g), rng.choice([0, 1, 2])))
            workers = rng.choice([1, 2, 4])
            if k % 2 == 1:
                # every other case: the cycle lies strictly DOWNSTREAM of everything that has a store (two more calls at the
                # end of the plan, requested as output) - nothing registered is an ancestor of the cycle's way out
                n0 = len(spec["nodes"])
                spec["nodes"].append({"id": n0, "kind": "call", "args": [n0 - 1], "deps": []})
                spec["nodes"].append({"id": n0 + 1, "kind": "call", "args": [n0], "deps": []})
                u, v, out = n0, n0 + 1, [n0 + 1]
        env = ce.Env()
        b = ce.build_cache(spec, env)
        for nd in spec["nodes"]:                     # sources hold something, so that nothing else can fail first
            if nd["kind"] in ("source", "dsource"):
                b.stores[nd["id"]].value, b.stores[nd["id"]].mtime = ("s", nd["id"], 1), env.tick()
        b.plan.add_dependency(b.N[v], b.N[u])
        env.rec = plans.Rec()
        exc = None
        try:
            uberjob.run(b.plan, registry=b.reg, output=[b.N[i] for i in out] or None, max_workers=workers, progress=None)
        except BaseException as e:      # noqa: BLE001
            exc = e
        done += 1
        anc_free = [e for e in env.rec.events]
        with_prefix += any(nd["kind"] in ("source", "stored", "dsource") for nd in spec["nodes"])
        case = {"spec": spec, "back": [u, v], "out": out, "workers": workers}
        if not isinstance(exc, nx.HasACycle):
            viol.append({"property": "C07", "what": f"a dependency cycle ({v} -> {u} -> ... -> {v}) in a plan run with a registry was not "
                         f"reported: run gave {exc!r}", "replay_fn": "registry_cycle", "cycle_case": case})
        elif anc_free:
            viol.append({"property": "C07", "what": "the cycle was reported only AFTER stores had been accessed / calls executed: "
                         f"{anc_free[:5]}", "replay_fn": "registry_cycle", "cycle_case": case})
        if viol:
            break
    return {"violations": viol, "disagreements": [], "coverage": {"registry_cycle_runs": done, "registry_cycle_with_stores": with_prefix}}


def extras(ctx, replay=None):
    if replay is not None:
        if replay.get("replay_fn") == "registry_cycle":
            r = registry_cycle_runs(ctx, replay=replay)
            return r["violations"][0]["what"] if r["violations"] else None
        return None
    a = kahn_diff(ctx)
    b = real_thread_runs(ctx)
    c = registry_cycle_runs(ctx)
    # the default scheduler's priorities (Model/Greedy.lean) against greedy.get_priority_mapping
    from harness import greedy_model
    d = greedy_model.explore_greedy(ctx, 60 if ctx.tier == "quick" else 1500)
    cov = dict(a["coverage"])
    cov.update(b["coverage"])
    cov.update(c["coverage"])
    cov.update(d["coverage"])
    return {"violations": a["violations"] + b["violations"] + c["violations"],
            "disagreements": a["disagreements"] + b["disagreements"] + d["disagreements"], "coverage": cov}


explore, search, replay = make({"C07"}, user_q=(50, 10, 40), user_t=(1200, 300, 1200), extra=extras)


def probe_known(ctx, k):
    """F8: Thread.start failing during worker_pool's thread start-up (subprocess, its own watchdog)."""
    import os
    import subprocess
    if k.get("id") != "F8":
        return "absent"
    here = os.path.dirname(os.path.dirname(os.path.abspath(__file__)))
    env = dict(os.environ, PYTHONPATH=os.environ.get("VERIF_REPO", "/repo") + "/src")
    try:
        r = subprocess.run(["/venv/bin/python", os.path.join(here, "probes", "thread_start_failure.py")], capture_output=True, text=True,
                           timeout=20, env=env)
    except subprocess.TimeoutExpired:
        return "present"
    return "present" if r.stdout.strip().startswith("present") else "absent"


def matches_known(k, v):
    return isinstance(v, dict) and v.get("witness_kind") == "thread-start-failure"
