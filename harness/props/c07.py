import random

import networkx as nx

from harness import engine_explore as ee
from harness.props._engine_common import make
from uberjob._util.networkx_util import topological_sort


def kahn_diff(ctx, replay=None):
    """T2: the Lean Kahn model vs the real topological_sort on random (cyclic and acyclic) multigraphs: exact yield order."""
    rng = random.Random(ctx.seed * 31 + 7)
    n_cases = 300 if ctx.tier == "quick" else 6000
    lines, cases = [], []
    for _ in range(n_cases):
        n = rng.randint(0, 9)
        g = ee.gen_graph(rng, n, p_edge=rng.choice([0.15, 0.3, 0.5]))
        nodes = list(g.nodes())
        for _ in range(rng.choice([0, 0, 1, 2])):          # back edges -> cycles
            if n >= 2:
                u, v = rng.sample(nodes, 2)
                g.add_edge(u, v)
        if n >= 1 and rng.random() < 0.05:
            g.add_edge(nodes[0], nodes[0])                   # self loop
        try:
            impl = "order " + " ".join(map(str, topological_sort(g)))
        except nx.HasACycle:
            impl = "cycle"
        cases.append((nodes, list(g.edges()), impl))
        lines.append("kahn | %s | %s" % (" ".join(map(str, nodes)), " ".join("%d,%d" % (u, v) for u, v in g.edges())))
    dis = []
    if ctx.driver is not None:
        out = ctx.driver.batch(lines)
        for (nodes, edges, impl), model in zip(cases, out):
            if impl.strip() != model.strip():
                dis.append({"layer": "kahn", "nodes": nodes, "edges": edges, "impl": impl, "model": model})
                break
    cyc = sum(1 for c in cases if c[2] == "cycle")
    return {"violations": [], "disagreements": dis,
            "coverage": {"kahn_graphs": len(cases), "kahn_cyclic": cyc, "programs": len(cases)}}


explore, search, replay = make({"C07"}, user_q=(50, 10, 40), user_t=(1200, 300, 1200), extra=kahn_diff)
