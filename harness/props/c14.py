"""C14 — a dry run touches nothing and returns a faithful, self-contained physical plan.

On the generated (plan, registry) pairs of harness/phys_common.py, along seeded histories (every state is reached from a
random initial state by real runs, source updates, deletions), for random outputs and fresh_time values:

(a) QUIET: during `run(..., dry_run=True)` the event log of the stores and calls contains only `get_modified_time`
    queries (each store at most once, exactly the registered nodes without an out-of-date predecessor); the Plan, the
    Registry and every store are untouched; the result is a new Plan.
(b) SELF-CONTAINED: two clones A, B of the same spec in the same store state.  The dry run is taken on A and the plan
    it returned is executed by itself, `uberjob.run(P, output=list(P.graph.nodes()))` — no registry — (its store
    literals point at A's stores); the real run `uberjob.run(plan, registry=…, output=…, fresh_time=…)` is made on B.
    Both must perform the same multiset of calls, store reads and store writes, leave the same store contents, fail or
    succeed together, and the value at the dry run's output node must be the real run's result.
(c) MODEL: dry-running `P` again with the all-nodes output gives exactly `P` plus the gather (nodes in order, keyed
    edges) and equals the Lean model `prunePlan (addSink (physFinal …))` (driver `phys plus`) — C14_selfcontained.
"""
from __future__ import annotations

import collections
import random

import uberjob
from harness import cache_explore as ce
from harness import coop, plans
from harness import phys_common as pc
from harness.props.c09 import random_state

GEN = ["Stale", "DryRun"]
PROPS = {"C14"}
ASSUMPTIONS = [
    "the outcome of a run does not depend on the schedule: a producer of a dependent source (and its ordering token) is consumed "
    "by nothing but that source and is never requested as output (otherwise the producer's write races with the read of an "
    "up-to-date dependent source in the real run as well - DESIGN 7.7)",
    "call functions and stores are deterministic functions of their inputs and the store state (Herbrand terms, logical clock)",
    "modified times of independent stores may be assigned in a different order by two runs; store CONTENTS and which stores "
    "were written are compared, and both clones are re-synchronised after each compared pair of runs",
    "failing runs are compared with max_errors=None (everything not downstream of a failure runs), so the multiset of "
    "events does not depend on the schedule",
]

WORK = ("call", "read", "write-begin", "write-end", "produced")


def graph_fingerprint(plan):
    g = plan.graph
    return ([id(n) for n in g.nodes()], sorted((id(u), id(v), pc.key_str(k)) for u, v, k in g.edges(keys=True)))


def registry_fingerprint(reg):
    return [(id(n), id(rv.value_store), rv.is_source) for n, rv in reg.mapping.items()]


def work_events(events):
    return collections.Counter((e[0], e[1]) for e in events if e[0] in WORK)


def mk_transform(env):
    """A `transform_physical` that adds one more call to the physical plan (it must be part of the dry-run result)."""
    def marker():
        env.event("call", "tp")
        return "tp"

    def post(v):
        env.event("call", "tp-post")
        return ("post", v)

    def transform(plan, out):
        plan.call(marker)
        if out is not None:
            # ... and that REDIRECTS the output to a post-processing call: the dry run must return this new output node
            return plan, plan.call(post, out)
        return plan, out
    return transform


def sync(dst, src, env_dst, env_src):
    for i, s in src.stores.items():
        dst.stores[i].value, dst.stores[i].mtime = s.value, s.mtime
    dst.ver = dict(src.ver)
    env_dst.clock = env_src.clock


def run_history(spec, hseed, steps, driver):
    rng = random.Random(hseed)
    envA, envB = ce.Env(), ce.Env()
    A, B = pc.build_phys(spec, envA), pc.build_phys(spec, envB)
    viol, dis = [], []
    st = {"dry_runs": 0, "pairs": 0, "pairs_ok": 0, "pairs_failing": 0, "nontrivial": 0, "work_events": 0,
          "mtime_queries": 0, "no_output": 0, "registered_output": 0, "structured_output": 0, "model_lines": 0,
          "with_transform_physical": 0}
    pending = []
    log = []
    random_state(rng, A, envA)
    sync(B, A, envB, envA)

    def bad(what, desc):
        viol.append({"property": "C14", "what": what, "step": desc})

    for step in range(steps):
        outspec = pc.gen_outspec(rng, spec, private=True)
        F = rng.choice([None, None, envA.clock, envA.clock - 2, envA.clock + 1])
        workers = rng.choice([1, 2, 3])
        sched = rng.choice(["default", "random"])
        seed = rng.randrange(1 << 30)
        use_tp = rng.random() < 0.3
        desc = {"op": "pair", "output": outspec, "fresh": F, "workers": workers, "scheduler": sched, "seed": seed,
                "transform_physical": use_tp}
        log.append(desc)
        stale = set(ce.real_stale(A, envA, F))
        desc["stale"] = sorted(stale)
        # ---------------- (a) the dry run on A
        gfp, rfp, snap = graph_fingerprint(A.plan), registry_fingerprint(A.reg), pc.snapshot(A)
        envA.rec = plans.Rec()
        envA.count = 0
        outA = pc.mk_output(A, outspec)
        P, po = uberjob.run(A.plan, registry=A.reg, output=outA, dry_run=True, fresh_time=ce.as_dt(F), progress=None,
                            max_workers=workers, transform_physical=mk_transform(envA) if use_tp else None)
        st["dry_runs"] += 1
        ev = list(envA.rec.events)
        other = [e for e in ev if e[0] != "mtime"]
        if other:
            bad(f"the dry run performed {other[:5]} (only get_modified_time queries are allowed)", desc)
        q = [e[1] for e in ev if e[0] == "mtime"]
        st["mtime_queries"] += len(q)
        want_q = sorted(i for i in A.stores if not any(p in stale for p in A.graph.predecessors(i)))
        if sorted(q) != want_q:
            bad(f"the dry run asked the stores {sorted(q)} for their modified time, expected exactly {want_q}", desc)
        if graph_fingerprint(A.plan) != gfp:
            bad("the dry run modified the Plan", desc)
        if registry_fingerprint(A.reg) != rfp:
            bad("the dry run modified the Registry", desc)
        if pc.snapshot(A) != snap:
            bad("the dry run modified a store", desc)
        if P is A.plan or not isinstance(P, uberjob.Plan):
            bad("the dry run did not return a new Plan", desc)
        if (po is None) != (outspec is None) or (po is not None and not P.graph.has_node(po)):
            bad("the dry run's output node is not a node of the returned plan", desc)
        if viol:
            break
        # ---------------- (c) the returned plan with the all-nodes output, dry-run again / the Lean model
        nodes = list(P.graph.nodes())
        P2, sink = uberjob.run(P, output=list(nodes), dry_run=True, progress=None)
        line, extras = pc.phys_line("plus", A, outA, stale)
        rg = pc.RealGraph(A, P, po, extras, stale)
        n2 = list(P2.graph.nodes())
        e1 = sorted((id(u), id(v), pc.key_str(k)) for u, v, k in P.graph.edges(keys=True))
        e2 = sorted((id(u), id(v), pc.key_str(k)) for u, v, k in P2.graph.edges(keys=True) if v is not sink)
        sink_edges = sorted((id(u), pc.key_str(k)) for u, v, k in P2.graph.edges(keys=True) if v is sink)
        if [id(n) for n in n2[:-1]] != [id(n) for n in nodes] or n2[-1:] != [sink] or e1 != e2 \
                or sink_edges != sorted((id(n), "p%d" % k) for k, n in enumerate(nodes)):
            bad("pruning the returned plan w.r.t. a gather of all its nodes changed it: "
                f"{len(nodes)} nodes / {len(e1)} edges before, {len(n2) - 1} / {len(e2)} after", desc)
            break
        if not use_tp:
            pending.append((line, rg, P2, sink, desc))
        st["with_transform_physical"] += use_tp
        # ---------------- (b) execute the returned plan by itself on A, the real run on B
        envA.rec, envB.rec = plans.Rec(), plans.Rec()
        envA.count = envB.count = 0
        A.received, A.returned, B.received, B.returned = {}, {}, {}, {}
        rA = coop.run_controlled(lambda: uberjob.run(P, output=list(nodes), progress=None, max_workers=workers,
                                                     scheduler=sched, max_errors=None), seed, mode="prim")
        outB = pc.mk_output(B, outspec)
        rB = coop.run_controlled(lambda: uberjob.run(B.plan, registry=B.reg, output=outB, fresh_time=ce.as_dt(F),
                                                     progress=None, max_workers=workers, scheduler=sched, max_errors=None,
                                                     transform_physical=mk_transform(envB) if use_tp else None),
                                 seed + 1, mode="prim")
        st["pairs"] += 1
        if rA.deadlock or rA.hang or rB.deadlock or rB.hang:
            desc["hang"] = True
            break
        wa, wb = work_events(envA.rec.events), work_events(envB.rec.events)
        st["work_events"] += sum(wb.values())
        st["nontrivial"] += bool(wb)
        if outspec is None:
            st["no_output"] += 1
        elif "n" in outspec:
            st["registered_output"] += outspec["n"] in A.stores
        else:
            st["structured_output"] += 1
        if wa != wb:
            bad(f"executing the dry-run plan performed {sorted((wa - wb).items())} more and {sorted((wb - wa).items())} fewer "
                "calls / store operations than the real run", desc)
        if (rA.exc is None) != (rB.exc is None):
            bad(f"executing the dry-run plan gave {rA.exc!r}, the real run gave {rB.exc!r}", desc)
        elif rA.exc is not None:
            st["pairs_failing"] += 1
            if type(rA.exc) is not type(rB.exc):
                bad(f"executing the dry-run plan raised {rA.exc!r}, the real run raised {rB.exc!r}", desc)
        else:
            st["pairs_ok"] += 1
            got = None if po is None else rA.value[[id(n) for n in nodes].index(id(po))]
            if got != rB.value:
                bad(f"the value at the dry run's output node is {got!r}, the real run returned {rB.value!r}", desc)
        sa, sb = pc.snapshot(A), pc.snapshot(B)
        for i in sa:
            if sa[i][0] != sb[i][0] or (sa[i][1] is None) != (sb[i][1] is None) or \
                    (sa[i][1] != snap[i][1]) != (sb[i][1] != snap[i][1]):
                bad(f"store {i} holds {sa[i][0]!r} after executing the dry-run plan and {sb[i][0]!r} after the real run "
                    f"(modified: {sa[i][1] != snap[i][1]} / {sb[i][1] != snap[i][1]})", desc)
                break
        if viol:
            break
        envA.clock = max(envA.clock, envB.clock)
        sync(B, A, envB, envA)
        # ---------------- something else happens to the stores
        r = rng.random()
        if r < 0.45:
            srcs = [i for i, k in A.kinds.items() if k in pc.SOURCES]
            if srcs:
                s = rng.choice(srcs)
                A.ver[s] = A.ver.get(s, 0) + 1
                A.stores[s].value, A.stores[s].mtime = ("s", s, A.ver[s]), envA.tick()
                log.append({"op": "update", "source": s})
        elif r < 0.7:
            cand = [i for i in sorted(A.stores) if A.kinds[i] != "source" or rng.random() < 0.25]
            if cand:
                i = rng.choice(cand)
                A.stores[i].value, A.stores[i].mtime = None, None
                log.append({"op": "delete", "store": i})
        elif r < 0.8:
            random_state(rng, A, envA, p_present=0.8)
            log.append({"op": "scramble"})
        sync(B, A, envB, envA)
    if driver is not None and pending and not viol:
        out = driver.batch([p[0] for p in pending])
        st["model_lines"] += len(out)
        for (line, rg, P2, sink, desc), rep in zip(pending, out):
            want = pc.norm_reply(rep)
            got = None
            for a in rg.namings():
                rg2 = _with_sink(rg, P2, sink)
                got = pc.norm_reply(rg2.text(a))
                if got == want:
                    break
            else:
                dis.append({"layer": "physical-plan+gather", "what": "P+gather (pruned) differs from the model", "request": line,
                            "model": rep, "impl": got, "state": desc})
                break
    for x in viol + dis:
        x.update(spec=spec, hseed=hseed, steps=steps, log=log[-6:])
    return viol, dis, st


class _View:
    pass


def _with_sink(rg, P2, sink):
    """`rg` (names of the nodes of P) extended to P2 = P + the gather."""
    v = _View()
    v.__dict__.update(rg.__dict__)
    v.name = dict(rg.name)
    v.name[id(sink)] = "sink"
    v.g = P2.graph
    v.o = sink
    v.text = lambda a: pc.RealGraph.text(v, a)
    return v


def explore_c14(ctx, n_hist, steps):
    rng = random.Random(ctx.seed * 6151 + 14)
    viol, dis, tot, samples, distinct = [], [], {}, [], set()
    h = -1
    driver = pc.local_driver(ctx.driver)
    for h in range(n_hist):
        spec = pc.gen_phys_spec(rng, nmax=9 if ctx.tier == "quick" else 13, private=True)
        hseed = rng.randrange(1 << 30)
        v, d, st = run_history(spec, hseed, steps, driver)
        for k, x in st.items():
            tot[k] = tot.get(k, 0) + x
        viol += v
        dis += d
        if st["nontrivial"]:
            distinct.add((str(spec), hseed))
            if len(samples) < 2:
                samples.append({"spec": spec, "history_seed": hseed, "steps": steps, "stats": st})
        if len(viol) >= 3 or len(dis) >= 2:
            break
    if driver is not None:
        driver.close()
    cov = dict(tot)
    cov["histories"] = h + 1
    cov["evaluations"] = tot.get("dry_runs", 0) + 2 * tot.get("pairs", 0)
    cov["programs"] = h + 1
    cov["distinct_nontrivial"] = len(distinct)
    cov["rule"] = ("generated plans/registries (harness/phys_common.py) x seeded histories; per step one random (output, fresh_time): "
                   "(a) dry run on clone A: event log = mtime queries of exactly the registered nodes without out-of-date "
                   "predecessor, Plan/Registry/stores untouched; (c) P re-pruned w.r.t. the all-nodes gather == P + gather == Lean "
                   "model (driver `phys plus`); (b) run(P, output=all nodes) on A vs the real run on clone B (cooperative scheduler, "
                   "1-3 workers, max_errors=None): same multiset of call/read/write events, same store contents, same success, "
                   "same value at the output; 30% of the pairs with a transform_physical that adds a call; then a source update / deletion / scramble on both clones")
    cov["samples"] = samples
    return {"violations": viol, "disagreements": dis, "coverage": cov}


def option_cases(only=None):
    """A dry run is given the SAME options as the run it previews and goes through the same stale check: with `retry=n` (an int
    or the caller's own decorator) and a store whose modified-time query fails transiently (its first j < n attempts), both the
    real run and the dry run from the same store state succeed - and a dry run with `stale_check_max_workers`, with every bundled
    progress display, returns a plan all the same."""
    import datetime as dt
    from harness import retry_corr
    from uberjob._util.retry import create_retry
    from uberjob.progress import console_progress, html_progress, null_progress
    viol, done = [], 0
    cases = [only] if only is not None else [[how, n, j] for how in ("int", "decorator") for n, j in ((2, 1), (3, 2), (3, 1))] + [["options", 0, 0]]
    for how, n, j in cases:
        if how == "options":
            import contextlib
            import io
            import tempfile
            for prog_name in ("console", "html", "null"):
                plan, reg = uberjob.Plan(), uberjob.Registry()
                a = plan.call(lambda: 1)
                reg.add(a, retry_corr.FlakyStore())
                with tempfile.TemporaryDirectory() as d, contextlib.redirect_stdout(io.StringIO()):
                    prog = {"console": console_progress, "html": html_progress(d + "/p.html"), "null": null_progress}[prog_name]
                    try:
                        res = uberjob.run(plan, registry=reg, output=a, dry_run=True, stale_check_max_workers=3, max_workers=2, progress=prog, retry=2)
                        ok = isinstance(res, tuple) and len(res) == 2
                    except Exception as e:      # noqa: BLE001
                        ok, res = False, e
                done += 1
                if not ok:
                    viol.append({"property": "C14", "what": f"a dry run with stale_check_max_workers, retry and {prog_name} progress gave {res!r}",
                                 "kind": "options", "case": [how, n, j]})
            continue
        outcomes = []
        for dry in (False, True):
            plan, reg = uberjob.Plan(), uberjob.Registry()
            store = retry_corr.FlakyStore(fail_op="mtime", fail_first=j, mtime=dt.datetime(2021, 1, 1))
            store.value = 41
            src = reg.source(plan, store)
            out = plan.call(lambda x: x + 1, src)
            retry = n if how == "int" else create_retry(n)
            try:
                res = uberjob.run(plan, registry=reg, output=out, retry=retry, progress=None, max_workers=1, dry_run=dry)
                outcomes.append("ok" if (dry and isinstance(res, tuple)) or (not dry and res == 42) else "value %r" % (res,))
            except Exception as e:      # noqa: BLE001
                outcomes.append("raised %s" % type(e).__name__)
        done += 1
        if outcomes != ["ok", "ok"]:
            viol.append({"property": "C14", "what": f"retry={'%d' % n if how == 'int' else 'create_retry(%d)' % n} and a modified-time query failing its "
                         f"first {j} attempt(s): the real run {outcomes[0]}, the dry run from the same state {outcomes[1]}",
                         "kind": "options", "case": [how, n, j]})
            break
    return viol, done


def explore(ctx):
    from harness.common import Broken
    quick = ctx.tier == "quick"
    res = explore_c14(ctx, 110 if quick else 2200, steps=4 if quick else 5)
    cov = res["coverage"]
    if not res["violations"]:
        v, n = option_cases()
        res["violations"] += v
        cov["option_cases"] = n
    if not res["violations"] and not res["disagreements"]:
        if cov["pairs"] and cov["nontrivial"] * 2 < cov["pairs"]:
            raise Broken("correspondence", "generator-floor", "fewer than half of the compared runs performed any call or store operation")
    return res


def search(ctx, broken):
    class C:
        pass
    found = []
    for k in range(1, 4):
        c = C()
        c.__dict__.update(ctx.__dict__)
        c.seed = ctx.seed + 977 * k
        c.driver = None
        found += explore_c14(c, 300, steps=5)["violations"]
        if found:
            break
    if not found:
        found += option_cases()[0]
    return found


def replay(ctx, payload):
    w = payload.get("witness", payload)
    if w.get("kind") == "options":
        v, _ = option_cases(only=w["case"])
        return v[0]["what"] if v else None
    for _ in range(3):
        v, d, _ = run_history(w["spec"], w["hseed"], w["steps"], ctx.driver)
        if v or d:
            break
    if v:
        return v[0]["what"]
    if d:
        return "model/implementation disagreement: " + str({k: d[0][k] for k in ("what", "request", "model", "impl")})[:500]
    return None


def explore_shard(ctx):
    """extra parallel shard of the thorough tier"""
    return explore_c14(ctx, 2200, steps=5)
